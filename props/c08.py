"""C08 - align_optimal returns the true optimum.

E2: every ordered pair of short sequences x listed matrices x listed gap penalties x
{global, semi-global, local} x max_number, each executed on the real align_optimal and
compared with the complete enumeration of all alignments of the pair
(mc/models/align.py).
"""

import json

ID = "C08"
LEVEL = "model_checking"
RULE = (
    "every ordered pair of sequences up to the length bound over a 2-letter, a 3-letter and a 2x3-letter "
    "(different alphabets) setup x every listed matrix family (one listed variant and one listed code "
    "embedding per VERIF_SEED) x every listed gap penalty x {global, semi-global, local} x max_number; each "
    "(pair, matrix, gap, mode, max_number, code widths) is executed exactly once. Oracle: brute-force "
    "enumeration of ALL alignments of the pair (Delannoy many; for local every alignment of every substring "
    "pair), cross-checked per key by an independent O(nm) DP. A case is non-trivial when both sequences are "
    "non-empty, the call returned at least one non-empty alignment and the optimum is not attained solely by "
    "a gap-free alignment (a gap column is optimal or >= 2 distinct alignments tie). Audit families (kind "
    "'audit'): object flavours (read-only / strided code arrays, Sequence subclass, sequence alphabet merely extended by "
    "the matrix alphabet, matrices from int16/int64/Fortran/read-only/non-contiguous arrays, dicts in two insertion "
    "orders, double transposition; NucleotideSequence / ProteinSequence with the library matrices) - all pairs of "
    "length 1..2 through the complete oracle; argument-order mirror (a, b, M) vs (b, a, M.transpose()); aliasing / "
    "reuse / refused calls (differential); max_number just below / at / above the number of optima, the default and "
    "1683 optima; sequences of 120..257 symbols against the reference DP."
)
ASSUMPTIONS = [
    "matrix entries stay far from the int32 range (largest entry 100000); sums that overflow int32 are not explored",
    "an empty sequence is an unspecified input (EITHER): a clean exception or a result that passes every check",
    "positive gap penalties and max_number < 1 are documented as invalid and must raise",
    "every returned trace is validated and rescored with the model; biotite's own align.score() is additionally "
    "evaluated for the first 25 distinct traces per (pair, matrix, gap, mode)",
    "uint32/uint64 codes are produced by a GeneralSequence subclass whose public `code` has the wider dtype "
    "(an alphabet that needs such codes would need a > 16 GB matrix)",
    "audit families: read-only code arrays are legal input (the statement says 'any two sequences'); the number of "
    "returned alignments == min(max_number, number of optima) and mirror-image trace sets for swapped arguments are "
    "part of the strengthening (own signatures strengthening_count / strengthening_mirror_traces_differ)",
    "the 'complete set of optimal alignments' comparison (max_number=1000) is stronger than the statement and is "
    "reported under its own signature (strengthening_all_optima); for local alignments the expected set is "
    "the Smith-Waterman one (every proper prefix scores > 0; affine: ends with a pair) and is only compared "
    "when the optimum is positive",
]
EXHAUSTIVE = True
SHARD_TIMEOUT = {"quick": 600, "thorough": 2400}

MAX_NUMBERS = (1, 2, 1000)
ALIGN_SCORE_CAP = 25  # align.score() is evaluated for the first 25 distinct traces of a (pair, matrix, gap, mode)
FAMS = ["std", "ident", "negident", "allneg", "zero", "asym", "large"]
RECT_FAMS = ["rect", "rectneg"]
DTYPES = ["uint8", "uint16", "uint32", "uint64"]
WIDTH_FAMS = ["std", "asym", "allneg"]
WIDTH_GAPS = [-1, 0, (-2, -1), (0, -2)]
BAD_GAPS = [1, (1, -1), (-1, 1), (2, 3)]
MODES = ("global", "semi", "local")


def _lens(tier):
    # (letters of sequence 1, letters of sequence 2) -> maximal length
    if tier == "quick":
        return {(2, 2): 4, (3, 3): 3, (2, 3): 3, "width": 3}
    return {(2, 2): 5, (3, 3): 4, (2, 3): 4, "width": 3}


def bounds(tier):
    from mc.models import align_inputs as I

    L = _lens(tier)
    return {
        "max_len_2_letters": L[(2, 2)],
        "max_len_3_letters": L[(3, 3)],
        "max_len_2x3_letters_rectangular_matrix": L[(2, 3)],
        "max_len_code_width_combinations": L["width"],
        "matrix_families": FAMS + RECT_FAMS,
        "matrix_variants_per_family": 1 if tier == "quick" else "2 for the 2-letter setup, 1 otherwise",
        "max_number_3_letter_setup": list(_max_numbers(tier, 3, 3)),
        "max_number_rectangular_setup": list(_max_numbers(tier, 2, 3)),
        "gap_penalties": [I.gap_json(g) for g in I.GAPS],
        "refused_gap_penalties": [I.gap_json(g) for g in BAD_GAPS],
        "modes": list(MODES),
        "max_number": list(MAX_NUMBERS),
        "code_width_pairs": 16,
    }


def _max_numbers(tier, k1, k2):
    # max_number=2 only in the 2-letter setup (and the thorough rectangular one): time budget
    if (k1, k2) == (2, 2) or (tier == "thorough" and (k1, k2) == (2, 3)):
        return MAX_NUMBERS
    return (1, 1000)


def _variants(tier, seed):
    return [seed % 3] if tier == "quick" else [seed % 3, (seed + 1) % 3]


def shards(tier, seed):
    L = _lens(tier)
    out = []
    for vi, variant in enumerate(_variants(tier, seed)):
        embed = (seed + variant) % 4
        for (k1, k2), fams in (((2, 2), FAMS), ((3, 3), FAMS), ((2, 3), RECT_FAMS)):
            if (k1, k2) != (2, 2) and vi > 0:
                continue  # second matrix variant only for the 2-letter setup (time budget)
            ln = L[(k1, k2)]
            npairs = (sum(k1**i for i in range(ln + 1))) * (sum(k2**i for i in range(ln + 1)))
            parts = max(1, round(npairs / 400))
            for fam in fams:
                for part in range(parts):
                    out.append({"kind": "opt", "k": [k1, k2], "len": ln, "fam": fam, "variant": variant,
                                "embed": embed, "part": part, "parts": parts, "w": npairs / parts,
                                "max_numbers": list(_max_numbers(tier, k1, k2))})
    v0 = seed % 3
    for d1 in DTYPES:
        for d2 in DTYPES:
            if d1 == "uint8" and d2 == "uint8":
                continue
            out.append({"kind": "width", "k": [2, 2], "len": L["width"], "dtypes": [d1, d2], "variant": v0,
                        "embed": seed % 4, "w": 200})
    out.append({"kind": "refuse", "variant": v0, "embed": seed % 4, "w": 1})
    for sub in ("flavours", "library", "mirror", "alias", "counts", "long", "palette", "identity", "resize", "derived",
                "alphabet_fit", "precedence"):
        out.append({"kind": "audit", "sub": sub, "variant": v0, "embed": seed % 4, "w": 50})
    out.sort(key=lambda s: -s["w"])
    for s in out:
        del s["w"]
    # VERIF_SEED rotates the processing order only
    r = seed % max(1, len(out))
    return out[r:] + out[:r]


# ---------------------------------------------------------------------------
# one call
# ---------------------------------------------------------------------------
def _mode_kwargs(mode):
    if mode == "global":
        return {"terminal_penalty": True, "local": False}
    if mode == "semi":
        return {"terminal_penalty": False, "local": False}
    return {"local": True}


class Key:
    """Everything the model knows about one (pair, matrix, gap, mode)."""

    __slots__ = ("opt", "optset", "expected_all", "tie_or_gap", "rescore")

    def __init__(self, c1, c2, mat, gap, mode):
        from mc.models import align as A

        opt, sc, sp = A.brute(c1, c2, mat, gap, mode)
        d = A.dp_opt(c1, c2, mat, gap, mode)
        if d != opt:
            raise RuntimeError("reference models disagree: brute=%r dp=%r for %r" % (opt, d, (c1, c2, gap, mode)))
        import numpy as np

        self.opt = opt
        idx = np.nonzero(sc == opt)[0]
        self.optset = [sp.tpl[k] for k in idx]
        gapfree = [t for t in self.optset if all(i != -1 and j != -1 for i, j in t)]
        self.tie_or_gap = len(self.optset) >= 2 or len(gapfree) < len(self.optset)
        if mode == "local":
            if opt > 0:
                self.expected_all = {t for t in self.optset if A.sw_canonical(t, c1, c2, mat, gap)}
            else:
                self.expected_all = None
        else:
            self.expected_all = set(self.optset)
        self.rescore = {}


def _exc_mode(env, e):
    """Failure mode for an exception on a legal input (a read-only code array gets its own name)."""
    if getattr(env, "seq_flavour", "") == "readonly_code" and isinstance(e, ValueError) and "read-only" in str(e):
        return "readonly_code_refused"
    return "exception_%s" % type(e).__name__


def check_call(ctx, env, l1, l2, gap, mode, max_number, key=None, either=False, exact_count=False):
    """Run align_optimal once and compare.  Returns the Key (for re-use).
    max_number=None: the argument is left out (documented default 1000).
    exact_count: additionally compare the number of returned alignments with min(max_number, number of optima)
    (part of the strengthening)."""
    import biotite.sequence.align as balign

    from mc.models import align as A
    from mc.models import align_inputs as I

    c1, c2 = env.codes(1, l1), env.codes(2, l2)
    s1, s2 = env.seq(1, l1), env.seq(2, l2)
    if key is None:
        key = Key(c1, c2, env.mat, gap, mode)
    passed_mn = max_number
    if max_number is None:
        max_number = 1000

    def mkcase():
        return {"kind": "opt", **env.describe(), "s1": list(l1), "s2": list(l2), "gap": I.gap_json(gap),
                "mode": mode, "max_number": passed_mn, "exact_count": exact_count}

    cls = "%s|%s" % (mode, I.gap_class(gap))
    if either:
        cls += "|empty_sequence"

    def viol(mode_, what, expected=None, observed=None):
        ctx.violation("align_optimal|%s|%s" % (mode_, cls), what, mkcase(), expected, observed)

    ctx.ev(1, 0)
    try:
        if passed_mn is None:
            res = balign.align_optimal(s1, s2, env.matrix, gap_penalty=gap, **_mode_kwargs(mode))
        else:
            res = balign.align_optimal(s1, s2, env.matrix, gap_penalty=gap, max_number=max_number,
                                       **_mode_kwargs(mode))
    except Exception as e:  # noqa: BLE001
        if either:
            ctx.count("unspecified_raised")
            ctx.outcome(("exc", type(e).__name__))
            return key
        fm = _exc_mode(env, e)
        if fm == "readonly_code_refused":
            ctx.violation("align_optimal|readonly_code_refused|any", "a sequence whose code array is read-only is "
                          "refused: %s" % str(e)[:100], mkcase(), "a list of alignments", type(e).__name__)
        else:
            viol(fm, "legal input raised %s: %s" % (type(e).__name__, str(e)[:200]),
                 "a list of alignments", type(e).__name__)
        return key
    ctx.count("unspecified_returned" if either else "accepted")
    if not isinstance(res, list) or len(res) == 0:
        viol("no_result", "no alignment returned", ">= 1 alignment", repr(res)[:200])
        return key
    n, m = len(c1), len(c2)
    if len(res) > max_number:
        viol("too_many", "more than max_number alignments returned", max_number, len(res))
    traces = []
    nonempty_seen = set()
    dup = False
    for a in res:
        t = I.trace_cols(a.trace) if a.trace.ndim == 2 and a.trace.shape[1] == 2 else None
        if t is None:
            viol("invalid_trace", "trace is not an (k, 2) array", "(k, 2)", list(a.trace.shape))
            return key
        traces.append(t)
        sc = int(a.score)
        if sc != key.opt:
            viol("score_above_optimum" if sc > key.opt else "score_below_optimum",
                 "reported score differs from the maximum over all alignments", key.opt, [sc, [list(c) for c in t]])
            return key
        if len(a.sequences) != 2 or a.sequences[0] is not s1 and tuple(int(x) for x in a.sequences[0].code) != c1 \
                or a.sequences[1] is not s2 and tuple(int(x) for x in a.sequences[1].code) != c2:
            viol("wrong_sequences", "returned alignment does not hold the two inputs", None, None)
            return key
        if t:
            if t in nonempty_seen:
                dup = True
            nonempty_seen.add(t)
        r = key.rescore.get(t)
        if r is None:
            prob = A.trace_problem(t, n, m, end_to_end=(mode != "local"))
            if prob is None:
                ms = A.score_cols(t, c1, c2, env.mat, gap, terminal_penalty=(mode != "semi"))
                if (either and (n == 0 or m == 0)) or len(key.rescore) >= ALIGN_SCORE_CAP:
                    # align.score(terminal_penalty=False) is undefined without symbols; beyond the cap
                    # only the model rescoring is applied (align.score() costs more than the aligner)
                    bs = ms
                else:
                    try:
                        bs = int(balign.score(a, env.matrix, gap_penalty=gap, terminal_penalty=(mode != "semi")))
                    except Exception as e:  # noqa: BLE001
                        bs = "raised " + type(e).__name__
            else:
                ms = bs = None
            r = key.rescore[t] = (prob, ms, bs)
        prob, ms, bs = r
        if prob is not None:
            viol("invalid_trace", "returned trace is not a valid alignment: " + prob, "valid alignment",
                 [list(c) for c in t])
            return key
        if ms != sc:
            viol("rescore_model", "score recomputed from the trace with the documented model differs", sc,
                 [ms, [list(c) for c in t]])
            return key
        if bs != sc:
            viol("rescore_align_score", "align.score() of the returned alignment differs from its score", sc,
                 [bs, [list(c) for c in t]])
            return key
    if dup:
        viol("duplicates", "non-empty alignments are not pairwise distinct", "distinct",
             [[list(c) for c in t] for t in traces][:6])
    # strengthening: the complete set of optima
    if exact_count and key.expected_all is not None and not either:
        exp = key.expected_all
        got = set(traces)
        want = min(max_number, len(exp))
        if len(res) != want or not (got <= exp) or len(got) != len(res):
            ctx.violation("align_optimal|strengthening_count|%s" % cls,
                          "number of returned alignments differs from min(max_number, number of optimal alignments) "
                          "(stronger than the statement)", mkcase(), [want, len(exp)], [len(res), len(got)])
        ctx.count("optimal_counts_compared")
    elif max_number == 1000 and key.expected_all is not None and not either:
        exp = key.expected_all
        got = set(traces)
        if len(exp) <= 1000 and got != exp:
            miss = sorted(exp - got)[:3]
            extra = sorted(got - exp)[:3]
            ctx.violation("align_optimal|strengthening_all_optima_%s|%s" % ("missing" if miss else "extra", cls),
                          "returned set differs from the set of all optimal alignments (stronger than the statement)",
                          mkcase(), [[list(c) for c in t] for t in miss], [[list(c) for c in t] for t in extra])
        elif len(exp) > 1000 and not (got <= exp):
            ctx.violation("align_optimal|strengthening_all_optima_extra|%s" % cls,
                          "returned alignment outside the set of optimal alignments", mkcase(), None, None)
        ctx.count("optimal_sets_compared")
    nontriv = n > 0 and m > 0 and bool(nonempty_seen) and key.tie_or_gap
    ctx.ev(0, 1 if nontriv else 0)
    if max_number == 1000:
        ctx.outcome((key.opt, len(res), traces[0], traces[-1]))
    if nontriv and len(ctx.samples) < 2 and len(res) >= 2 and max_number == 1000:
        ctx.sample({**mkcase(), "optimum": key.opt, "returned": [[list(c) for c in t] for t in traces][:4],
                    "n_optimal_alignments_model": len(key.optset)})
    return key


def check_refuse(ctx, env, l1, l2, kwargs, label):
    import biotite.sequence.align as balign

    from mc.models import align_inputs as I

    case = {"kind": "refuse", **env.describe(), "s1": list(l1), "s2": list(l2),
            "kwargs": {k: I.gap_json(v) for k, v in kwargs.items()}, "label": label}
    ctx.ev(1, 1)
    try:
        balign.align_optimal(env.seq(1, l1), env.seq(2, l2), env.matrix, **kwargs)
    except Exception as e:  # noqa: BLE001
        ctx.count("refused")
        ctx.outcome(("refused", label, type(e).__name__))
        return
    ctx.violation("align_optimal|not_refused|%s" % label, "invalid argument accepted", case, "an exception", "returned")


# ---------------------------------------------------------------------------
def run_shard(shard, ctx):
    from mc.models import align_inputs as I

    kind = shard["kind"]
    if kind == "audit":
        return run_audit(shard, ctx)
    if kind == "refuse":
        env = I.Env(2, 2, "std", shard["variant"], shard["embed"])
        for l1 in I.sequences(2, 2, 1):
            for l2 in I.sequences(2, 2, 1):
                for mode in MODES:
                    for g in BAD_GAPS:
                        check_refuse(ctx, env, l1, l2, {"gap_penalty": g, **_mode_kwargs(mode)},
                                     "positive_gap_" + I.gap_class(g))
                    for mn in (0, -1):
                        check_refuse(ctx, env, l1, l2, {"gap_penalty": -1, "max_number": mn, **_mode_kwargs(mode)},
                                     "max_number_below_1")
        return
    k1, k2 = shard["k"]
    if kind == "width":
        d1, d2 = shard["dtypes"]
        fams, gaps, mns = WIDTH_FAMS, WIDTH_GAPS, (1000,)
        envs = [I.Env(k1, k2, f, shard["variant"], shard["embed"], d1, d2) for f in fams]
        part, parts = 0, 1
    else:
        envs = [I.Env(k1, k2, shard["fam"], shard["variant"], shard["embed"])]
        gaps, mns = I.GAPS, tuple(shard.get("max_numbers", MAX_NUMBERS))
        part, parts = shard["part"], shard["parts"]
    seqs1 = I.sequences(k1, shard["len"])
    seqs2 = I.sequences(k2, shard["len"])
    idx = -1
    for l1 in seqs1:
        for l2 in seqs2:
            idx += 1
            if idx % parts != part:
                continue
            either = len(l1) == 0 or len(l2) == 0
            for env in envs:
                for gap in gaps:
                    for mode in MODES:
                        jc = None
                        if either:
                            jc = json.dumps({"kind": "opt", **env.describe(), "s1": list(l1), "s2": list(l2),
                                             "gap": I.gap_json(gap), "mode": mode, "max_number": mns[0]})
                            if not ctx.journal(jc):
                                continue
                        key = None
                        for mn in mns:
                            key = check_call(ctx, env, l1, l2, gap, mode, mn, key, either)
    for env in envs:
        bad = env.mutated()
        if bad:
            ctx.violation("align_optimal|inputs_mutated|%s" % kind, "an input sequence was modified by the aligner",
                          {"kind": "mutated", **env.describe(), "which": bad[:3]}, None, None)


# ---------------------------------------------------------------------------
# dimension audit families
# ---------------------------------------------------------------------------
AUDIT_GAPS = [-1, 0, (-2, -1)]
LONG_PAIR = (120, 131)


def long_letters(n, which):
    """Sequence 1: an 11-periodic pattern; sequence 2: the same with substitutions, a deletion and an insertion."""
    pat = (0, 0, 1, 0, 1, 1, 0, 1, 1, 1, 0)
    base = [pat[i % len(pat)] for i in range(n + 8)]
    if which == 2:
        for pos in (20, 64, 99, 100):
            base[pos % len(base)] ^= 1
        del base[37]
        base.insert(80 % len(base), 1 - base[80 % len(base)])
    return tuple(base[:n])


def _call(env, l1, l2, gap, mode, mn=1000):
    import biotite.sequence.align as balign

    return balign.align_optimal(env.seq(1, l1), env.seq(2, l2), env.matrix, gap_penalty=gap, max_number=mn,
                                **_mode_kwargs(mode))


def audit_flavours(ctx, envs, max_len):
    """Every object flavour goes through the complete oracle."""
    from mc.models import align_inputs as I

    for env in envs:
        for l1 in I.sequences(env.k1, max_len, 1):
            for l2 in I.sequences(env.k2, max_len, 1):
                for gap in AUDIT_GAPS:
                    for mode in MODES:
                        check_call(ctx, env, l1, l2, gap, mode, 1000)
        bad = env.mutated()
        if bad:
            ctx.violation("align_optimal|inputs_mutated|flavour", "an input sequence was modified",
                          {"kind": "mutated", **env.describe(), "which": bad[:3]}, None, None)


def audit_mirror(ctx, shard):
    """align(a, b, M) and align(b, a, M.transpose()): same score; with max_number=1000 the mirrored trace set."""
    import biotite.sequence.align as balign

    from mc.models import align_audit as AU
    from mc.models import align_inputs as I

    for k1, k2, fam, ln in ((2, 2, "asym", 3), (2, 3, "rect", 2)):
        env = I.Env(k1, k2, fam, shard["variant"], shard["embed"])
        mt = env.matrix.transpose()
        for l1 in I.sequences(k1, ln, 1):
            for l2 in I.sequences(k2, ln, 1):
                for gap in AUDIT_GAPS:
                    for mode in MODES:
                        ctx.ev(2, 1)
                        case = {"kind": "mirror", **env.describe(), "s1": list(l1), "s2": list(l2),
                                "gap": I.gap_json(gap), "mode": mode}
                        cls = "%s|%s" % (mode, I.gap_class(gap))
                        try:
                            a = AU.result_key(_call(env, l1, l2, gap, mode))
                            b = AU.result_key(balign.align_optimal(env.seq(2, l2), env.seq(1, l1), mt, gap_penalty=gap,
                                                                   max_number=1000, **_mode_kwargs(mode)))
                        except Exception as e:  # noqa: BLE001
                            ctx.violation("align_optimal|mirror_exception_%s|%s" % (type(e).__name__, cls),
                                          "swapped call raised", case, None, str(e)[:100])
                            continue
                        ctx.outcome(("mirror", a[0][0] if a else None, len(a)))
                        if {x[0] for x in a} != {x[0] for x in b}:
                            ctx.violation("align_optimal|mirror_score_differs|%s" % cls,
                                          "align(a, b, M) and align(b, a, M.transpose()) report different scores", case,
                                          sorted({x[0] for x in a}), sorted({x[0] for x in b}))
                        elif len(a) < 1000 and len(b) < 1000 and set(a) != set(AU.mirror(b)):
                            ctx.violation("align_optimal|strengthening_mirror_traces_differ|%s" % cls,
                                          "the trace sets of the two argument orders are not mirror images (stronger "
                                          "than the statement)", case, sorted(a)[:3], sorted(AU.mirror(b))[:3])


def audit_alias(ctx, shard):
    """Inputs untouched; result objects independent of each other, of later calls and of align.score();
    state after a refused call."""
    import biotite.sequence.align as balign

    from mc.models import align_audit as AU
    from mc.models import align_inputs as I

    env = I.Env(2, 2, "zero", shard["variant"], shard["embed"])
    env2 = I.Env(2, 2, "asym", shard["variant"], shard["embed"])
    for e in (env, env2):
        for l1 in I.sequences(2, 2, 1):
            for l2 in I.sequences(2, 3, 1):
                for gap in AUDIT_GAPS:
                    for mode in MODES:
                        ctx.ev(4, 1)
                        case = {"kind": "alias", **e.describe(), "s1": list(l1), "s2": list(l2),
                                "gap": I.gap_json(gap), "mode": mode}
                        cls = "%s|%s" % (mode, I.gap_class(gap))

                        def viol(fm, what, exp=None, obs=None):
                            ctx.violation("align_optimal|%s|%s" % (fm, cls), what, case, exp, obs)

                        before = AU.snapshot(e, l1, l2)
                        res = _call(e, l1, l2, gap, mode)
                        ref = AU.result_key(res)
                        if AU.snapshot(e, l1, l2) != before:
                            viol("inputs_modified", "the call modified a sequence code or the matrix")
                            continue
                        if AU.traces_share_memory(res):
                            viol("results_share_memory", "two returned alignments share their trace memory")
                            continue
                        # align.score() must not change the alignment it scores
                        for a in res[:3]:
                            if a.trace.shape[0] and e is env2:
                                balign.score(a, e.matrix, gap_penalty=gap, terminal_penalty=(mode != "semi"))
                        if AU.result_key(res) != ref:
                            viol("score_function_modifies_alignment", "align.score() changed the alignment it was given",
                                 ref[:2], AU.result_key(res)[:2])
                            continue
                        # refused calls in between, then the same valid call again
                        try:
                            _call(e, l1, l2, 1, mode)
                            viol("not_refused", "positive gap penalty accepted")
                        except Exception:  # noqa: BLE001
                            pass
                        try:
                            _call(e, l1, l2, gap, mode, 0)
                            viol("not_refused", "max_number=0 accepted")
                        except Exception:  # noqa: BLE001
                            pass
                        res2 = _call(e, l1, l2, gap, mode)
                        if AU.result_key(res2) != ref:
                            viol("second_call_differs", "the same call gives another result after refused calls", ref[:2],
                                 AU.result_key(res2)[:2])
                            continue
                        # the caller overwrites the second result: the first one and later calls are unaffected
                        AU.scribble(res2)
                        if AU.result_key(res) != ref:
                            viol("results_of_two_calls_share_state", "overwriting the result of a later call changed an "
                                 "earlier result", ref[:2], AU.result_key(res)[:2])
                        elif AU.result_key(_call(e, l1, l2, gap, mode)) != ref:
                            viol("second_call_differs", "the same call gives another result after an earlier result was "
                                 "overwritten by the caller")
                        elif AU.snapshot(e, l1, l2) != before:
                            viol("inputs_modified", "a refused call modified a sequence code or the matrix")
                        ctx.outcome(("alias", len(ref)))


def audit_counts(ctx, shard):
    """max_number just below / at / just above the number of optimal alignments; the default; more optima than
    the default of 1000."""
    from mc.models import align_inputs as I

    for fam in ("zero", "ident", "std"):
        env = I.Env(2, 2, fam, shard["variant"], shard["embed"])
        for l1 in I.sequences(2, 3, 1):
            for l2 in I.sequences(2, 3, 1):
                for gap in (0, -1, (0, 0), (-1, 0)):
                    for mode in MODES:
                        key = Key(env.codes(1, l1), env.codes(2, l2), env.mat, gap, mode)
                        if key.expected_all is None:
                            continue
                        nopt = len(key.expected_all)
                        for mn in sorted({max(1, nopt - 1), nopt, nopt + 1, 3}):
                            check_call(ctx, env, l1, l2, gap, mode, mn, key, exact_count=True)
                        check_call(ctx, env, l1, l2, gap, mode, None, key, exact_count=True)
    # 1683 optimal global alignments (all of them): default limit 1000 and a limit above
    env = I.Env(2, 2, "zero", shard["variant"], shard["embed"])
    l = (0, 1, 0, 1, 1)
    for mode in ("global", "semi"):
        for gap in (0, (0, 0)):
            key = Key(env.codes(1, l), env.codes(2, l), env.mat, gap, mode)
            ctx.count("many_optima_%d" % len(key.expected_all))
            for mn in (None, 999, 1000, 1001, 1682, 1683, 1684, 5000):
                check_call(ctx, env, l, l, gap, mode, mn, key, exact_count=True)


def audit_long(ctx, shard):
    """Sequences far beyond the enumerable lengths; oracle: reference DP score, validity, rescoring."""
    import biotite.sequence.align as balign

    from mc.models import align as A
    from mc.models import align_inputs as I

    env = I.Env(2, 2, "std", shard["variant"], shard["embed"])
    for n, m in (LONG_PAIR, LONG_PAIR[::-1], (257, 40)):
        l1, l2 = long_letters(n, 1), long_letters(m, 2)
        c1, c2 = env.codes(1, l1), env.codes(2, l2)
        for gap in (-2, (-3, -1)):
            for mode in MODES:
                ctx.ev(1, 1)
                case = {"kind": "long", **env.describe(), "n": n, "m": m, "gap": I.gap_json(gap), "mode": mode}
                cls = "%s|%s|long" % (mode, I.gap_class(gap))

                def viol(fm, what, exp=None, obs=None):
                    ctx.violation("align_optimal|%s|%s" % (fm, cls), what, case, exp, obs)

                opt = A.dp_opt(c1, c2, env.mat, gap, mode)
                try:
                    res = _call(env, l1, l2, gap, mode, 3)
                except Exception as e:  # noqa: BLE001
                    viol("exception_%s" % type(e).__name__, "legal input raised", None, str(e)[:100])
                    continue
                if not res or len(res) > 3:
                    viol("too_many" if res else "no_result", "wrong number of alignments", "1..3", len(res))
                    continue
                seen = set()
                for a in res:
                    t = I.trace_cols(a.trace)
                    sc = int(a.score)
                    if sc != opt:
                        viol("score_above_optimum" if sc > opt else "score_below_optimum",
                             "reported score differs from the optimum (reference DP)", opt, sc)
                        break
                    prob = A.trace_problem(t, n, m, mode != "local")
                    if prob:
                        viol("invalid_trace", "returned trace is not a valid alignment: " + prob)
                        break
                    ms = A.score_cols(t, c1, c2, env.mat, gap, mode != "semi")
                    bs = int(balign.score(a, env.matrix, gap_penalty=gap, terminal_penalty=(mode != "semi")))
                    if ms != sc or bs != sc:
                        viol("rescore_model" if ms != sc else "rescore_align_score",
                             "score recomputed from the trace differs", sc, [ms, bs])
                        break
                    if t in seen:
                        viol("duplicates", "alignments are not pairwise distinct")
                        break
                    seen.add(t)
                ctx.outcome(("long", n, m, mode, opt, len(res)))


# ---------------------------------------------------------------------------
# second dimension audit
# ---------------------------------------------------------------------------
COMBO_FAMS = ["asymneg", "largeneg", "asymlarge", "zerorow"]


def palette_envs():
    """B: every value a VERIF_SEED could select (code embeddings of the small and the 300-symbol alphabet, matrix
    variants) at shallow depth with every seed; C: matrices that combine two awkward features."""
    from mc.models import align_inputs as I

    envs = []
    for e in range(4):
        envs.append(I.Env(2, 2, "asym", 0, e))
        envs.append(I.Env(2, 2, "asym", 1, e, "uint16", "uint16"))
        envs.append(I.Env(2, 3, "rect", e % 3, e, "uint16", "uint8"))      # wide codes AND different alphabets
    for fam in FAMS + COMBO_FAMS:
        for v in range(3):
            envs.append(I.Env(2, 2, fam, v, v))
    for fam in RECT_FAMS:
        for v in range(3):
            envs.append(I.Env(2, 3, fam, v, v + 1))
    return envs


def audit_palette(ctx, shard):
    from mc.models import align_inputs as I

    for env in palette_envs():
        for l1 in I.sequences(env.k1, 2, 1):
            for l2 in I.sequences(env.k2, 2, 1):
                for gap in I.GAPS:
                    for mode in MODES:
                        check_call(ctx, env, l1, l2, gap, mode, 1000)


def audit_identity(ctx, shard):
    """A: every returned Alignment is a new object with its own `sequences` list and trace; re-binding edits of one
    result do not reach the other results, the inputs or a transposed matrix."""
    from mc.models import align_audit as AU
    from mc.models import align_inputs as I

    for fam in ("zero", "std"):
        env = I.Env(2, 2, fam, shard["variant"], shard["embed"])
        mt = env.matrix.transpose()
        ctx.ev(1, 1)
        if mt is env.matrix or mt.score_matrix() is env.matrix.score_matrix():
            ctx.violation("SubstitutionMatrix.transpose|returns_operand|symmetric_matrix", "transpose() of a symmetric "
                          "matrix returned the matrix itself", {"kind": "identity", **env.describe()})
        for l1 in I.sequences(2, 2, 1):
            for l2 in I.sequences(2, 3, 1):
                for gap in AUDIT_GAPS:
                    for mode in MODES:
                        ctx.ev(1, 1)
                        case = {"kind": "identity", **env.describe(), "s1": list(l1), "s2": list(l2),
                                "gap": I.gap_json(gap), "mode": mode}
                        cls = "%s|%s" % (mode, I.gap_class(gap))
                        s1, s2 = env.seq(1, l1), env.seq(2, l2)
                        before = AU.snapshot(env, l1, l2)
                        res = _call(env, l1, l2, gap, mode)
                        ref = AU.result_key(res)
                        if len({id(a) for a in res}) != len(res) or len({id(a.sequences) for a in res}) != len(res):
                            ctx.violation("align_optimal|results_share_object|%s" % cls, "two returned alignments are the "
                                          "same object / share their `sequences` list", case)
                            continue
                        first = res[0]
                        first.sequences.append("edited")
                        first.sequences[0] = None
                        first.trace = None
                        first.score = None
                        ok = all(len(a.sequences) == 2 and a.sequences[0] is s1 and a.sequences[1] is s2
                                 for a in res[1:])
                        if not ok or AU.result_key(res[1:]) != ref[1:]:
                            ctx.violation("align_optimal|edit_of_one_result_reaches_another|%s" % cls,
                                          "re-binding edits of the first returned alignment changed another one", case)
                        elif AU.snapshot(env, l1, l2) != before or env.seq(1, l1) is not s1:
                            ctx.violation("align_optimal|edit_of_result_reaches_input|%s" % cls,
                                          "re-binding edits of a returned alignment changed an input", case)
                        elif AU.result_key(_call(env, l1, l2, gap, mode)) != ref:
                            ctx.violation("align_optimal|second_call_differs|%s" % cls,
                                          "the same call gives another result after a result was edited", case)
                        ctx.outcome(("identity", len(res)))


RESIZE_PATH = [(0, 1), (0, 1, 1), (1,), (1, 0, 1), (0, 0), (1, 1, 0, 1), (0,)]


def audit_resize(ctx, shard):
    """D: the same Sequence / Alignment objects are given contents of another length (code and symbols setters,
    trace / sequences attributes) between calls, after reads that could cache something."""
    import biotite.sequence as bseq
    import biotite.sequence.align as balign
    import numpy as np

    from mc.models import align as A
    from mc.models import align_audit as AU
    from mc.models import align_inputs as I

    env = I.Env(2, 2, "asym", shard["variant"], shard["embed"])
    s1, s2 = bseq.GeneralSequence(env.alph1), bseq.GeneralSequence(env.alph2)
    holder = None
    for gap in AUDIT_GAPS:
        for mode in MODES:
            for step, l1 in enumerate(RESIZE_PATH):
                l2 = RESIZE_PATH[(step * 3 + 1) % len(RESIZE_PATH)]
                ctx.ev(2, 1)
                case = {"kind": "resize", **env.describe(), "step": step, "s1": list(l1), "s2": list(l2),
                        "gap": I.gap_json(gap), "mode": mode}
                cls = "%s|%s" % (mode, I.gap_class(gap))
                if step % 2:
                    s1.code = np.array(env.codes(1, l1), dtype=np.uint8)
                    s2.symbols = list(env.codes(2, l2))
                else:
                    s1.symbols = list(env.codes(1, l1))
                    s2.code = np.array(env.codes(2, l2), dtype=np.uint8)
                len(s1), str(s2), s1.get_symbol_frequency()      # reads between the uses
                got = AU.result_key(balign.align_optimal(s1, s2, env.matrix, gap_penalty=gap, **_mode_kwargs(mode)))
                want = AU.result_key(_call(env, l1, l2, gap, mode))
                if got != want:
                    ctx.violation("align_optimal|reused_sequence_object_differs|%s" % cls, "a Sequence object that held "
                                  "a sequence of another length before gives another result than a fresh one", case,
                                  want[:2], got[:2])
                    continue
                # the same Alignment object takes over the first trace of every step
                fresh = _call(env, l1, l2, gap, mode)[0]
                if holder is None:
                    holder = _call(env, l1, l2, gap, mode)[0]
                len(holder), str(holder), holder.get_gapped_sequences()
                holder.sequences = [env.seq(1, l1), env.seq(2, l2)]
                holder.trace = fresh.trace.copy()
                holder.score = fresh.score
                tp = mode != "semi"
                a = (int(balign.score(holder, env.matrix, gap, tp)), str(holder), len(holder),
                     holder.get_gapped_sequences())
                b = (int(balign.score(fresh, env.matrix, gap, tp)), str(fresh), len(fresh), fresh.get_gapped_sequences())
                m = A.score_cols(I.trace_cols(fresh.trace), env.codes(1, l1), env.codes(2, l2), env.mat, gap, tp)
                if a != b or a[0] != m:
                    ctx.violation("Alignment|reused_object_differs|%s" % cls, "an Alignment object whose trace / sequences "
                                  "were replaced by ones of another length scores / prints differently from a fresh one",
                                  case, [b[0], m], a[0])
                ctx.outcome(("resize", step, a[0]))


def audit_derived(ctx, shard):
    """E: objects the library hands out as inputs - derived sequences (through the complete oracle), positional
    matrix + sequences (same result as the originals), sliced / filtered / trimmed alignments into align.score()."""
    import biotite.sequence.align as balign
    import numpy as np

    from mc.models import align as A
    from mc.models import align_audit as AU
    from mc.models import align_inputs as I

    audit_flavours(ctx, AU.derived_envs(shard["variant"], shard["embed"]), 2)
    for fam in ("asym", "zero"):
        env = I.Env(2, 2, fam, shard["variant"], shard["embed"])
        for l1 in I.sequences(2, 3, 1):
            for l2 in I.sequences(2, 2, 1):
                c1, c2 = env.codes(1, l1), env.codes(2, l2)
                pm, p1, p2 = env.matrix.as_positional(env.seq(1, l1), env.seq(2, l2))
                for gap in AUDIT_GAPS:
                    for mode in MODES:
                        ctx.ev(2, 1)
                        case = {"kind": "derived", **env.describe(), "s1": list(l1), "s2": list(l2),
                                "gap": I.gap_json(gap), "mode": mode}
                        cls = "%s|%s" % (mode, I.gap_class(gap))
                        res = _call(env, l1, l2, gap, mode)
                        ref = AU.result_key(res)
                        try:
                            got = AU.result_key(balign.align_optimal(p1, p2, pm, gap_penalty=gap, max_number=1000,
                                                                     **_mode_kwargs(mode)))
                        except Exception as e:  # noqa: BLE001
                            ctx.violation("align_optimal|positional_exception_%s|%s" % (type(e).__name__, cls),
                                          "as_positional() output refused", case, None, str(e)[:100])
                            continue
                        if got != ref:
                            ctx.violation("align_optimal|positional_result_differs|%s" % cls, "aligning the positional "
                                          "equivalents of as_positional() gives another result", case, ref[:2], got[:2])
                        # derived alignments -> align.score()
                        for a in res[:2]:
                            k = a.trace.shape[0]
                            derived = [("slice", a[i:j]) for i in range(k) for j in range(i + 1, k + 1)]
                            if k:
                                mask = np.arange(k) % 2 == 0
                                derived.append(("mask", a[mask]))
                                derived.append(("index", a[np.arange(0, k, 2)]))
                                try:
                                    derived.append(("trimmed", balign.remove_terminal_gaps(a)))
                                except Exception:  # noqa: BLE001
                                    pass
                            for how, d in derived:
                                t = I.trace_cols(d.trace)
                                for tp in (True, False):
                                    if not tp and (all(c[0] == -1 for c in t) or all(c[1] == -1 for c in t)):
                                        continue   # terminal gaps undefined without symbols in a row
                                    ctx.ev(1, 0)
                                    want = A.score_cols(t, c1, c2, env.mat, gap, tp)
                                    try:
                                        sc = int(balign.score(d, env.matrix, gap, tp))
                                    except Exception as e:  # noqa: BLE001
                                        sc = "raised " + type(e).__name__
                                    if sc != want:
                                        ctx.violation("align.score|derived_alignment_%s|%s" % (how, I.gap_class(gap)),
                                                      "align.score() of an alignment obtained by %s differs from the "
                                                      "documented model" % how, {**case, "trace": [list(c) for c in t],
                                                                                  "terminal_penalty": tp}, want, sc)
                        ctx.outcome(("derived", ref[0][0] if ref else None))


# ---------------------------------------------------------------------------
# third dimension audit
# ---------------------------------------------------------------------------
def bigger_alphabet_cases(env):
    """F: sequences whose alphabet has MORE symbols than the matrix alphabet (the matrix does not extend it).
    Yields (label, which sequence(s), letters->codes, must_raise).  Codes inside the matrix range: the requirement
    'matrix alphabets extend the sequence alphabets' is violated but a result could be computed - unspecified
    (exception or exactly the model value).  A code beyond the matrix: no value exists, must raise."""
    import biotite.sequence as bseq

    big1 = bseq.Alphabet(list(range(env.size1 + 2)))
    big2 = bseq.Alphabet(list(range(env.size2 + 2)))
    G = bseq.GeneralSequence
    out = []
    for l1 in ((0,), (0, 1), (1, 0, 1)):
        for l2 in ((1,), (1, 0), (0, 1, 1)):
            c1, c2 = list(env.codes(1, l1)), list(env.codes(2, l2))
            plain1, plain2 = env.seq(1, l1), env.seq(2, l2)
            beyond1 = c1[:-1] + [env.size1 + 1]
            beyond2 = c2[:-1] + [env.size2]
            out.append(("seq1_alphabet_larger_codes_inside", G(big1, c1), plain2, l1, l2, False))
            out.append(("seq2_alphabet_larger_codes_inside", plain1, G(big2, c2), l1, l2, False))
            out.append(("both_alphabets_larger_codes_inside", G(big1, c1), G(big2, c2), l1, l2, False))
            out.append(("seq1_code_beyond_matrix", G(big1, beyond1), plain2, l1, l2, True))
            out.append(("seq2_code_beyond_matrix", plain1, G(big2, beyond2), l1, l2, True))
            out.append(("both_codes_beyond_matrix", G(big1, beyond1), G(big2, beyond2), l1, l2, True))
    return out


def audit_alphabet_fit(ctx, shard):
    import biotite.sequence.align as balign

    from mc.models import align_audit as AU
    from mc.models import align_inputs as I

    for k1, k2, fam in ((2, 2, "asym"), (2, 3, "rect")):
        env = I.Env(k1, k2, fam, 0, 1)
        for label, s1, s2, l1, l2, must_raise in bigger_alphabet_cases(env):
            for gap in AUDIT_GAPS[:2]:
                for mode in MODES:
                    case = {"kind": "alphabet_fit", **env.describe(), "label": label, "s1": list(l1), "s2": list(l2),
                            "gap": I.gap_json(gap), "mode": mode}
                    if not ctx.journal(json.dumps(case)):
                        continue
                    ctx.ev(1, 1)
                    try:
                        got = AU.result_key(balign.align_optimal(s1, s2, env.matrix, gap_penalty=gap, max_number=1000,
                                                                 **_mode_kwargs(mode)))
                    except Exception as e:  # noqa: BLE001
                        ctx.count("refused" if must_raise else "unspecified_raised")
                        ctx.outcome(("alphabet_fit", label, type(e).__name__))
                        continue
                    if must_raise:
                        ctx.violation("align_optimal|alphabet_larger_than_matrix_not_refused|%s" % label,
                                      "a sequence holds a symbol the substitution matrix has no row / column for, but the "
                                      "call returns", case, "an exception", got[:1])
                        continue
                    ctx.count("unspecified_returned")
                    want = AU.result_key(_call(env, l1, l2, gap, mode))
                    if got != want:
                        ctx.violation("align_optimal|alphabet_larger_than_matrix_changes_result|%s" % label,
                                      "sequence alphabet not extended by the matrix alphabet is accepted but the result "
                                      "differs from the one for the same codes", case, want[:2], got[:2])


def audit_precedence(ctx, shard):
    """H: `terminal_penalty` is documented to have no effect when `local` is true - both given and contradictory."""
    import biotite.sequence.align as balign

    from mc.models import align_audit as AU
    from mc.models import align_inputs as I

    for fam in ("asym", "allneg", "zero"):
        env = I.Env(2, 2, fam, 0, 0)
        for l1 in I.sequences(2, 3, 1):
            for l2 in I.sequences(2, 3, 1):
                for gap in I.GAPS:
                    ctx.ev(2, 1)
                    case = {"kind": "precedence", **env.describe(), "s1": list(l1), "s2": list(l2),
                            "gap": I.gap_json(gap)}
                    s1, s2 = env.seq(1, l1), env.seq(2, l2)
                    a = AU.result_key(balign.align_optimal(s1, s2, env.matrix, gap_penalty=gap, local=True,
                                                           terminal_penalty=True))
                    b = AU.result_key(balign.align_optimal(s1, s2, env.matrix, gap_penalty=gap, local=True,
                                                           terminal_penalty=False))
                    ctx.outcome(("precedence", a[0][0], len(a)))
                    if a != b:
                        ctx.violation("align_optimal|terminal_penalty_changes_local_result|%s" % I.gap_class(gap),
                                      "terminal_penalty is documented to have no effect for local=True, but the result "
                                      "changes with it", case, a[:2], b[:2])


def _run_audit(shard, ctx):
    from mc.models import align_audit as AU

    sub = shard["sub"]
    if sub == "flavours":
        audit_flavours(ctx, AU.flavour_envs(shard["variant"], shard["embed"]), 2)
    elif sub == "library":
        audit_flavours(ctx, [AU.LibEnv("nucleotide"), AU.LibEnv("protein")], 2)
    elif sub == "mirror":
        audit_mirror(ctx, shard)
    elif sub == "alias":
        audit_alias(ctx, shard)
    elif sub == "counts":
        audit_counts(ctx, shard)
    elif sub == "long":
        audit_long(ctx, shard)
    elif sub == "palette":
        audit_palette(ctx, shard)
    elif sub == "identity":
        audit_identity(ctx, shard)
    elif sub == "resize":
        audit_resize(ctx, shard)
    elif sub == "derived":
        audit_derived(ctx, shard)
    elif sub == "alphabet_fit":
        audit_alphabet_fit(ctx, shard)
    elif sub == "precedence":
        audit_precedence(ctx, shard)


DIFFERENTIAL_SUBS = {"alphabet_fit": "alphabet_fit", "precedence": "precedence", "mirror": "mirror", "alias": "alias", "identity": "identity", "resize": "resize",
                     "derived": "derived", "argument_types": "argtypes"}


def run_audit(shard, ctx):
    """The differential families run without an oracle of their own; they are clean on the unchanged tree, so an
    exception inside one of them is an observation about the library, not a harness fault."""
    sub = shard["sub"]
    if sub not in DIFFERENTIAL_SUBS:
        return _run_audit(shard, ctx)
    try:
        _run_audit(shard, ctx)
    except Exception as e:  # noqa: BLE001
        import traceback

        ctx.violation("%s|%s_family_raised_%s|any" % ("align_optimal", sub, type(e).__name__),
                      "an operation inside the differential family raised: %s" % str(e)[:150],
                      {"kind": DIFFERENTIAL_SUBS[sub], "variant": shard["variant"], "embed": shard["embed"],
                       "k": [2, 2], "fam": "asym"}, None, traceback.format_exc()[-600:])


def crash_class(case):
    if isinstance(case, dict) and case.get("kind") == "alphabet_fit":
        return "align_optimal|alphabet_larger_than_matrix|%s" % case.get("label")
    if isinstance(case, dict):
        return "align_optimal|%s|%s" % (case.get("mode"), "empty_sequence")
    return "unclassified"


def replay(case, ctx):
    from mc.models import align_inputs as I

    if case.get("kind") == "mutated":
        return
    if case.get("kind") in ("mirror", "alias", "long", "identity", "resize", "derived", "alphabet_fit", "precedence"):
        sh = {"variant": case["variant"], "embed": case["embed"]}
        {"alphabet_fit": audit_alphabet_fit, "precedence": audit_precedence, "mirror": audit_mirror, "alias": audit_alias, "long": audit_long, "identity": audit_identity,
         "resize": audit_resize, "derived": audit_derived}[case["kind"]](ctx, sh)
        return
    from mc.models import align_audit as AU

    env = AU.make_env(case)
    l1, l2 = tuple(case["s1"]), tuple(case["s2"])
    if case["kind"] == "refuse":
        check_refuse(ctx, env, l1, l2, {k: I.gap_from_json(v) for k, v in case["kwargs"].items()}, case["label"])
        return
    either = len(l1) == 0 or len(l2) == 0
    check_call(ctx, env, l1, l2, I.gap_from_json(case["gap"]), case["mode"], case["max_number"], None, either,
               case.get("exact_count", False))
