"""C08 - align_optimal returns the true optimum.

E2: every ordered pair of short sequences x listed matrices x listed gap penalties x
{global, semi-global, local} x max_number, each executed on the real align_optimal and
compared with the complete enumeration of all alignments of the pair
(mc/models/align.py).
"""

import json

ID = "C08"
LEVEL = "model_checking"
RULE = (
    "every ordered pair of sequences up to the length bound over a 2-letter, a 3-letter and a 2x3-letter "
    "(different alphabets) setup x every listed matrix family (one listed variant and one listed code "
    "embedding per VERIF_SEED) x every listed gap penalty x {global, semi-global, local} x max_number; each "
    "(pair, matrix, gap, mode, max_number, code widths) is executed exactly once. Oracle: brute-force "
    "enumeration of ALL alignments of the pair (Delannoy many; for local every alignment of every substring "
    "pair), cross-checked per key by an independent O(nm) DP. A case is non-trivial when both sequences are "
    "non-empty, the call returned at least one non-empty alignment and the optimum is not attained solely by "
    "a gap-free alignment (a gap column is optimal or >= 2 distinct alignments tie)."
)
ASSUMPTIONS = [
    "matrix entries stay far from the int32 range (largest entry 100000); sums that overflow int32 are not explored",
    "an empty sequence is an unspecified input (EITHER): a clean exception or a result that passes every check",
    "positive gap penalties and max_number < 1 are documented as invalid and must raise",
    "every returned trace is validated and rescored with the model; biotite's own align.score() is additionally "
    "evaluated for the first 25 distinct traces per (pair, matrix, gap, mode)",
    "uint32/uint64 codes are produced by a GeneralSequence subclass whose public `code` has the wider dtype "
    "(an alphabet that needs such codes would need a > 16 GB matrix)",
    "the 'complete set of optimal alignments' comparison (max_number=1000) is stronger than the statement and is "
    "reported under its own signature (strengthening_all_optima); for local alignments the expected set is "
    "the Smith-Waterman one (every proper prefix scores > 0; affine: ends with a pair) and is only compared "
    "when the optimum is positive",
]
EXHAUSTIVE = True
SHARD_TIMEOUT = {"quick": 600, "thorough": 2400}

MAX_NUMBERS = (1, 2, 1000)
ALIGN_SCORE_CAP = 25  # align.score() is evaluated for the first 25 distinct traces of a (pair, matrix, gap, mode)
FAMS = ["std", "ident", "negident", "allneg", "zero", "asym", "large"]
RECT_FAMS = ["rect", "rectneg"]
DTYPES = ["uint8", "uint16", "uint32", "uint64"]
WIDTH_FAMS = ["std", "asym", "allneg"]
WIDTH_GAPS = [-1, 0, (-2, -1), (0, -2)]
BAD_GAPS = [1, (1, -1), (-1, 1), (2, 3)]
MODES = ("global", "semi", "local")


def _lens(tier):
    # (letters of sequence 1, letters of sequence 2) -> maximal length
    if tier == "quick":
        return {(2, 2): 4, (3, 3): 3, (2, 3): 3, "width": 3}
    return {(2, 2): 5, (3, 3): 4, (2, 3): 4, "width": 3}


def bounds(tier):
    from mc.models import align_inputs as I

    L = _lens(tier)
    return {
        "max_len_2_letters": L[(2, 2)],
        "max_len_3_letters": L[(3, 3)],
        "max_len_2x3_letters_rectangular_matrix": L[(2, 3)],
        "max_len_code_width_combinations": L["width"],
        "matrix_families": FAMS + RECT_FAMS,
        "matrix_variants_per_family": 1 if tier == "quick" else "2 for the 2-letter setup, 1 otherwise",
        "max_number_3_letter_setup": list(_max_numbers(tier, 3, 3)),
        "max_number_rectangular_setup": list(_max_numbers(tier, 2, 3)),
        "gap_penalties": [I.gap_json(g) for g in I.GAPS],
        "refused_gap_penalties": [I.gap_json(g) for g in BAD_GAPS],
        "modes": list(MODES),
        "max_number": list(MAX_NUMBERS),
        "code_width_pairs": 16,
    }


def _max_numbers(tier, k1, k2):
    # max_number=2 only in the 2-letter setup (and the thorough rectangular one): time budget
    if (k1, k2) == (2, 2) or (tier == "thorough" and (k1, k2) == (2, 3)):
        return MAX_NUMBERS
    return (1, 1000)


def _variants(tier, seed):
    return [seed % 3] if tier == "quick" else [seed % 3, (seed + 1) % 3]


def shards(tier, seed):
    L = _lens(tier)
    out = []
    for vi, variant in enumerate(_variants(tier, seed)):
        embed = (seed + variant) % 4
        for (k1, k2), fams in (((2, 2), FAMS), ((3, 3), FAMS), ((2, 3), RECT_FAMS)):
            if (k1, k2) != (2, 2) and vi > 0:
                continue  # second matrix variant only for the 2-letter setup (time budget)
            ln = L[(k1, k2)]
            npairs = (sum(k1**i for i in range(ln + 1))) * (sum(k2**i for i in range(ln + 1)))
            parts = max(1, round(npairs / 400))
            for fam in fams:
                for part in range(parts):
                    out.append({"kind": "opt", "k": [k1, k2], "len": ln, "fam": fam, "variant": variant,
                                "embed": embed, "part": part, "parts": parts, "w": npairs / parts,
                                "max_numbers": list(_max_numbers(tier, k1, k2))})
    v0 = seed % 3
    for d1 in DTYPES:
        for d2 in DTYPES:
            if d1 == "uint8" and d2 == "uint8":
                continue
            out.append({"kind": "width", "k": [2, 2], "len": L["width"], "dtypes": [d1, d2], "variant": v0,
                        "embed": seed % 4, "w": 200})
    out.append({"kind": "refuse", "variant": v0, "embed": seed % 4, "w": 1})
    out.sort(key=lambda s: -s["w"])
    for s in out:
        del s["w"]
    # VERIF_SEED rotates the processing order only
    r = seed % max(1, len(out))
    return out[r:] + out[:r]


# ---------------------------------------------------------------------------
# one call
# ---------------------------------------------------------------------------
def _mode_kwargs(mode):
    if mode == "global":
        return {"terminal_penalty": True, "local": False}
    if mode == "semi":
        return {"terminal_penalty": False, "local": False}
    return {"local": True}


class Key:
    """Everything the model knows about one (pair, matrix, gap, mode)."""

    __slots__ = ("opt", "optset", "expected_all", "tie_or_gap", "rescore")

    def __init__(self, c1, c2, mat, gap, mode):
        from mc.models import align as A

        opt, sc, sp = A.brute(c1, c2, mat, gap, mode)
        d = A.dp_opt(c1, c2, mat, gap, mode)
        if d != opt:
            raise RuntimeError("reference models disagree: brute=%r dp=%r for %r" % (opt, d, (c1, c2, gap, mode)))
        import numpy as np

        self.opt = opt
        idx = np.nonzero(sc == opt)[0]
        self.optset = [sp.tpl[k] for k in idx]
        gapfree = [t for t in self.optset if all(i != -1 and j != -1 for i, j in t)]
        self.tie_or_gap = len(self.optset) >= 2 or len(gapfree) < len(self.optset)
        if mode == "local":
            if opt > 0:
                self.expected_all = {t for t in self.optset if A.sw_canonical(t, c1, c2, mat, gap)}
            else:
                self.expected_all = None
        else:
            self.expected_all = set(self.optset)
        self.rescore = {}


def check_call(ctx, env, l1, l2, gap, mode, max_number, key=None, either=False):
    """Run align_optimal once and compare.  Returns the Key (for re-use)."""
    import biotite.sequence.align as balign

    from mc.models import align as A
    from mc.models import align_inputs as I

    c1, c2 = env.codes(1, l1), env.codes(2, l2)
    s1, s2 = env.seq(1, l1), env.seq(2, l2)
    if key is None:
        key = Key(c1, c2, env.mat, gap, mode)
    def mkcase():
        return {"kind": "opt", **env.describe(), "s1": list(l1), "s2": list(l2), "gap": I.gap_json(gap),
                "mode": mode, "max_number": max_number}

    cls = "%s|%s" % (mode, I.gap_class(gap))
    if either:
        cls += "|empty_sequence"

    def viol(mode_, what, expected=None, observed=None):
        ctx.violation("align_optimal|%s|%s" % (mode_, cls), what, mkcase(), expected, observed)

    ctx.ev(1, 0)
    try:
        res = balign.align_optimal(s1, s2, env.matrix, gap_penalty=gap, max_number=max_number, **_mode_kwargs(mode))
    except Exception as e:  # noqa: BLE001
        if either:
            ctx.count("unspecified_raised")
            ctx.outcome(("exc", type(e).__name__))
            return key
        viol("exception_%s" % type(e).__name__, "legal input raised %s: %s" % (type(e).__name__, str(e)[:200]),
             "a list of alignments", type(e).__name__)
        return key
    ctx.count("unspecified_returned" if either else "accepted")
    if not isinstance(res, list) or len(res) == 0:
        viol("no_result", "no alignment returned", ">= 1 alignment", repr(res)[:200])
        return key
    n, m = len(c1), len(c2)
    if len(res) > max_number:
        viol("too_many", "more than max_number alignments returned", max_number, len(res))
    traces = []
    nonempty_seen = set()
    dup = False
    for a in res:
        t = I.trace_cols(a.trace) if a.trace.ndim == 2 and a.trace.shape[1] == 2 else None
        if t is None:
            viol("invalid_trace", "trace is not an (k, 2) array", "(k, 2)", list(a.trace.shape))
            return key
        traces.append(t)
        sc = int(a.score)
        if sc != key.opt:
            viol("score_above_optimum" if sc > key.opt else "score_below_optimum",
                 "reported score differs from the maximum over all alignments", key.opt, [sc, [list(c) for c in t]])
            return key
        if len(a.sequences) != 2 or a.sequences[0] is not s1 and tuple(int(x) for x in a.sequences[0].code) != c1 \
                or a.sequences[1] is not s2 and tuple(int(x) for x in a.sequences[1].code) != c2:
            viol("wrong_sequences", "returned alignment does not hold the two inputs", None, None)
            return key
        if t:
            if t in nonempty_seen:
                dup = True
            nonempty_seen.add(t)
        r = key.rescore.get(t)
        if r is None:
            prob = A.trace_problem(t, n, m, end_to_end=(mode != "local"))
            if prob is None:
                ms = A.score_cols(t, c1, c2, env.mat, gap, terminal_penalty=(mode != "semi"))
                if (either and (n == 0 or m == 0)) or len(key.rescore) >= ALIGN_SCORE_CAP:
                    # align.score(terminal_penalty=False) is undefined without symbols; beyond the cap
                    # only the model rescoring is applied (align.score() costs more than the aligner)
                    bs = ms
                else:
                    try:
                        bs = int(balign.score(a, env.matrix, gap_penalty=gap, terminal_penalty=(mode != "semi")))
                    except Exception as e:  # noqa: BLE001
                        bs = "raised " + type(e).__name__
            else:
                ms = bs = None
            r = key.rescore[t] = (prob, ms, bs)
        prob, ms, bs = r
        if prob is not None:
            viol("invalid_trace", "returned trace is not a valid alignment: " + prob, "valid alignment",
                 [list(c) for c in t])
            return key
        if ms != sc:
            viol("rescore_model", "score recomputed from the trace with the documented model differs", sc,
                 [ms, [list(c) for c in t]])
            return key
        if bs != sc:
            viol("rescore_align_score", "align.score() of the returned alignment differs from its score", sc,
                 [bs, [list(c) for c in t]])
            return key
    if dup:
        viol("duplicates", "non-empty alignments are not pairwise distinct", "distinct",
             [[list(c) for c in t] for t in traces][:6])
    # strengthening: the complete set of optima
    if max_number == 1000 and key.expected_all is not None and not either:
        exp = key.expected_all
        got = set(traces)
        if len(exp) <= 1000 and got != exp:
            miss = sorted(exp - got)[:3]
            extra = sorted(got - exp)[:3]
            ctx.violation("align_optimal|strengthening_all_optima_%s|%s" % ("missing" if miss else "extra", cls),
                          "returned set differs from the set of all optimal alignments (stronger than the statement)",
                          mkcase(), [[list(c) for c in t] for t in miss], [[list(c) for c in t] for t in extra])
        elif len(exp) > 1000 and not (got <= exp):
            ctx.violation("align_optimal|strengthening_all_optima_extra|%s" % cls,
                          "returned alignment outside the set of optimal alignments", mkcase(), None, None)
        ctx.count("optimal_sets_compared")
    nontriv = n > 0 and m > 0 and bool(nonempty_seen) and key.tie_or_gap
    ctx.ev(0, 1 if nontriv else 0)
    if max_number == 1000:
        ctx.outcome((key.opt, len(res), traces[0], traces[-1]))
    if nontriv and len(ctx.samples) < 2 and len(res) >= 2 and max_number == 1000:
        ctx.sample({**mkcase(), "optimum": key.opt, "returned": [[list(c) for c in t] for t in traces][:4],
                    "n_optimal_alignments_model": len(key.optset)})
    return key


def check_refuse(ctx, env, l1, l2, kwargs, label):
    import biotite.sequence.align as balign

    from mc.models import align_inputs as I

    case = {"kind": "refuse", **env.describe(), "s1": list(l1), "s2": list(l2),
            "kwargs": {k: I.gap_json(v) for k, v in kwargs.items()}, "label": label}
    ctx.ev(1, 1)
    try:
        balign.align_optimal(env.seq(1, l1), env.seq(2, l2), env.matrix, **kwargs)
    except Exception as e:  # noqa: BLE001
        ctx.count("refused")
        ctx.outcome(("refused", label, type(e).__name__))
        return
    ctx.violation("align_optimal|not_refused|%s" % label, "invalid argument accepted", case, "an exception", "returned")


# ---------------------------------------------------------------------------
def run_shard(shard, ctx):
    from mc.models import align_inputs as I

    kind = shard["kind"]
    if kind == "refuse":
        env = I.Env(2, 2, "std", shard["variant"], shard["embed"])
        for l1 in I.sequences(2, 2, 1):
            for l2 in I.sequences(2, 2, 1):
                for mode in MODES:
                    for g in BAD_GAPS:
                        check_refuse(ctx, env, l1, l2, {"gap_penalty": g, **_mode_kwargs(mode)},
                                     "positive_gap_" + I.gap_class(g))
                    for mn in (0, -1):
                        check_refuse(ctx, env, l1, l2, {"gap_penalty": -1, "max_number": mn, **_mode_kwargs(mode)},
                                     "max_number_below_1")
        return
    k1, k2 = shard["k"]
    if kind == "width":
        d1, d2 = shard["dtypes"]
        fams, gaps, mns = WIDTH_FAMS, WIDTH_GAPS, (1000,)
        envs = [I.Env(k1, k2, f, shard["variant"], shard["embed"], d1, d2) for f in fams]
        part, parts = 0, 1
    else:
        envs = [I.Env(k1, k2, shard["fam"], shard["variant"], shard["embed"])]
        gaps, mns = I.GAPS, tuple(shard.get("max_numbers", MAX_NUMBERS))
        part, parts = shard["part"], shard["parts"]
    seqs1 = I.sequences(k1, shard["len"])
    seqs2 = I.sequences(k2, shard["len"])
    idx = -1
    for l1 in seqs1:
        for l2 in seqs2:
            idx += 1
            if idx % parts != part:
                continue
            either = len(l1) == 0 or len(l2) == 0
            for env in envs:
                for gap in gaps:
                    for mode in MODES:
                        jc = None
                        if either:
                            jc = json.dumps({"kind": "opt", **env.describe(), "s1": list(l1), "s2": list(l2),
                                             "gap": I.gap_json(gap), "mode": mode, "max_number": mns[0]})
                            if not ctx.journal(jc):
                                continue
                        key = None
                        for mn in mns:
                            key = check_call(ctx, env, l1, l2, gap, mode, mn, key, either)
    for env in envs:
        bad = env.mutated()
        if bad:
            ctx.violation("align_optimal|inputs_mutated|%s" % kind, "an input sequence was modified by the aligner",
                          {"kind": "mutated", **env.describe(), "which": bad[:3]}, None, None)


def crash_class(case):
    if isinstance(case, dict):
        return "align_optimal|%s|%s" % (case.get("mode"), "empty_sequence")
    return "unclassified"


def replay(case, ctx):
    from mc.models import align_inputs as I

    if case.get("kind") == "mutated":
        return
    k1, k2 = case["k"]
    d1, d2 = case.get("dtypes", ["uint8", "uint8"])
    env = I.Env(k1, k2, case["fam"], case["variant"], case["embed"], d1, d2)
    l1, l2 = tuple(case["s1"]), tuple(case["s2"])
    if case["kind"] == "refuse":
        check_refuse(ctx, env, l1, l2, {k: I.gap_from_json(v) for k, v in case["kwargs"].items()}, case["label"])
        return
    either = len(l1) == 0 or len(l2) == 0
    check_call(ctx, env, l1, l2, I.gap_from_json(case["gap"]), case["mode"], case["max_number"], None, either)
