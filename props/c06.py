"""C06 - the CIF text layer returns every string table unchanged; file / block /
category containers of the text and the binary flavour are mutable mappings.

E2 (tables): every string of bounded length over a 14-symbol alphabet of awkward
characters (plus reserved words and the two mask states) is put at every cell
position of every 1..3 x 1..3 table, the file is serialised, the text is parsed
again and every column (values, mask, accessors) is compared with the table
that went in.  Deviation 2 (two awkward cells) and non-default block / category
/ column names only report failures that are not already explained by the
deviation-1 cases they contain.

E1 (containers): breadth-first exploration of mapping-operation histories on
the real containers against nested dicts, with "write the file and read it
again" as an environment step that makes every element lazy; the canonical
state is the dict model plus the laziness flags of the real object.
"""

import copy
import io
import itertools
import json

import numpy as np

ID = "C06"
LEVEL = "model_checking"
EXHAUSTIVE = True
SHARD_TIMEOUT = {"quick": 600, "thorough": 2400}

RULE = (
    "tables: every value (all strings up to the stated length over the 14-symbol alphabet, the reserved-word list, "
    "'.'/'?' in the mask role by inference and by explicit mask) x every cell position of every RxC layout, all other "
    "cells distinct plain tokens; each (layout, position, value) is generated once; a case is non-trivial when the value "
    "is not a plain bare token and the parsed table was compared cell by cell. pairs: every ordered pair of class "
    "representatives (first value of each quoting class in enumeration order) x every pair of cell positions; a failing "
    "pair is reported only if both single-cell tables it contains pass. names: palette of legal CIF names for block / "
    "category / column x value representatives; reported only if the same table passes under default names. "
    "containers: BFS over the listed mapping operations from every initial container, one shard per (flavour, level, "
    "initial container); states deduplicated on (dict model incl. key order, laziness flags and cached row counts read "
    "from the real object, origin of binary columns); every transition is executed on a fresh replay of the history, "
    "its result compared with the dict model, followed by a complete observation (len, iteration, containment for all "
    "keys, deep content, equality laws); non-trivial = the history contains a mutating operation or the re-parse step. "
    "content laws (once per distinct content in the 'empty' and 'two_parsed' shards of every subject): '==' / '!=' of "
    "two operands parsed from files must equal dict equality of the contents in all four {still serialised, fully "
    "accessed}^2 parse states, for an operand parsed from the same bytes, from the file written with every key inserted "
    "in the opposite order at every level, from two perturbed contents, and (text flavour) from five hand-written "
    "layouts of the same content (wide padding, double quotes, extra comment lines, one-row loop_, blank lines). "
    "dimension families (each a complete product of the listed palettes): wide = value lengths straddling 10/64/100/256/"
    "1000/4096 x 5 value templates x 5 positions x 3 name-length pairs; many = row counts 9..11/99..101/1000, column counts "
    "9..11/33/100, 9..11/101 categories / blocks (both flavours) x 10 awkward values x first/middle/last position, and "
    "uniform tables; flavour = 25 data flavours x 12 mask flavours x 3 construction routes (text) and 16 x 7 (BinaryCIF); "
    "alias = arguments unchanged by construction / reading / writing, observations repeatable and equality-preserving, "
    "one object under two keys / in two parents, sharing with arguments recorded as unspecified; reuse = one file object "
    "written, modified through the mapping interface (11 scenarios, 93 representatives, 2 layouts) or refused (3 scenarios) "
    "and written again vs a freshly built file (incl. another number of rows on the same code path with the cached "
    "row_count read in between); result = 6 operations that yield new objects (copy, deserialize twice, component "
    "deserialize, serialize result, pop result, items dict) x 2 flavours x 2 contents: re-binding edits of the result must "
    "leave the operand equal to its model; combo = reserved word x special character, every class representative together "
    "with a mask token in 9 position pairs, 6 two-feature names at each level; derived = 8 kinds of objects handed out by "
    "the library x 4 storing operations x 2 flavours, target and source compared with their models; sizes = ladders of "
    "5 contents of growing size per level (columns are prefixes of one another) x 2 flavours: == / != for all ordered "
    "pairs in 4 parse states and x.update(y) for all ordered pairs (y built / lazy) vs dict semantics; precedence = a value "
    "given in two places (stored name vs key, explicit mask vs '.'/'?' token, masked_value option vs default, row_count "
    "argument vs column length), both present and different next to one present, vs the documented precedence."
)
ASSUMPTIONS = [
    "the strings '.' and '?' are generated only in the mask role (biotite infers the mask from the bare tokens)",
    "a value in which a line break is directly followed by ';' cannot be expressed in CIF 1.1: a refusal at serialisation "
    "time or the exact value are both accepted (EITHER); silent change or a parse error is a violation",
    "names are restricted to legal CIF names (non-blank printable characters, no '.' in category / column names)",
    "columns have no mapping interface in biotite; they are observed as values (as_array, mask, ==) of the category mapping",
    "BinaryCIF column equality includes the encoding objects: a parsed column vs a freshly built one with the same content "
    "is EITHER; two independent replays of the same history must be equal, containers with different content must differ",
    "serialising a category without columns or with columns of different lengths is documented to be refused: the "
    "re-parse step must then raise and leave the container unchanged",
    "laziness flags are read from private attributes (_blocks/_categories/_elements/_row_count) only to deduplicate states",
    "non-ASCII characters, carriage returns and other control characters are outside the alphabet",
]

# ---------------------------------------------------------------------------
# alphabets
# ---------------------------------------------------------------------------
LETTERS = ["a", "x", "Z", "7", "q"]  # VERIF_SEED selects which plain symbol plays 'a'
SPECIALS = [" ", "\t", "'", '"', "_", "#", ";", "$", "[", "]", ".", "?", "\n"]
RESERVED = ["data_", "data_x", "loop_", "save_", "global_", "stop_", "DATA_X", "save_x", "LOOP_", "Global_", "loop_x",
            "stop_x", "data_ x", "loop_ x", "x data_", "x\ndata_y", "x\nloop_", "x\n_y.z w", "x\nsave_", " data_", "\tloop_"]
# reserved word combined with every special character (two features handled by different branches of the writer)
# (line breaks excluded: reserved words on the lines of a multi-line value are in RESERVED / the ml.* classes)
RESERVED_COMBOS = [w + c for w in ("data_", "loop_", "save_", "global_", "stop_") for c in SPECIALS if c != "\n"] + \
                  [c + w for w in ("data_", "loop_") for c in SPECIALS if c != "\n"]
NAME_PALETTE = [
    # (name, class)
    ("a", "plain"), ("A1", "upper_digit"), ("atom_site", "inner_underscore"), ("_u", "lead_underscore"),
    ("x-y", "hyphen"), ("m[1][1]", "bracket"), ("a/b", "slash"), ("%x", "percent"), ("data_", "reserved_data"),
    ("loop_", "reserved_loop"), ("a#b", "inner_hash"), ("a;b", "inner_semicolon"),
]
# names with two features (dim family 'combo'; not part of the 12^3 product)
NAME_COMBOS = ["_m[1]", "loop_#x", "data_a;b", "_%x/y", "a#b[1]", "__u"]
DEFAULT_NAMES = ("blk", "cat", ("k0", "k1", "k2"))
LAYOUTS = [(R, C) for R in (1, 2, 3) for C in (1, 2, 3)]
KEY_POSITIONS = [(1, 1, 0, 0), (2, 2, 1, 0), (2, 2, 0, 1)]  # single, loop line start, loop inline


def letter_of(seed):
    return LETTERS[seed % len(LETTERS)]


def bounds(tier):
    q = tier == "quick"
    return {
        "alphabet": ["<letter>"] + SPECIALS,
        "letter_palette": LETTERS,
        "value_length_all_positions": 3 if q else 4,
        "value_length_key_positions": 4 if q else 5,
        "key_positions_RCrc": key_positions(tier),
        "layouts": "1..3 rows x 1..3 columns, every cell position (36)",
        "reserved_words": len(RESERVED),
        "pair_layouts": "layouts with <= 4 cells (14 position pairs)" if q else "layouts with <= 6 cells (44 position pairs)",
        "names": "one of block/category/column varied over 12 names" if q else "all 12^3 name triples",
        "container_depth": {i: container_depth(tier, i) for i in sorted(INITS)},
        "container_keys": KEYS + [ABSENT_KEY],
        "container_subjects": [f + "." + lv for f in FLAVOURS for lv in LEVELS],
        "container_inits": sorted(INITS),
        "content_law_operands": ["same_text", "reversed_order", "perturbed x2"] + ["foreign_" + v for v in FOREIGN_VARIANTS],
        "content_law_parse_states": ["%s_%s" % c for c in PARSE_COMBOS],
        "dim_families": {"wide": {"lengths": WIDE_LENGTHS, "templates": WIDE_TEMPLATES, "positions_RCrc": WIDE_POSITIONS,
                                  "name_lengths_column_category": WIDE_NAMES},
                         "many": {"rows": MANY_ROWS, "columns": MANY_COLS, "categories_or_blocks": MANY_ELEMS},
                         "flavour": {"text_data": sorted(DATA_FLAVOURS), "text_mask": MASK_FLAVOURS,
                                     "bin_data": sorted(BIN_DATA_FLAVOURS), "bin_mask": BIN_MASK_FLAVOURS},
                         "alias": {"inputs": ALIAS_INPUTS, "two_parents": TWO_PARENT_SCENARIOS},
                         "reuse": {"scenarios": REUSE_SCENARIOS + REFUSED_SCENARIOS},
                         "result": {"scenarios": RESULT_SCENARIOS},
                         "combo": {"reserved_x_special": len(RESERVED_COMBOS), "mask_position_pairs": len(COMBO_MASK_POSITIONS),
                                   "names": NAME_COMBOS},
                         "derived": {"sources": DERIVED_SOURCES, "sinks": DERIVED_SINKS},
                         "sizes": {"ladder_lengths": {lv: len(size_ladder(lv, "text")) for lv in LEVELS},
                                   "operations": ["== / != in 4 parse states, all ordered pairs", "x.update(y), y built / lazy"]},
                         "precedence": {"cases": len(PRECEDENCE_CASES)}},
    }


def gen_values(maxlen, letter, minlen=0):
    alpha = [letter] + SPECIALS
    for n in range(minlen, maxlen + 1):
        for t in itertools.product(alpha, repeat=n):
            v = "".join(t)
            if v in (".", "?"):
                continue  # only generated in the mask role
            yield v


# ---------------------------------------------------------------------------
# value classes (input classes for signatures and for choosing representatives);
# written from the CIF syntax rules, independent of the letter palette
# ---------------------------------------------------------------------------
_RES_PREFIX = ("data_", "save_")
_RES_EXACT = ("loop_", "stop_", "global_")


def _is_reserved(tok):
    low = tok.lower()
    return low.startswith(_RES_PREFIX) or low in _RES_EXACT


def _resembles_reserved(tok):
    low = tok.lower()
    return low.startswith(_RES_PREFIX + _RES_EXACT)


_LEAD = {"#": "hash", ";": "semicolon", "$": "dollar", "[": "lbracket", "]": "rbracket", "_": "underscore",
         "'": "sq", '"': "dq", " ": "space", "\t": "tab", ".": "dot", "?": "qmark"}


def vclass(v):
    """Quoting class of a value (letter independent): <lead>.<content>[.trailws] or ml.<feature>."""
    if v == "":
        return "empty"
    if "\n" in v:
        return _ml_class(v)
    if _is_reserved(v):
        lead = "reserved"
    elif _resembles_reserved(v):
        lead = "reserved_prefix"
    else:
        lead = _LEAD.get(v[0], "plain")
    sq, dq = "'" in v, '"' in v
    ws = " " in v or "\t" in v
    if sq and dq:
        cont = "both"
    elif sq or dq:
        cont = ("sq" if sq else "dq") + ("+ws" if ws else "")
    else:
        cont = "ws" if ws else "bare"
    lab = lead + "." + cont
    if cont == "both" and v[-1] in " \t":
        lab += ".trailws"  # in the text-field form the end of the value is the end of a line
    return lab


def sigclass(v):
    """Class used in signatures: the lead is irrelevant once the text-field form is needed."""
    c = vclass(v)
    if ".both" in c:
        return "both_quotes" + (".trailws" if c.endswith(".trailws") else "")
    return c


def _ml_class(v):
    """Most destructive feature first, so that every class has one meaning."""
    lines = v.split("\n")
    inner = lines[1:]
    if any(ln.startswith(";") for ln in inner):
        return "ml.semicolon_line"  # not expressible in CIF 1.1
    if any(ln.lstrip(" \t").startswith(";") for ln in inner):
        return "ml.indented_semicolon_line"
    if any(ln.startswith("_") for ln in inner):
        return "ml.underscore_line"
    if any(_resembles_reserved(ln) for ln in inner):
        return "ml.reserved_line"
    if any(ln.startswith("#") for ln in inner):
        return "ml.hash_line"
    if any(ln != ln.strip(" \t") for ln in lines):
        return "ml.line_ws"
    blank = [i for i, ln in enumerate(inner) if ln == ""]
    if blank:
        return "ml.trailing_newline" if blank == [len(inner) - 1] else "ml.blank_line"
    return "ml.plain"


EITHER_CLASSES = {"ml.semicolon_line"}


_REPS = {}


def representatives(letter):
    """First value of every class in enumeration order (length <= 3, then the reserved list)."""
    if letter not in _REPS:
        _REPS[letter] = _representatives(letter)
    return _REPS[letter]


def _representatives(letter):
    seen = {}
    for v in itertools.chain(gen_values(3, letter), RESERVED):
        seen.setdefault(vclass(v), v)
    return [seen[k] for k in sorted(seen)]


def layout_of(R, c):
    return "single" if R == 1 else ("loop_first" if c == 0 else "loop_other")


# ---------------------------------------------------------------------------
# table round trip
# ---------------------------------------------------------------------------
PRESENT, INAPPLICABLE, MISSING = 0, 1, 2
_MASK_OF = {".": INAPPLICABLE, "?": MISSING}


def filler(letter, i, j):
    return "%s%d%d" % (letter, i, j)


def make_table(R, C, letter, cells):
    """cells: {(r, c): value}; returns list of rows."""
    t = [[filler(letter, i, j) for j in range(C)] for i in range(R)]
    for (r, c), v in cells.items():
        t[r][c] = v
    return t


def roundtrip(table, names=DEFAULT_NAMES, mask_cells=(), explicit_mask=False):
    """Build the file through the public constructors, serialise, parse, observe.
    Returns (stage, payload): ('ser', exc name) | ('parse', exc name) | ('obs', observation dict)."""
    import biotite.structure.io.pdbx as pdbx

    bname, cname, colnames = names
    R, C = len(table), len(table[0])
    try:
        cols = {}
        for j in range(C):
            data = [table[i][j] for i in range(R)]
            if explicit_mask and any((i, j) in mask_cells for i in range(R)):
                mask = [_MASK_OF[table[i][j]] if (i, j) in mask_cells else PRESENT for i in range(R)]
                data = ["" if (i, j) in mask_cells else table[i][j] for i in range(R)]
                cols[colnames[j]] = pdbx.CIFColumn(data, mask)
            else:
                cols[colnames[j]] = pdbx.CIFColumn(data)
        f = pdbx.CIFFile({bname: pdbx.CIFBlock({cname: pdbx.CIFCategory(cols)})})
        text = f.serialize()
    except Exception as e:  # noqa: BLE001
        return "ser", type(e).__name__
    try:
        g = pdbx.CIFFile.deserialize(text)
        obs = {"blocks": list(g.keys())}
        if len(obs["blocks"]) == 1:
            b = g[obs["blocks"][0]]
            obs["cats"] = list(b.keys())
            if len(obs["cats"]) == 1:
                cat = b[obs["cats"][0]]
                obs["cols"] = list(cat.keys())
                obs["cells"] = []
                obs["masks"] = []
                obs["items"] = []
                for k in obs["cols"]:
                    col = cat[k]
                    arr = col.as_array()
                    obs["cells"].append([str(x) for x in arr])
                    m = col.mask
                    obs["masks"].append([PRESENT] * len(arr) if m is None else [int(x) for x in m.array])
                    obs["items"].append(col.as_item() if len(arr) == 1 else None)
                obs["row_count"] = int(cat.row_count)
    except Exception as e:  # noqa: BLE001
        return "parse", type(e).__name__
    return "obs", obs


def expected_obs(table, names, mask_cells):
    bname, cname, colnames = names
    R, C = len(table), len(table[0])
    return {
        "blocks": [bname], "cats": [cname], "cols": list(colnames[:C]),
        "cells": [[table[i][j] for i in range(R)] for j in range(C)],
        "masks": [[_MASK_OF[table[i][j]] if (i, j) in mask_cells else PRESENT for i in range(R)] for j in range(C)],
        "items": [table[0][j] if R == 1 else None for j in range(C)],
        "row_count": R,
    }


def failure_mode(stage, payload, exp, awkward):
    """None if the round trip is exact, else a mode string. awkward: set of (r, c)."""
    if stage == "ser":
        return "serialize_error"
    if stage == "parse":
        return "parse_error"
    obs = payload
    for k in ("blocks", "cats", "cols"):
        if obs.get(k) != exp[k]:
            return "table_broken"
    if [len(x) for x in obs["cells"]] != [len(x) for x in exp["cells"]]:
        return "table_broken"
    diff = {(i, j) for j, col in enumerate(exp["cells"]) for i, x in enumerate(col) if obs["cells"][j][i] != x}
    if diff - awkward:
        return "table_broken"
    if diff:
        return "cell_changed"
    if obs["masks"] != exp["masks"]:
        return "mask_changed"
    if obs["items"] != exp["items"] or obs["row_count"] != exp["row_count"]:
        return "accessor_mismatch"
    return None


def eval_table(R, C, letter, cells, names=DEFAULT_NAMES, mask_cells=(), explicit_mask=False):
    table = make_table(R, C, letter, cells)
    stage, payload = roundtrip(table, names, mask_cells, explicit_mask)
    exp = expected_obs(table, names, set(mask_cells))
    return failure_mode(stage, payload, exp, set(cells)), stage, payload, exp


def _obs_short(stage, payload):
    if stage != "obs":
        return [stage, payload]
    return {k: payload.get(k) for k in ("blocks", "cats", "cols", "cells", "masks")}


def check_single(ctx, R, C, r, c, v, letter, role="value", explicit=False, count=True):
    """One deviation-1 case. role: 'value' | 'mask'."""
    mask_cells = ((r, c),) if role == "mask" else ()
    mode, stage, payload, exp = eval_table(R, C, letter, {(r, c): v}, mask_cells=mask_cells, explicit_mask=explicit)
    if role == "mask":
        cls = "mask.%s.%s" % ("inapplicable" if v == "." else "missing", "explicit" if explicit else "inferred")
    else:
        cls = sigclass(v)
    lay = layout_of(R, c)
    if count:
        ctx.ev(1, 1 if (cls != "plain.bare" and stage == "obs") else 0)
        ctx.outcome((mode, payload["cells"][c][r] if stage == "obs" and mode in (None, "cell_changed") else
                     (stage, str(payload)[:80])))
    either = cls in EITHER_CLASSES
    if either:
        if mode is None:
            ctx.count("unspecified_exact")
            return None
        if mode == "serialize_error":
            ctx.count("unspecified_refused")
            return None
        ctx.count("unspecified_violated")
    elif mode is None:
        if count:
            ctx.count("accepted_exact")
        return None
    case = {"kind": "table", "R": R, "C": C, "r": r, "c": c, "v": v, "letter": letter, "role": role, "explicit": explicit}
    ctx.violation("table|%s|%s|%s" % (lay, mode, cls),
                  "CIF text round trip of a %dx%d table with %r at row %d column %d: %s" % (R, C, v, r, c, mode),
                  case, expected=_obs_short("obs", exp), observed=_obs_short(stage, payload))
    return mode


def run_tables(shard, ctx):
    letter = letter_of(ctx.seed)
    R, C = shard["R"], shard["C"]
    positions = [tuple(p) for p in shard["positions"]]
    vals = list(gen_values(shard["maxlen"], letter, shard.get("minlen", 0)))
    part, parts = shard.get("part", 0), shard.get("parts", 1)
    extra = shard.get("extras", False)
    n = 0
    for (r, c) in positions:
        pre = "t|%d|%d|%d|%d|" % (R, C, r, c)
        for idx, v in enumerate(vals):
            if idx % parts != part:
                continue
            if n % 64 == 0 and not ctx.journal(pre + json.dumps(v)):
                n += 1
                continue
            n += 1
            mode = check_single(ctx, R, C, r, c, v, letter)
            if mode is None and len(ctx.samples) < 2 and len(v) >= 2 and vclass(v) not in ("plain.bare",):
                ctx.sample({"kind": "table", "R": R, "C": C, "r": r, "c": c, "v": v, "result": "round trip exact"})
        if extra:
            for v in RESERVED:
                check_single(ctx, R, C, r, c, v, letter)
            for v in (".", "?"):
                for explicit in (False, True):
                    check_single(ctx, R, C, r, c, v, letter, role="mask", explicit=explicit)


# ---------------------------------------------------------------------------
# deviation 2: two awkward cells
# ---------------------------------------------------------------------------
def pair_relation(R, p1, p2):
    if R == 1:
        return "single_row"
    if p1[0] == p2[0]:
        return "same_row"
    if p1[1] == p2[1]:
        return "same_col"
    return "diagonal"


def run_pairs(shard, ctx):
    letter = letter_of(ctx.seed)
    R, C = shard["R"], shard["C"]
    reps = representatives(letter)
    cells = [(r, c) for r in range(R) for c in range(C)]
    pairs = list(itertools.combinations(cells, 2))
    part, parts = shard["part"], shard["parts"]
    memo = {}

    def single_ok(p, v):
        k = (p, v)
        if k not in memo:
            memo[k] = eval_table(R, C, letter, {p: v})[0]
        m = memo[k]
        return m is None or (vclass(v) in EITHER_CLASSES and m == "serialize_error")

    idx = 0
    for p1, p2 in pairs:
        for v1 in reps:
            for v2 in reps:
                idx += 1
                if idx % parts != part:
                    continue
                check_pair(ctx, R, C, p1, p2, v1, v2, letter, single_ok)


def check_pair(ctx, R, C, p1, p2, v1, v2, letter, single_ok=None):
    p1, p2 = tuple(p1), tuple(p2)
    mode, stage, payload, exp = eval_table(R, C, letter, {p1: v1, p2: v2})
    c1, c2 = sigclass(v1), sigclass(v2)
    ctx.ev(1, 1 if stage == "obs" and (c1 != "plain.bare" and c2 != "plain.bare") else 0)
    ctx.outcome(("pair", mode, c1, c2))
    if mode is None:
        ctx.count("pair_exact")
        if len(ctx.samples) < 1 and "\n" in v1 and c2 not in ("plain.bare", "empty"):
            ctx.sample({"kind": "pair", "R": R, "C": C, "p1": list(p1), "p2": list(p2), "v1": v1, "v2": v2,
                        "result": "round trip exact"})
        return
    if mode == "serialize_error" and (c1 in EITHER_CLASSES or c2 in EITHER_CLASSES):
        ctx.count("unspecified_refused")
        return
    if single_ok is None:
        def single_ok(p, v):
            m = eval_table(R, C, letter, {p: v})[0]
            return m is None or (vclass(v) in EITHER_CLASSES and m == "serialize_error")
    if not (single_ok(p1, v1) and single_ok(p2, v2)):
        ctx.count("pair_explained_by_single_cell")
        return
    case = {"kind": "pair", "R": R, "C": C, "p1": list(p1), "p2": list(p2), "v1": v1, "v2": v2, "letter": letter}
    ctx.violation("pair|%s|%s|%s+%s" % (pair_relation(R, p1, p2), mode, c1, c2),
                  "two awkward cells %r at %s and %r at %s fail together although each passes alone: %s"
                  % (v1, p1, v2, p2, mode), case, expected=_obs_short("obs", exp), observed=_obs_short(stage, payload))


# ---------------------------------------------------------------------------
# names
# ---------------------------------------------------------------------------
NAME_VALUES = ["<plain>", "<letter> <letter>", "it's", "", ".", "<letter>\n<letter>", '"', "_<letter>"]
NAME_LAYOUTS = [(1, 1), (1, 2), (2, 2)]


def _name_values(letter):
    return [v.replace("<plain>", letter + letter).replace("<letter>", letter) for v in NAME_VALUES]


def run_names(shard, ctx):
    letter = letter_of(ctx.seed)
    pal = NAME_PALETTE
    if shard["mode"] == "one":
        triples = []
        for lvl in range(3):
            for i in range(len(pal)):
                t = [None, None, None]
                t[lvl] = i
                triples.append(tuple(t))
    else:
        bi = shard["block"]
        triples = [(bi, ci, ki) for ci in range(len(pal)) for ki in range(len(pal))]
    for t in triples:
        for (R, C) in NAME_LAYOUTS:
            for v in _name_values(letter):
                check_names(ctx, R, C, t, v, letter)


def check_names(ctx, R, C, t, v, letter):
    pal = NAME_PALETTE
    bname = DEFAULT_NAMES[0] if t[0] is None else pal[t[0]][0]
    cname = DEFAULT_NAMES[1] if t[1] is None else pal[t[1]][0]
    cols = list(DEFAULT_NAMES[2])
    if t[2] is not None:
        cols[0] = pal[t[2]][0]
    names = (bname, cname, tuple(cols))
    pos = (R - 1, 0)
    mask_cells = (pos,) if v in (".", "?") else ()
    mode, stage, payload, exp = eval_table(R, C, letter, {pos: v}, names=names, mask_cells=mask_cells)
    ctx.ev(1, 1 if stage == "obs" and any(x is not None and pal[x][1] != "plain" for x in t) else 0)
    ctx.outcome(("names", mode, t))
    if mode is None:
        ctx.count("names_exact")
        return
    if eval_table(R, C, letter, {pos: v}, mask_cells=mask_cells)[0] is not None:
        ctx.count("names_explained_by_default_names")
        return
    lv = "+".join("%s:%s" % (lab, pal[x][1]) for lab, x in zip(("block", "category", "column"), t) if x is not None)
    case = {"kind": "names", "R": R, "C": C, "t": list(t), "v": v, "letter": letter}
    ctx.violation("names|%s|%s|%s" % (layout_of(R, 0), mode, lv),
                  "table with names %r fails although it passes under default names: %s" % (names, mode), case,
                  expected=_obs_short("obs", exp), observed=_obs_short(stage, payload))


# ===========================================================================
# containers (E1)
# ===========================================================================
FLAVOURS = ["text", "bin"]
LEVELS = ["file", "block", "category"]
KEYS = ["a", "ab", "_c"]
ABSENT_KEY = "zz"

# value specs: column = ["col", kind, cells]; "." / "?" cells are masked
COLV = {
    "c1": ["col", "str", ["x", "y z"]],
    "c2": ["col", "str", ["1", "."]],
    "c3": ["col", "str", ["w"]],
    "n1": ["col", "int", [4, "?"]],
    # three rows: with c1/c2 (two rows) a looped table can grow and shrink while staying looped
    "c4": ["col", "str", ["u", "v w", "?"]],
}
CATV = {
    "k1": [["p", "c1"]],
    "k2": [["p", "c2"], ["q", "c1"]],
    "k3": [["p", "c3"], ["pq", "c3"]],  # single-row syntax; two of them side by side test the category boundary
}
BLKV = {
    "b1": [["s", "k1"]],
    "b2": [["s", "k3"], ["s_t", "k3"], ["u", "k2"]],  # one category name is a prefix of the next
    "b0": [],
}


def col_model(name, flavour):
    _, kind, cells = COLV[name]
    if kind == "int" and flavour == "text":
        cells = [str(x) for x in cells]
        kind = "str"
    return ("col", kind, tuple(cells), "fresh")


def cat_model(name, flavour):
    return {k: col_model(v, flavour) for k, v in CATV[name]}


def blk_model(name, flavour):
    return {k: cat_model(v, flavour) for k, v in BLKV[name]}


def value_names(level, flavour):
    if level == "file":
        return ["b1", "b2", "b0"]
    if level == "block":
        return ["k1", "k2", "k3"]
    return ["c1", "c2", "c3"] + (["n1"] if flavour == "bin" else []) + ["c4"]


def value_model(level, name, flavour):
    if level == "file":
        return blk_model(name, flavour)
    if level == "block":
        return cat_model(name, flavour)
    return col_model(name, flavour)


INITS = {
    # name: list of (key, value name index) set through the constructor; "+parsed": followed by a re-parse
    "empty": [],
    "one": [("a", 0)],
    "two": [("a", 0), ("_c", 1)],
    "two_parsed": [("ab", 1), ("a", 0)],
}


def is_col(m):
    return isinstance(m, tuple) and m and m[0] == "col"


def copy_model(m):
    if is_col(m):
        return m
    return {k: copy_model(v) for k, v in m.items()}


def strip_origin(m):
    if is_col(m):
        return m[:3]
    return {k: strip_origin(v) for k, v in m.items()}


def mark_parsed(m):
    if is_col(m):
        return m[:3] + ("parsed",)
    return {k: mark_parsed(v) for k, v in m.items()}


def has_parsed(m):
    if is_col(m):
        return m[3] == "parsed"
    return any(has_parsed(v) for v in m.values())


def model_key(m):
    if is_col(m):
        return list(m)
    return [[k, model_key(v)] for k, v in m.items()]


def col_rows(m):
    return len(m[2])


def cat_serialisable(cat):
    """documented: at least one column, all columns of the same length (>= 1 row)"""
    if not cat:
        return False
    return len({col_rows(c) for c in cat.values()}) == 1


def level_of_model(level):
    return {"file": 0, "block": 1, "category": 2}[level]


def all_categories(m, level):
    if level == "category":
        return [m]
    if level == "block":
        return list(m.values())
    return [c for b in m.values() for c in b.values()]


# ---- building real objects --------------------------------------------------
def build(m, level, flavour):
    """Fresh real object for a model value of the given level ('column' allowed)."""
    import biotite.structure.io.pdbx as pdbx

    if level == "column":
        _, kind, cells, _o = m
        masks = [_MASK_OF.get(x, PRESENT) if isinstance(x, str) else PRESENT for x in cells]
        if flavour == "text":
            return pdbx.CIFColumn([str(x) for x in cells])
        if kind == "int":
            data = np.array([0 if mk else int(x) for x, mk in zip(cells, masks)], dtype=np.int64)
        else:
            data = np.array(["" if mk else x for x, mk in zip(cells, masks)], dtype=str)
        return pdbx.BinaryCIFColumn(data, np.array(masks, dtype=np.uint8) if any(masks) else None)
    sub = {"file": "block", "block": "category", "category": "column"}[level]
    kids = {k: build(v, sub, flavour) for k, v in m.items()}
    cls = {
        ("text", "file"): pdbx.CIFFile, ("text", "block"): pdbx.CIFBlock, ("text", "category"): pdbx.CIFCategory,
        ("bin", "file"): pdbx.BinaryCIFFile, ("bin", "block"): pdbx.BinaryCIFBlock,
        ("bin", "category"): pdbx.BinaryCIFCategory,
    }[(flavour, level)]
    return cls(kids) if kids else cls()


def wrong_value(level, flavour):
    """An object of the wrong container level (documented to be refused)."""
    if level == "file":
        return build(cat_model("k1", flavour), "category", flavour)
    return build(blk_model("b1", flavour), "block", flavour)


def embed(subject, level, flavour):
    import biotite.structure.io.pdbx as pdbx

    F, B = (pdbx.CIFFile, pdbx.CIFBlock) if flavour == "text" else (pdbx.BinaryCIFFile, pdbx.BinaryCIFBlock)
    if level == "file":
        return subject
    if level == "block":
        return F({"B": subject})
    return F({"B": B({"C": subject})})


def descend(root, level):
    if level == "file":
        return root
    if level == "block":
        return root["B"]
    return root["B"]["C"]


def write_read(root, flavour):
    import biotite.structure.io.pdbx as pdbx

    if flavour == "text":
        buf = io.StringIO()
        root.write(buf)
        return pdbx.CIFFile.read(io.StringIO(buf.getvalue()))
    buf = io.BytesIO()
    root.write(buf)
    return pdbx.BinaryCIFFile.read(io.BytesIO(buf.getvalue()))


class Impl:
    """The real subject container plus the root file it lives in."""

    def __init__(self, level, flavour, m0):
        self.level, self.flavour = level, flavour
        self.x = build(m0, level, flavour)
        self.root = embed(self.x, level, flavour)

    def reparse(self):
        new_root = write_read(self.root, self.flavour)
        self.root = new_root
        self.x = descend(new_root, self.level)


# ---- observing real objects -------------------------------------------------
def observe_col(col, flavour):
    arr = col.as_array(str)
    mk = col.mask
    masks = [PRESENT] * len(arr) if mk is None else [int(v) for v in mk.array]
    return ("col", tuple(str(v) for v in arr), tuple(masks))


def expect_col(m):
    cells = tuple(str(v) for v in m[2])
    masks = tuple(_MASK_OF.get(v, PRESENT) if isinstance(v, str) else PRESENT for v in m[2])
    return ("col", cells, masks)


def deep(x, level, flavour):
    """Complete content of a real container as nested lists (forces deserialisation)."""
    if level == "column":
        return observe_col(x, flavour)
    sub = {"file": "block", "block": "category", "category": "column"}[level]
    return [[k, deep(x[k], sub, flavour)] for k in list(x)]


def deep_expected(m, level):
    if level == "column":
        return expect_col(m)
    sub = {"file": "block", "block": "category", "category": "column"}[level]
    return [[k, deep_expected(v, sub)] for k, v in m.items()]


def lazy_sig(x, level, flavour):
    """Implementation-only state that can influence futures (read, never written)."""
    if level == "column":
        return "O"
    sub = {"file": "block", "block": "category", "category": "column"}[level]
    if flavour == "text":
        store = getattr(x, {"file": "_blocks", "block": "_categories", "category": "_columns"}[level], None)
    else:
        store = getattr(x, "_elements", None)
    if not isinstance(store, dict):
        return "?"
    out = []
    for k, v in store.items():
        if isinstance(v, (str, dict)):
            out.append("L")
        else:
            out.append(lazy_sig(v, sub, flavour))
    if level == "category":
        return ["cat", getattr(x, "_row_count", None), out]
    return out


def any_lazy(sig):
    if sig == "L":
        return True
    if isinstance(sig, list):
        return any(any_lazy(s) for s in sig)
    return False


def key_class(k, m):
    if k not in m:
        return "absent_key"
    return "present_key_leading_underscore" if k.startswith("_") else "present_key"


def keys_class(keys):
    return "key_leading_underscore" if any(str(k).startswith("_") for k in keys) else "plain_keys"


# ---- operations --------------------------------------------------------------
MUTATORS = {"set", "set_raw", "del", "pop", "popd", "setdefault", "update", "reparse", "set_wrong"}


def gen_ops(level, flavour):
    ops = []
    vn = value_names(level, flavour)
    for k in KEYS:
        for v in vn:
            ops.append(["set", k, v])
        ops += [["get", k], ["del", k], ["in", k], ["pop", k], ["popd", k], ["setdefault", k, vn[0]], ["getd", k]]
    for k in (ABSENT_KEY,):
        ops += [["get", k], ["del", k], ["in", k], ["pop", k], ["popd", k], ["getd", k]]
    ops += [["len"], ["iter"], ["keys"], ["items"], ["values"], ["eq_twin"], ["eq_pert"], ["eq_other"],
            ["serialize"], ["reparse"]]
    ops.append(["update", [["ab", vn[0]], ["a", vn[1]]]])
    ops.append(["update", [["_c", vn[1]]]])
    if level in ("file", "block"):
        ops.append(["set_wrong", "a"])
    if level == "category":
        ops.append(["set_raw", "ab"])
        # reading (Binary)CIFCategory.row_count caches the value in the object: the cached state it leaves behind
        # is part of the explored state; the value is demanded (documented: "the length of each column") only
        # while no column has been stored since the last write / read of the file
        ops.append(["row_count"])
    return ops


RAW_COLUMN = ["r1", "r2"]
_SENTINEL = "<default>"


class Refuse(Exception):
    """Model: the operation is documented to be rejected; names acceptable exception classes (None = any)."""

    def __init__(self, classes=None):
        super().__init__(classes)
        self.classes = classes


def apply_model(m, op, level, flavour, root_cats):
    """Returns (new model, expected result). Raises Refuse / KeyError for expected exceptions.
    expected result forms: ('elem', model value) | ('val', python value) | ('none',) | ('either_bool',)."""
    k = op[0]
    if k == "set":
        m2 = copy_model(m)
        m2[op[1]] = value_model(level, op[2], flavour)
        return m2, ("none",)
    if k == "set_raw":
        m2 = copy_model(m)
        m2[op[1]] = ("col", "str", tuple(RAW_COLUMN), "fresh")
        return m2, ("none",)
    if k == "set_wrong":
        raise Refuse(("TypeError",))
    if k in ("get",):
        if op[1] not in m:
            raise KeyError(op[1])
        return m, ("elem", m[op[1]])
    if k == "getd":
        return m, (("elem", m[op[1]]) if op[1] in m else ("val", None))
    if k == "in":
        return m, ("val", op[1] in m)
    if k in ("del", "pop", "popd"):
        if op[1] not in m:
            if k == "popd":
                return m, ("val", _SENTINEL)
            if level == "category" and flavour == "text" and len(m) == 1:
                raise Refuse(("KeyError", "ValueError"))
            raise KeyError(op[1])
        if level == "category" and flavour == "text" and len(m) == 1:
            raise Refuse(("ValueError",))  # documented: at least one column must remain
        m2 = copy_model(m)
        val = m2.pop(op[1])
        return m2, (("none",) if k == "del" else ("elem", val))
    if k == "setdefault":
        if op[1] in m:
            return m, ("elem", m[op[1]])
        m2 = copy_model(m)
        m2[op[1]] = value_model(level, op[2], flavour)
        return m2, ("elem", m2[op[1]])
    if k == "update":
        m2 = copy_model(m)
        for kk, vv in op[1]:
            m2[kk] = value_model(level, vv, flavour)
        return m2, ("none",)
    if k == "len":
        return m, ("val", len(m))
    if k in ("iter", "keys"):
        return m, ("val", list(m))
    if k == "items":
        return m, ("items", list(m.items()))
    if k == "values":
        return m, ("values", list(m.values()))
    if k == "eq_twin":
        return m, (("either_bool",) if (flavour == "bin" and has_parsed(m)) else ("val", True))
    if k == "eq_pert":
        return m, ("val", False)
    if k == "eq_other":
        return m, ("val", False)
    if k == "row_count":
        if not m:
            return m, ("any",)  # no column to count: an exception or any cached number (apply_impl reports "raised")
        lens = {col_rows(c) for c in m.values()}
        if len(lens) == 1 and all(c[3] == "parsed" for c in m.values()):
            return m, ("val", next(iter(lens)))
        return m, ("any",)
    if k in ("serialize", "reparse"):
        cats = all_categories(m, level)
        if not all(cat_serialisable(c) for c in cats):
            raise Refuse(None)
        # writing fills in parameters of the BinaryCIF encoding objects, which take part in column equality:
        # after either step the columns no longer count as freshly built
        return mark_parsed(m), (("none",) if k == "reparse" else ("any",))
    raise ValueError(op)


def perturbations(m, level, flavour):
    """Models that differ from m (for the inequality law)."""
    out = []
    if m:
        first = next(iter(m))
        p = copy_model(m)
        del p[first]
        out.append(p)
        vn = value_names(level, flavour)
        cur = strip_origin(m[first])
        for v in vn:
            alt = value_model(level, v, flavour)
            if strip_origin(alt) != cur:
                p = copy_model(m)
                p[first] = alt
                out.append(p)
                break
    p = copy_model(m)
    p[ABSENT_KEY] = value_model(level, value_names(level, flavour)[0], flavour)
    out.append(p)
    return out


def apply_impl(im, op, m):
    """Executes op on the real container. Returns the raw result."""
    x = im.x
    level, flavour = im.level, im.flavour
    sub = {"file": "block", "block": "category", "category": "column"}[level]
    k = op[0]
    if k == "set":
        x[op[1]] = build(value_model(level, op[2], flavour), sub, flavour)
        return None
    if k == "set_raw":
        x[op[1]] = list(RAW_COLUMN)
        return None
    if k == "set_wrong":
        x[op[1]] = wrong_value(level, flavour)
        return None
    if k == "get":
        return x[op[1]]
    if k == "getd":
        return x.get(op[1], None)
    if k == "in":
        return op[1] in x
    if k == "del":
        del x[op[1]]
        return None
    if k == "pop":
        return x.pop(op[1])
    if k == "popd":
        return x.pop(op[1], _SENTINEL)
    if k == "setdefault":
        return x.setdefault(op[1], build(value_model(level, op[2], flavour), sub, flavour))
    if k == "update":
        x.update({kk: build(value_model(level, vv, flavour), sub, flavour) for kk, vv in op[1]})
        return None
    if k == "len":
        return len(x)
    if k == "iter":
        return list(iter(x))
    if k == "keys":
        return list(x.keys())
    if k == "items":
        return list(x.items())
    if k == "values":
        return list(x.values())
    if k == "eq_twin":
        twin = build(m, level, flavour)
        a, b = (x == twin), (x != twin)
        if a == b:
            return "inconsistent == / !="
        return a
    if k == "eq_pert":
        res = []
        for p in perturbations(m, level, flavour):
            other = build(p, level, flavour)
            res.append(bool(x == other) or not bool(x != other) or bool(other == x))
        return any(res)
    if k == "eq_other":
        return bool(x == dict(m)) or bool(x == None) or not bool(x != 5)  # noqa: E711
    if k == "row_count":
        try:
            return x.row_count
        except Exception:  # noqa: BLE001
            if len(x) == 0:
                return "raised"  # unspecified for a category without columns
            raise
    if k == "serialize":
        return im.root.serialize()  # the documented entry point; a bare block / category needs a name first
    if k == "reparse":
        im.reparse()
        return None
    raise ValueError(op)


def result_ok(res, exp, level, flavour):
    """Compare the raw result with the model's expectation. Returns None or (expected, observed)."""
    sub = {"file": "block", "block": "category", "category": "column"}[level]
    kind = exp[0]
    if kind == "none":
        return None if res is None else ("None", repr(res)[:200])
    if kind == "any":
        return None
    if kind == "either_bool":
        return None if isinstance(res, (bool, np.bool_)) else ("a bool", repr(res)[:200])
    if kind == "val":
        want = exp[1]
        if isinstance(want, bool):
            good = isinstance(res, (bool, np.bool_)) and bool(res) == want
        else:
            good = type(res) is type(want) and res == want
        return None if good else (want, res if isinstance(res, (int, str, list, type(None))) else repr(res)[:200])
    if kind == "elem":
        if not _is_elem(res, sub, flavour):
            return ("a %s" % sub, type(res).__name__)
        want, got = deep_expected(exp[1], sub), deep(res, sub, flavour)
        return None if want == got else (want, got)
    if kind == "items":
        if not isinstance(res, list) or any(not (isinstance(t, tuple) and len(t) == 2) for t in res):
            return ("list of pairs", repr(res)[:200])
        want = [[k, deep_expected(v, sub)] for k, v in exp[1]]
        got = [[k, deep(v, sub, flavour) if _is_elem(v, sub, flavour) else type(v).__name__] for k, v in res]
        return None if want == got else (want, got)
    if kind == "values":
        want = [deep_expected(v, sub) for v in exp[1]]
        got = [deep(v, sub, flavour) if _is_elem(v, sub, flavour) else type(v).__name__ for v in res]
        return None if want == got else (want, got)
    raise ValueError(exp)


def _is_elem(obj, sub, flavour):
    import biotite.structure.io.pdbx as pdbx

    cls = {
        ("text", "block"): pdbx.CIFBlock, ("text", "category"): pdbx.CIFCategory, ("text", "column"): pdbx.CIFColumn,
        ("bin", "block"): pdbx.BinaryCIFBlock, ("bin", "category"): pdbx.BinaryCIFCategory,
        ("bin", "column"): pdbx.BinaryCIFColumn,
    }[(flavour, sub)]
    return isinstance(obj, cls)


def init_model(level, flavour, init):
    vn = value_names(level, flavour)
    return {k: value_model(level, vn[i], flavour) for k, i in INITS[init]}


def rebuild(level, flavour, init, hist):
    """Replay a history on a fresh real object; returns (Impl, model after the history)."""
    m = init_model(level, flavour, init)
    im = Impl(level, flavour, m)
    if init.endswith("_parsed"):
        im.reparse()
        m = mark_parsed(m)
    for op in hist:
        try:
            m2, _ = apply_model(m, op, level, flavour, None)
        except (Refuse, KeyError):
            m2 = m
        try:
            apply_impl(im, op, m)
        except Exception:  # noqa: BLE001
            pass
        m = m2
    return im, m


def state_views(im, m):
    """Non-destructive views: len, iteration order, containment. Returns list of (view, expected, observed)."""
    x = im.x
    bad = []
    try:
        n = len(x)
    except Exception as e:  # noqa: BLE001
        n = "raised " + type(e).__name__
    if n != len(m):
        bad.append(("len", len(m), n))
    try:
        ks = list(x)
    except Exception as e:  # noqa: BLE001
        ks = "raised " + type(e).__name__
    if ks != list(m):
        bad.append(("iter", list(m), ks))
    for k in KEYS + [ABSENT_KEY]:
        try:
            c = k in x
        except Exception as e:  # noqa: BLE001
            c = "raised " + type(e).__name__
        if c is not (k in m):
            bad.append(("contains", [k, k in m], [k, c]))
    return bad


def deep_views(im, m, level, flavour, hist, init, laws=True, content_new=True):
    """Destructive complete observation (forces deserialisation of everything). laws: also check the
    equality laws (a function of the canonical state, so the caller asks for them once per state).
    content_new: also check the laws that depend on the content only (once per distinct content)."""
    x = im.x
    bad = []
    want = deep_expected(m, level)
    try:
        got = deep(x, level, flavour)
    except Exception as e:  # noqa: BLE001
        got = "raised " + type(e).__name__
    if got != want:
        bad.append(("content", want, got))
        return bad
    if content_new:
        bad += content_laws(m, level, flavour)
        if bad:
            return bad
    if not laws:
        return bad
    # equality laws
    try:
        other, _ = rebuild(level, flavour, init, hist)
        if not (x == other.x) or (x != other.x) or not (other.x == x):
            bad.append(("eq_replay", True, False))
    except Exception as e:  # noqa: BLE001
        bad.append(("eq_replay", True, "raised " + type(e).__name__))
    try:
        for p in perturbations(m, level, flavour):
            o = build(p, level, flavour)
            if (x == o) or not (x != o) or (o == x):
                bad.append(("eq_perturbed", False, True))
                break
    except Exception as e:  # noqa: BLE001
        bad.append(("eq_perturbed", False, "raised " + type(e).__name__))
    return bad


def content_key(m):
    return json.dumps(model_key(strip_origin(m)), default=str)


# ---- equality laws that depend only on the content of a state ------------------
# `==` of two containers must be dict equality of their content, whatever the parse state of the two
# operands (still serialised / fully accessed) and whatever text (or key order) the operands were parsed from.
FOREIGN_VARIANTS = ["padding", "dquote", "comment", "one_row_loop", "blank_lines"]
PARSE_COMBOS = [("lazy", "lazy"), ("lazy", "accessed"), ("accessed", "lazy"), ("accessed", "accessed")]


def root_model(m, level):
    if level == "file":
        return m
    if level == "block":
        return {"B": m}
    return {"B": {"C": m}}


def reverse_model(m):
    """Same content, keys inserted in the opposite order at every level."""
    if is_col(m):
        return m
    return {k: reverse_model(m[k]) for k in reversed(list(m))}


def _tok(cell, quote_all):
    if cell in (".", "?"):
        return cell  # mask states are bare tokens
    t = str(cell)
    return '"' + t + '"' if (quote_all or " " in t or t == "") else t


def foreign_text(fm, variant):
    """A CIF text for the file model `fm` as another program / a person would lay it out (independent writer;
    the values of the container palette need no escaping beyond quoting a blank)."""
    sep = "     " if variant == "padding" else " "
    q = variant == "dquote"
    out = []
    for bname, blk in fm.items():
        out.append("data_" + bname)
        out.append("#")
        for cname, cat in blk.items():
            cols = list(cat.items())
            rows = col_rows(cols[0][1])
            if rows == 1 and variant != "one_row_loop":
                for k, col in cols:
                    out.append("_%s.%s%s  %s" % (cname, k, sep, _tok(col[2][0], q)))
            else:
                out.append("loop_")
                for k, _ in cols:
                    out.append("_%s.%s" % (cname, k))
                for i in range(rows):
                    out.append(sep.join(_tok(col[2][i], q) for _, col in cols) + (sep if variant == "padding" else ""))
            out.append("#")
            if variant == "comment":
                out.append("# written by hand")
                out.append("#")
            if variant == "blank_lines":
                out += ["", ""]
    return "\n".join(out) + "\n" + ("\n\n" if variant == "blank_lines" else "")


def serialized(m, level, flavour):
    root = embed(build(m, level, flavour), level, flavour)
    buf = io.StringIO() if flavour == "text" else io.BytesIO()
    root.write(buf)
    return buf.getvalue()


def parsed_operand(data, level, flavour, accessed):
    import biotite.structure.io.pdbx as pdbx

    if flavour == "text":
        root = pdbx.CIFFile.read(io.StringIO(data))
    else:
        root = pdbx.BinaryCIFFile.read(io.BytesIO(data))
    x = descend(root, level)
    if accessed:
        deep(x, level, flavour)  # touches every element down to the column arrays
    return x


def deep_sorted(d):
    if isinstance(d, list):
        return sorted(([k, deep_sorted(v)] for k, v in d), key=lambda kv: kv[0])
    return d


def content_laws(m, level, flavour):
    """Parse-state invariance and layout independence of `==` for the content m. Returns [(view, expected, observed)]."""
    if not all(cat_serialisable(c) for c in all_categories(m, level)):
        return []
    m = strip_origin_keep(m)
    bad = []
    try:
        base = serialized(m, level, flavour)
    except Exception as e:  # noqa: BLE001
        return [("eq_law.write", "success", "raised " + type(e).__name__)]
    want_content = deep_sorted(deep_expected(m, level))
    operands = [("same_text", base, True)]
    rev = reverse_model(m)
    if model_key(rev) != model_key(m):
        operands.append(("reversed_order", None, True))
    if flavour == "text":
        fm = root_model(m, level)
        one_row = any(col_rows(next(iter(c.values()))) == 1 for c in all_categories(m, level))
        for v in FOREIGN_VARIANTS:
            if v == "one_row_loop" and not one_row:
                continue
            operands.append(("foreign_" + v, foreign_text(fm, v), True))
    for p in perturbations(m, level, flavour)[:2]:  # first key removed; first value replaced by another one
        if all(cat_serialisable(c) for c in all_categories(p, level)):
            operands.append(("perturbed", p, False))
    trivial = flavour == "text" and level == "category"  # a CIFCategory has no lazy elements
    for name, data, want in operands:
        # all four parse-state combinations for operands written by biotite; for the hand-written layouts the
        # two combinations in which both operands are in the same parse state
        combos = PARSE_COMBOS[:1] if trivial else (
            [PARSE_COMBOS[0], PARSE_COMBOS[3]] if name.startswith("foreign_") else PARSE_COMBOS)
        try:
            if name == "reversed_order":
                data = serialized(rev, level, flavour)
            elif name == "perturbed":
                data = serialized(data, level, flavour)
            if want:
                # the operand must carry the intended content, otherwise the comparison says nothing
                got = deep_sorted(deep(parsed_operand(data, level, flavour, False), level, flavour))
                if got != want_content:
                    bad.append(("eq_law.%s.content" % name, want_content, got))
                    continue
            for cx, cy in combos:
                x = parsed_operand(base, level, flavour, cx == "accessed")
                y = parsed_operand(data, level, flavour, cy == "accessed")
                r1 = x == y
                r2 = y != x
                if not (isinstance(r1, (bool, np.bool_)) and bool(r1) is want and bool(r2) is (not want)):
                    bad.append(("eq_law.%s.%s_%s" % (name, cx, cy), [want, not want], [repr(r1), repr(r2)]))
        except Exception as e:  # noqa: BLE001
            bad.append(("eq_law.%s.raises_%s" % (name, type(e).__name__), "a comparison result", "raised " + type(e).__name__))
    return bad


def strip_origin_keep(m):
    """Content laws build both operands through write + read: the origin flag plays no role (all 'fresh')."""
    if is_col(m):
        return m[:3] + ("fresh",)
    return {k: strip_origin_keep(v) for k, v in m.items()}


def exc_mode(want, got):
    return "raises_%s_instead_of_%s" % (got, "|".join(want) if want else "error")


class _Everything:
    def __contains__(self, item):
        return True

    def add(self, item):
        pass


class _Collect:
    """ctx stand-in that collects violations instead of recording them."""

    def __init__(self, ctx):
        self._ctx = ctx
        self.v = []

    def violation(self, *a, **k):
        self.v.append((a, k))

    def __getattr__(self, name):
        return getattr(self._ctx, name)


def step(ctx, level, flavour, init, hist, m, op, rows_hist, base=None):
    """Execute hist+[op]; compare with the model. Returns (m2, canon) or None.
    base: a real object in state `hist` that is deep-copied instead of replaying the history (speed; every
    violation found that way is re-executed on an honest replay by the caller before it is reported)."""
    subj = "%s.%s" % (flavour, level)
    case = {"kind": "history", "flavour": flavour, "level": level, "init": init, "hist": hist + [op]}
    if base is not None:
        im = copy.deepcopy(base)
    else:
        im, _ = rebuild(level, flavour, init, hist)
    kcls = key_class(op[1], m) if len(op) > 1 and isinstance(op[1], str) else (
        keys_class([kk for kk, _ in op[1]]) if op[0] == "update" else keys_class(m))
    opname = "pop" if op[0] == "popd" else op[0]
    lazy_before = any_lazy(lazy_sig(im.x, level, flavour))
    ctx.transition()
    ctx.count("ops_on_lazy_container" if lazy_before else "ops_on_loaded_container")
    want_exc = None
    try:
        m2, exp = apply_model(m, op, level, flavour, None)
    except KeyError:
        m2, exp, want_exc = m, None, ("KeyError",)
    except Refuse as r:
        m2, exp, want_exc = m, None, r.classes or ()
    if op[0] == "row_count" and exp is not None and exp[0] == "val":
        # the documented value is demanded only directly after a successful write / read of the file; a count
        # cached earlier may be stale after columns were stored or deleted (unspecified, existing behaviour)
        fresh = (hist[-1][0] in ("reparse", "serialize")) if hist else init.endswith("_parsed")
        if not fresh:
            exp = ("any",)
    got_exc = None
    try:
        res = apply_impl(im, op, m)
    except Exception as e:  # noqa: BLE001
        res, got_exc = None, type(e).__name__
    ok = True
    if want_exc is not None:
        ctx.count("refused")
        if got_exc is None:
            ctx.violation("container|%s|%s|no_error|%s" % (subj, opname, kcls),
                          "operation documented to fail returned normally", case,
                          expected="raise " + ("|".join(want_exc) or "an exception"), observed=repr(res)[:200])
            ok = False
        elif want_exc and got_exc not in want_exc:
            ctx.violation("container|%s|%s|%s|%s" % (subj, opname, exc_mode(want_exc, got_exc), kcls),
                          "wrong exception class", case, expected="|".join(want_exc), observed=got_exc)
            ok = False
    else:
        ctx.count("accepted")
        if exp and exp[0] == "either_bool":
            ctx.count("unspecified")
        if got_exc is not None:
            extra = ""
            if op[0] in ("reparse", "serialize"):
                # history class: has this category ever held columns of more than one length?
                extra = "|column_length_varied" if len(rows_hist) > 1 else "|column_length_constant"
                if got_exc == "SerializationError":
                    opname = "write"  # the write half of the step failed (same call for both operations)
                    kcls = "rectangular_table"
            ctx.violation("container|%s|%s|raises_%s|%s%s" % (subj, opname, got_exc, kcls, extra),
                          "legal mapping operation raised %s" % got_exc, case, expected="success", observed=got_exc)
            ok = False
        else:
            try:
                diff = result_ok(res, exp, level, flavour)
            except Exception as e:  # noqa: BLE001
                diff = ("comparable result", "raised %s while reading the result" % type(e).__name__)
            if diff is not None:
                ctx.violation("container|%s|%s|wrong_result|%s" % (subj, opname, kcls),
                              "result of %s disagrees with the dict model" % op[0], case, expected=diff[0],
                              observed=diff[1])
                ok = False
    # state after the operation (also after a refused / failed one: must be unchanged = m2)
    canon = json.dumps([model_key(m2), lazy_sig(im.x, level, flavour)], default=str)
    if not ok:
        return None
    bad = state_views(im, m2)
    if not bad:
        new = canon not in ctx._law_checked
        ctx._law_checked.add(canon)
        seen = getattr(ctx, "_content_checked", None)
        ck = content_key(m2)
        cnew = seen is None or ck not in seen
        if seen is not None:
            seen.add(ck)
        if cnew:
            ctx.count("content_law_states")
        bad = deep_views(im, m2, level, flavour, hist + [op], init, laws=new, content_new=cnew)
    if bad:
        view, e, o = bad[0]
        ctx.violation("container|%s|state|%s|%s" % (subj, view, keys_class(m2)),
                      "view %s of the container disagrees with the dict model after %s" % (view, op[0]), case,
                      expected=e, observed=o)
        return None
    return m2, canon


def rows_of(m, level):
    """Column lengths present in a category state (history class for write failures)."""
    if level != "category":
        return frozenset()
    return frozenset(col_rows(c) for c in m.values())


def run_history(shard, ctx):
    level, flavour, init = shard["level"], shard["flavour"], shard["init"]
    depth = shard["depth"]
    res, nres = shard.get("res", 0), shard.get("nres", 1)
    m0 = init_model(level, flavour, init)
    if init.endswith("_parsed"):
        m0 = mark_parsed(m0)
    ops = gen_ops(level, flavour)
    ctx._law_checked = set()
    # the content-only laws are checked in the two deep shards of every subject (every content of the
    # 'one' / 'two' shards is reached from 'empty' with 1-2 more operations); None = always "seen"
    ctx._content_checked = {content_key(m0)} if init in ("empty", "two_parsed") else _Everything()
    # initial state: complete observation
    try:
        im0, _ = rebuild(level, flavour, init, [])
    except Exception as e:  # noqa: BLE001
        if res == 0:
            ctx.ev(1)
            ctx.violation("container|%s.%s|init|raises_%s|%s" % (flavour, level, type(e).__name__, keys_class(m0)),
                          "building the initial container (constructor%s) raised" % (
                              " + write + read" if init.endswith("_parsed") else ""),
                          {"kind": "history", "flavour": flavour, "level": level, "init": init, "hist": []},
                          expected="success", observed=type(e).__name__)
        return
    canon0 = json.dumps([model_key(m0), lazy_sig(im0.x, level, flavour)], default=str)
    ctx.state(canon0)
    bad = state_views(im0, m0) or deep_views(im0, m0, level, flavour, [], init)
    if res == 0:
        ctx.ev(1)
        if bad:
            ctx.violation("container|%s.%s|state|%s|%s" % (flavour, level, bad[0][0], keys_class(m0)),
                          "initial container disagrees with the dict model", {"kind": "history", "flavour": flavour,
                          "level": level, "init": init, "hist": []}, bad[0][1], bad[0][2])
    if bad:
        ctx.count("inconsistent_states_not_expanded")
        return  # a state whose views already disagree with the model is reported once and not expanded
    frontier = [([], m0, rows_of(m0, level))]
    for d in range(1, depth + 1):
        nxt = []
        for hist, m, rows_hist in frontier:
            pre = json.dumps({"k": "h", "flavour": flavour, "level": level, "init": init, "hist": hist})
            base, _ = rebuild(level, flavour, init, hist)
            for oi, op in enumerate(ops):
                if d == 1 and oi % nres != res:
                    continue
                if not ctx.journal(pre + "#" + json.dumps(op)):
                    continue
                col = _Collect(ctx)
                out = step(col, level, flavour, init, hist, m, op, rows_hist, base=base)
                if col.v:
                    # found on a deep copy of the replayed state: confirm on an honest replay of the history
                    from mc.ctx import Ctx

                    chk = _Collect(Ctx(ctx.prop_id, ctx.tier, ctx.seed))
                    chk._ctx._law_checked = set()
                    step(chk, level, flavour, init, hist, m, op, rows_hist)
                    if [a[0] for a, _ in chk.v] != [a[0] for a, _ in col.v]:
                        raise RuntimeError("deep-copied state and replayed history disagree for %r: %r vs %r" % (
                            hist + [op], [a[0] for a, _ in col.v], [a[0] for a, _ in chk.v]))
                    for a, kw in col.v:
                        ctx.violation(*a, **kw)
                h2 = hist + [op]
                nontriv = any(o[0] in MUTATORS for o in h2) or init.endswith("_parsed")
                ctx.ev(1, 1 if (out is not None and nontriv) else 0)
                ctx.trace()
                if out is None:
                    continue
                m2, canon = out
                ctx.outcome((op[0], canon))
                if ctx.state(canon):
                    if len(ctx.samples) < 2 and d >= 3 and any(o[0] == "reparse" for o in h2) and op[0] in MUTATORS:
                        ctx.sample({"kind": "history", "flavour": flavour, "level": level, "init": init, "hist": h2,
                                    "reached": model_key(strip_origin(m2))})
                    if d < depth:
                        nxt.append((h2, m2, rows_hist | rows_of(m2, level)))
        frontier = nxt


# ---------------------------------------------------------------------------
# shards / dispatch
# ---------------------------------------------------------------------------
def container_depth(tier, init):
    """depth 4 (quick) / 5 (thorough) from the empty and from the parsed container; the states of 'one' and 'two'
    are reached from 'empty' after 1 and 2 operations, so their own BFS stops one level earlier."""
    d = 4 if tier == "quick" else 5
    return d if init in ("empty", "two_parsed") else d - 1


def key_positions(tier):
    return KEY_POSITIONS if tier == "quick" else KEY_POSITIONS[:2]


def shards(tier, seed):
    q = tier == "quick"
    out = []
    # containers first (longest)
    for flavour in FLAVOURS:
        for level in LEVELS:
            for init in INITS:
                nres = 1  # one shard per (flavour, level, init): state deduplication is per shard
                for r in range(nres):
                    out.append({"kind": "history", "flavour": flavour, "level": level, "init": init,
                                "depth": container_depth(tier, init), "res": r, "nres": nres})
    # tables, deviation 1, all positions
    full = 3 if q else 4
    for (R, C) in LAYOUTS:
        pos = [[r, c] for r in range(R) for c in range(C)]
        parts = 1 if q else 4
        if q:
            out.append({"kind": "table", "R": R, "C": C, "positions": pos, "maxlen": full, "extras": True})
        else:
            for p in pos:
                for part in range(parts):
                    out.append({"kind": "table", "R": R, "C": C, "positions": [p], "maxlen": full, "part": part,
                                "parts": parts, "extras": part == 0})
    # longer values at the key positions
    for (R, C, r, c) in key_positions(tier):
        parts = 6 if q else 40
        for part in range(parts):
            out.append({"kind": "table", "R": R, "C": C, "positions": [[r, c]], "maxlen": full + 1, "minlen": full + 1,
                        "part": part, "parts": parts})
    # pairs
    for (R, C) in LAYOUTS:
        n = R * C
        if n < 2 or (q and n > 4) or n > 6:
            continue  # every relation between two cells (adjacent / distant in a row, same column, diagonal) occurs in <= 6 cells
        parts = max(1, (n * (n - 1) // 2) * (1 if q else 2))
        for part in range(parts):
            out.append({"kind": "pairs", "R": R, "C": C, "part": part, "parts": parts})
    # names
    if q:
        out.append({"kind": "names", "mode": "one"})
    else:
        out.append({"kind": "names", "mode": "one"})
        for bi in range(len(NAME_PALETTE)):
            out.append({"kind": "names", "mode": "all", "block": bi})
    for fam in DIM_FAMILIES:
        parts = {"many": 4, "reuse": 2}.get(fam, 1)
        for part in range(parts):
            out.append({"kind": "dim", "family": fam, "part": part, "parts": parts})
    heavy = [s for s in out if s["kind"] == "history"]
    rest = [s for s in out if s["kind"] != "history"]
    rot = seed % max(1, len(rest))
    rest = rest[rot:] + rest[:rot]
    # two small shards first so that the evidence samples show a table and a pair case next to the histories
    lead = [x for x in rest if x["kind"] == "table" and (x["R"], x["C"]) == (1, 2)][:1] + \
           [x for x in rest if x["kind"] == "pairs" and (x["R"], x["C"]) == (1, 2)][:1]
    return lead + heavy + [x for x in rest if x not in lead]


def run_shard(shard, ctx):
    k = shard["kind"]
    if k == "table":
        run_tables(shard, ctx)
    elif k == "pairs":
        run_pairs(shard, ctx)
    elif k == "names":
        run_names(shard, ctx)
    elif k == "history":
        run_history(shard, ctx)
    elif k == "dim":
        run_dim(shard, ctx)
    else:
        raise ValueError(shard)


def crash_class(case):
    if isinstance(case, str):
        if case.startswith("t|"):
            return "table"
        if case.startswith("d|"):
            try:
                return "dim|" + json.loads(case[2:]).get("family", "?")
            except ValueError:
                return "dim"
        if "#" in case:
            try:
                head = json.loads(case.split("#", 1)[0])
                op = json.loads(case.split("#", 1)[1])
                return "history|%s.%s|%s" % (head.get("flavour"), head.get("level"), op[0])
            except ValueError:
                return "unclassified"
    if isinstance(case, dict):
        return str(case.get("kind", "unclassified"))
    return "unclassified"


def replay(case, ctx):
    if isinstance(case, str) and case.startswith("d|"):
        case = dict(json.loads(case[2:]), kind="dim")
    if isinstance(case, str):
        if case.startswith("t|"):
            _, R, C, r, c, v = case.split("|", 5)
            case = {"kind": "table", "R": int(R), "C": int(C), "r": int(r), "c": int(c), "v": json.loads(v),
                    "letter": letter_of(ctx.seed), "role": "value", "explicit": False}
        elif "#" in case:
            a, b = case.split("#", 1)
            case = json.loads(a)
            case["hist"] = case["hist"] + [json.loads(b)]
            case["kind"] = "history"
    k = case["kind"]
    if k == "dim":
        check_dim(ctx, case)
        return
    if k == "table":
        check_single(ctx, case["R"], case["C"], case["r"], case["c"], case["v"], case["letter"],
                     role=case.get("role", "value"), explicit=case.get("explicit", False))
    elif k == "pair":
        check_pair(ctx, case["R"], case["C"], case["p1"], case["p2"], case["v1"], case["v2"], case["letter"])
    elif k == "names":
        t = tuple(case["t"])
        check_names(ctx, case["R"], case["C"], t, case["v"], case["letter"])
    elif k == "history":
        level, flavour, init, hist = case["level"], case["flavour"], case["init"], case["hist"]
        m = init_model(level, flavour, init)
        if init.endswith("_parsed"):
            m = mark_parsed(m)
        ctx._law_checked = set()
        try:
            im0, _ = rebuild(level, flavour, init, [])
        except Exception as e:  # noqa: BLE001
            ctx.violation("container|%s.%s|init|raises_%s|%s" % (flavour, level, type(e).__name__, keys_class(m)),
                          "building the initial container raised", case, expected="success",
                          observed=type(e).__name__)
            return
        if not hist:
            bad = state_views(im0, m) or deep_views(im0, m, level, flavour, [], init)
            if bad:
                ctx.violation("container|%s.%s|state|%s|%s" % (flavour, level, bad[0][0], keys_class(m)),
                              "initial container disagrees with the dict model", case, bad[0][1], bad[0][2])
            return
        rows_hist = rows_of(m, level)
        for i, op in enumerate(hist):
            out = step(ctx, level, flavour, init, hist[:i], m, op, rows_hist)
            if out is None:
                return
            m = out[0]
            rows_hist = rows_hist | rows_of(m, level)
    else:
        raise ValueError(case)


# ===========================================================================
# dimension families (audit follow-up): small complete enumerations of the dimensions the table and
# container parts do not vary - value / name width, item counts, array flavours of column data and masks,
# aliasing of inputs and outputs, reuse of one object for several writes.  Oracles: the round-trip identity
# of the statement, `==` with a freshly built object, "a call does not change its arguments".
# ===========================================================================
DIM_FAMILIES = ["wide", "many", "flavour", "alias", "reuse", "result", "combo", "derived", "sizes", "precedence"]
WIDE_LENGTHS = [1, 9, 10, 11, 63, 64, 65, 99, 100, 101, 255, 256, 257, 1000, 4096]
WIDE_TEMPLATES = ["plain", "space", "squote", "multiline", "hash"]
WIDE_POSITIONS = [(1, 1, 0, 0), (2, 2, 0, 0), (2, 2, 0, 1), (2, 2, 1, 1), (3, 3, 1, 1)]
WIDE_NAMES = [(1, 1), (30, 1), (100, 60)]  # (length of the first column name, length of the category name)
MANY_ROWS = [9, 10, 11, 99, 100, 101, 1000]
MANY_COLS = [9, 10, 11, 33, 100]
MANY_ELEMS = [9, 10, 11, 101]


def many_values(letter):
    return ["", letter + " " + letter, letter + "'" + letter, '"', letter + "\n" + letter, ".", "?", "#" + letter,
            "_" + letter, "'\"", letter + "' " + letter, "#" + letter + " " + letter]


def wide_value(tpl, L, letter):
    if tpl == "plain" or L < 3:
        return letter * L
    if tpl == "space":
        return letter * (L - 2) + " " + letter
    if tpl == "squote":
        return letter * (L - 1) + "'"
    if tpl == "multiline":
        return letter * (L // 2) + "\n" + letter * (L - L // 2 - 1)
    if tpl == "hash":
        return "#" + letter * (L - 1)
    raise ValueError(tpl)


def eval_custom(table, names, awkward, mask_cells=()):
    stage, payload = roundtrip(table, names, mask_cells)
    exp = expected_obs(table, names, set(mask_cells))
    return failure_mode(stage, payload, exp, set(awkward)), stage, payload, exp


def small_ok(v, letter):
    """Does v round-trip in the small layouts (deviation-1 cases of the table part)?"""
    mc = lambda p: ((p,) if v in (".", "?") else ())  # noqa: E731
    return (eval_table(1, 1, letter, {(0, 0): v}, mask_cells=mc((0, 0)))[0] is None
            and eval_table(2, 2, letter, {(1, 0): v}, mask_cells=mc((1, 0)))[0] is None
            and eval_table(2, 2, letter, {(0, 1): v}, mask_cells=mc((0, 1)))[0] is None)


def fm_col(cells):
    return ("col", "str", tuple(cells), "fresh")


def model_roundtrip(fm, flavour):
    """Write the file model through the public API, read it again, compare everything. Returns mode or None."""
    try:
        root = build(fm, "file", flavour)
        data = serialized_root(root, flavour)
    except Exception as e:  # noqa: BLE001
        return "serialize_error", type(e).__name__
    try:
        got = deep(parsed_operand(data, "file", flavour, False), "file", flavour)
    except Exception as e:  # noqa: BLE001
        return "parse_error", type(e).__name__
    want = deep_expected(fm, "file")
    if got != want:
        return "content_changed", _first_diff(want, got)
    return None, None


def serialized_root(root, flavour):
    buf = io.StringIO() if flavour == "text" else io.BytesIO()
    root.write(buf)
    return buf.getvalue()


def _first_diff(want, got, path=""):
    """Short description of the first difference between two deep() results (for reports only)."""
    def is_map(x):
        return isinstance(x, list) and all(isinstance(kv, list) and len(kv) == 2 and isinstance(kv[0], str) for kv in x)

    if want == got:
        return None
    if is_map(want) and is_map(got) and want and got:
        wk, gk = [kv[0] for kv in want], [kv[0] for kv in got]
        if wk != gk:
            return "%s keys %r != %r" % (path, wk[:12], gk[:12])
        for (k, w), (_, g) in zip(want, got):
            d = _first_diff(w, g, path + "/" + k)
            if d:
                return d
    if isinstance(want, (list, tuple)) and isinstance(got, (list, tuple)) and len(want) == len(got):
        for n, (w, g) in enumerate(zip(want, got)):
            if w != g:
                return "%s[%d] %r != %r" % (path, n, str(w)[:100], str(g)[:100])
    return "%s %r != %r" % (path, str(want)[:120], str(got)[:120])


# ---- case generators ---------------------------------------------------------
def dim_cases(family, tier, letter):
    q = tier == "quick"
    if family == "wide":
        for L in WIDE_LENGTHS:
            for tpl in WIDE_TEMPLATES:
                if tpl != "plain" and L < 3:
                    continue
                for pos in WIDE_POSITIONS:
                    for nm in WIDE_NAMES:
                        yield {"family": "wide", "L": L, "tpl": tpl, "pos": list(pos), "names": list(nm)}
    elif family == "many":
        vals = many_values(letter)
        for R in MANY_ROWS:
            for C in (1, 2, 3):
                for vi in range(len(vals)):
                    if R == 1000 and (vi not in (1, 4) or C == 3):
                        continue
                    for r in sorted({0, R // 2, R - 1}):
                        for c in sorted({0, C - 1}):
                            yield {"family": "many", "sub": "rows", "R": R, "C": C, "vi": vi, "r": r, "c": c}
        for R in (10, 100):
            for C in (1, 2):
                for vi in range(len(vals)):
                    yield {"family": "many", "sub": "uniform", "R": R, "C": C, "vi": vi}
        for C in MANY_COLS:
            for R in (1, 2):
                for vi in range(len(vals)):
                    for c in sorted({0, 9 if C > 9 else 1, C - 1}):
                        yield {"family": "many", "sub": "cols", "R": R, "C": C, "vi": vi, "r": R - 1, "c": c}
        for flavour in FLAVOURS:
            for sub in ("categories", "blocks"):
                for N in MANY_ELEMS:
                    for vi in (1, 2, 4, 5):
                        for j in sorted({0, N - 1}):
                            yield {"family": "many", "sub": sub, "flavour": flavour, "N": N, "vi": vi, "j": j}
            for R in (9, 10, 11, 99, 100, 101):
                yield {"family": "many", "sub": "bin_rows" if flavour == "bin" else "model_rows", "flavour": flavour, "R": R}
    elif family == "flavour":
        for n in (1, 3):
            for d in DATA_FLAVOURS:
                if DATA_FLAVOURS[d][0] == "single" and n != 1:
                    continue
                for mk in MASK_FLAVOURS:
                    if mk == "scalar" and n != 1:
                        continue
                    for route in ("column", "category_ctor", "setitem"):
                        if route != "column" and mk != "none":
                            continue
                        yield {"family": "flavour", "fl": "text", "n": n, "data": d, "mask": mk, "route": route}
            for d in BIN_DATA_FLAVOURS:
                for mk in BIN_MASK_FLAVOURS:
                    yield {"family": "flavour", "fl": "bin", "n": n, "data": d, "mask": mk, "route": "column"}
    elif family == "alias":
        for fl in FLAVOURS:
            for kind in ALIAS_INPUTS[fl]:
                for n in (1, 2):
                    yield {"family": "alias", "sub": "input", "fl": fl, "input": kind, "n": n}
            for sc in TWO_PARENT_SCENARIOS:
                for via in ("ctor", "setitem"):
                    yield {"family": "alias", "sub": "two_parents", "fl": fl, "scenario": sc, "via": via}
    elif family == "reuse":
        reps = representatives(letter)
        for vi in range(len(reps)):
            for sc in REUSE_SCENARIOS:
                for lay in ((1, 1), (2, 2)):
                    yield {"family": "reuse", "scenario": sc, "vi": vi, "lay": list(lay)}
        for sc in REFUSED_SCENARIOS:
            for lay in ((1, 1), (2, 2)):
                yield {"family": "reuse", "scenario": sc, "vi": -1, "lay": list(lay)}
    elif family == "result":
        for fl in FLAVOURS:
            for sc in RESULT_SCENARIOS:
                for content in ("b1", "b2"):
                    yield {"family": "result", "fl": fl, "scenario": sc, "content": content}
    elif family == "combo":
        for v in RESERVED_COMBOS:
            for (R, C, r, c) in KEY_POSITIONS + [(2, 2, 1, 1), (3, 3, 1, 0)]:
                yield {"family": "combo", "sub": "reserved_special", "v": v, "pos": [R, C, r, c]}
        reps = representatives(letter)
        for vi in range(len(reps)):
            for tok in (".", "?"):
                for (R, C, p1, p2) in COMBO_MASK_POSITIONS:
                    yield {"family": "combo", "sub": "value_and_mask", "vi": vi, "tok": tok, "lay": [R, C], "p1": list(p1),
                           "p2": list(p2)}
        for ni, _ in enumerate(NAME_COMBOS):
            for lvl in range(3):
                for (R, C) in NAME_LAYOUTS:
                    for vi in range(len(NAME_VALUES)):
                        yield {"family": "combo", "sub": "names", "ni": ni, "lvl": lvl, "lay": [R, C], "vi": vi}
    elif family == "derived":
        for fl in FLAVOURS:
            for src in DERIVED_SOURCES[fl]:
                for sink in DERIVED_SINKS:
                    yield {"family": "derived", "fl": fl, "source": src, "sink": sink}
    elif family == "sizes":
        for fl in FLAVOURS:
            for level in LEVELS:
                n = len(size_ladder(level, fl))
                for i in range(n):
                    for j in range(n):
                        for cx, cy in PARSE_COMBOS:
                            yield {"family": "sizes", "sub": "eq", "fl": fl, "level": level, "i": i, "j": j, "x": cx, "y": cy}
                        for ystate in ("built", "lazy"):
                            yield {"family": "sizes", "sub": "update", "fl": fl, "level": level, "i": i, "j": j, "y": ystate}
    elif family == "precedence":
        for c in PRECEDENCE_CASES:
            yield dict(c, family="precedence")
    else:
        raise ValueError(family)
    _ = q


# ---- flavours -------------------------------------------------------------------
def _base_strings(letter, n):
    return [letter + "1", letter + " " + letter, letter][:n]


_BASE_INTS = [7, 10, 3]

# name: (arity, expectation) ; expectation: "str" (the base strings) | "int" (str of the base ints) | "either" | "refuse"
DATA_FLAVOURS = {
    "list": ("any", "str"), "tuple": ("any", "str"), "ndarray_U": ("any", "str"), "ndarray_U_wide": ("any", "str"),
    "ndarray_noncontiguous": ("any", "str"), "ndarray_readonly": ("any", "str"), "list_of_np_str": ("any", "str"),
    "cifdata_list": ("any", "str"), "cifdata_ndarray": ("any", "str"),
    "ndarray_object": ("any", "refuse"), "ndarray_bytes": ("any", "either"),
    "ints_list": ("any", "int"), "ints_int64": ("any", "int"), "ints_int32": ("any", "int"), "ints_uint8": ("any", "int"),
    # a CIFData that holds numbers is outside "tables of string values" (see notes: single-row write fails)
    "cifdata_ints": ("any", "either_int"), "floats_list": ("any", "either"), "cifdata_floats": ("any", "either"),
    "bools_list": ("any", "either"), "empty_list": ("any", "refuse"), "empty_ndarray": ("any", "refuse"),
    "scalar_str": ("single", "str"), "scalar_np_str": ("single", "str"), "scalar_int": ("single", "int"),
    "zero_d_ndarray": ("single", "either"),
}
MASK_FLAVOURS = ["none", "list_int", "list_enum", "tuple", "ndarray_uint8", "ndarray_int64", "ndarray_noncontiguous",
                 "ndarray_readonly", "cifdata", "scalar", "all_present_list", "wrong_length", "wrong_length_short"]
BIN_DATA_FLAVOURS = {
    "list": "str", "ndarray_U": "str", "ints_int64": "int",  # the flavours the container part uses: ACCEPT
    "tuple": "either", "ndarray_noncontiguous": "either", "ndarray_readonly": "either", "ndarray_object": "refuse",
    "ints_list": "either_int", "ints_int32": "either_int", "ints_uint8": "either_int", "ints_int16": "either_int",
    "ints_uint16": "either_int", "ints_noncontiguous": "either_int", "ints_readonly": "either_int",
    "floats_float64": "either_float", "floats_float32": "either_float",
}
BIN_MASK_FLAVOURS = ["none", "list_int", "list_enum", "ndarray_uint8", "ndarray_int64", "ndarray_noncontiguous",
                     "ndarray_readonly"]
_MASK_VALUES = [PRESENT, INAPPLICABLE, MISSING]


def make_data(name, n, letter, binary=False):
    import biotite.structure.io.pdbx as pdbx

    B = _base_strings(letter, n)
    I = _BASE_INTS[:n]  # noqa: E741
    F = [1.5, 2.0, 3.25][:n]
    if name == "list":
        return list(B)
    if name == "tuple":
        return tuple(B)
    if name == "ndarray_U":
        return np.array(B)
    if name == "ndarray_U_wide":
        return np.array(B, dtype="U16")
    if name == "ndarray_noncontiguous":
        big = np.array([x for b in B for x in (b, "skip")])
        return big[::2]
    if name == "ndarray_readonly":
        a = np.array(B)
        a.flags.writeable = False
        return a
    if name == "list_of_np_str":
        return [np.str_(b) for b in B]
    if name == "cifdata_list":
        return pdbx.CIFData(list(B))
    if name == "cifdata_ndarray":
        return pdbx.CIFData(np.array(B))
    if name == "ndarray_object":
        return np.array(B, dtype=object)
    if name == "ndarray_bytes":
        return np.array([b.encode() for b in B])
    if name == "ints_list":
        return list(I)
    if name in ("ints_int64", "ints_int32", "ints_uint8", "ints_int16", "ints_uint16"):
        return np.array(I, dtype=name.split("_")[1])
    if name == "ints_noncontiguous":
        return np.array([x for i in I for x in (i, 0)], dtype=np.int64)[::2]
    if name == "ints_readonly":
        a = np.array(I, dtype=np.int64)
        a.flags.writeable = False
        return a
    if name == "cifdata_ints":
        return pdbx.CIFData(np.array(I))
    if name == "floats_list":
        return list(F)
    if name == "cifdata_floats":
        return pdbx.CIFData(np.array(F))
    if name in ("floats_float64", "floats_float32"):
        return np.array(F, dtype=name.split("_")[1])
    if name == "bools_list":
        return [True, False, True][:n]
    if name == "empty_list":
        return []
    if name == "empty_ndarray":
        return np.array([], dtype=str)
    if name == "scalar_str":
        return B[0]
    if name == "scalar_np_str":
        return np.str_(B[0])
    if name == "scalar_int":
        return I[0]
    if name == "zero_d_ndarray":
        return np.array(B[0])
    raise ValueError(name)


def make_mask(name, n):
    import biotite.structure.io.pdbx as pdbx

    M = _MASK_VALUES[:n] if n > 1 else [MISSING]
    if name == "none":
        return None, [PRESENT] * n
    if name == "list_int":
        return list(M), M
    if name == "list_enum":
        return [pdbx.MaskValue(x) for x in M], M
    if name == "tuple":
        return tuple(M), M
    if name == "ndarray_uint8":
        return np.array(M, dtype=np.uint8), M
    if name == "ndarray_int64":
        return np.array(M, dtype=np.int64), M
    if name == "ndarray_noncontiguous":
        return np.array([x for m in M for x in (m, 0)], dtype=np.uint8)[::2], M
    if name == "ndarray_readonly":
        a = np.array(M, dtype=np.uint8)
        a.flags.writeable = False
        return a, M
    if name == "cifdata":
        return pdbx.CIFData(np.array(M, dtype=np.uint8)), M
    if name == "scalar":
        return pdbx.MaskValue.MISSING, [MISSING]
    if name == "all_present_list":
        return [PRESENT] * n, [PRESENT] * n
    if name == "wrong_length_short":
        return [PRESENT] * (n - 1) if n > 1 else [PRESENT, PRESENT, PRESENT], None
    if name == "wrong_length":
        return [PRESENT] * (n + 1), None
    raise ValueError(name)


def check_flavour(ctx, case, letter):
    import biotite.structure.io.pdbx as pdbx

    fl, n, dname, mname, route = case["fl"], case["n"], case["data"], case["mask"], case["route"]
    binary = fl == "bin"
    kind = (BIN_DATA_FLAVOURS[dname] if binary else DATA_FLAVOURS[dname][1])
    mask, M = make_mask(mname, n)
    data = make_data(dname, n, letter, binary)
    refuse = kind == "refuse" or M is None
    if M is None:
        M = [PRESENT] * n
    either = kind.startswith("either")
    base = {"str": _base_strings(letter, n), "int": [str(i) for i in _BASE_INTS[:n]], "either_int": [str(i) for i in _BASE_INTS[:n]],
            "either_float": None}.get(kind, _base_strings(letter, n) if kind in ("either", "refuse") else None)
    if kind == "either" and dname in ("floats_list", "cifdata_floats", "bools_list"):
        base = None
    want_cells = None if base is None else [("." if m == INAPPLICABLE else "?" if m == MISSING else b) for b, m in zip(base, M)]
    sigtail = "%s|data:%s|mask:%s|%s" % (fl, dname, mname, route)
    Col, Cat, Blk, Fil = ((pdbx.BinaryCIFColumn, pdbx.BinaryCIFCategory, pdbx.BinaryCIFBlock, pdbx.BinaryCIFFile) if binary
                          else (pdbx.CIFColumn, pdbx.CIFCategory, pdbx.CIFBlock, pdbx.CIFFile))
    ctx.ev(1, 1)
    try:
        if route == "column":
            col = Col(data, mask) if mask is not None else Col(data)
            cat = Cat({"k": col})
        elif route == "category_ctor":
            cat = Cat({"k": data})
        else:
            cat = Cat({"j": [letter] * n})
            cat["k"] = data
            del cat["j"]
        col = cat["k"]
        pre = ([str(x) for x in col.as_array(str)],
               [PRESENT] * len(col) if col.mask is None else [int(x) for x in col.mask.array], len(col))
        root = Fil({"b": Blk({"c": cat})})
        payload = serialized_root(root, fl)
        back = parsed_operand(payload, "file", fl, False)
        c2 = back["b"]["c"]["k"]
        post = ([str(x) for x in c2.as_array(str)],
                [PRESENT] * len(c2) if c2.mask is None else [int(x) for x in c2.mask.array], len(c2))
        exc = None
    except Exception as e:  # noqa: BLE001
        exc = type(e).__name__
    if refuse:
        ctx.count("refused")
        if exc is None:
            ctx.violation("flavour|no_error|" + sigtail, "input documented to be refused was accepted", case,
                          expected="an exception", observed=post)
        return
    if exc is not None:
        if either:
            ctx.count("unspecified")
            ctx.outcome(("flavour", sigtail, exc))
            return
        ctx.violation("flavour|raises_%s|%s" % (exc, sigtail), "accepted array flavour raised", case,
                      expected=want_cells, observed=exc)
        return
    ctx.outcome(("flavour", sigtail, tuple(post[0])))
    if want_cells is None:
        # unspecified text representation (floats, bools): only stability through the file is demanded
        ctx.count("unspecified")
        if fl == "text" and pre != post:
            ctx.violation("flavour|unstable|" + sigtail, "column changes between construction and the parsed file", case,
                          expected=pre, observed=post)
        return
    ctx.count("unspecified" if either else "accepted")
    want = (want_cells, list(M), n)
    for stage, got in (("constructed", pre), ("parsed", post)):
        if got != want:
            ctx.violation("flavour|%s_differs|%s" % (stage, sigtail),
                          "column built from this array flavour differs from the strings that went in (%s)" % stage, case,
                          expected=want, observed=got)
            return


# ---- aliasing -----------------------------------------------------------------------
ALIAS_INPUTS = {
    "text": ["data_list", "data_ndarray", "cifdata_ndarray_masked", "mask_list", "mask_ndarray", "columns_dict",
             "categories_dict", "blocks_dict", "as_array_output", "as_array_output_masked"],
    "bin": ["data_list", "data_ndarray", "data_ints", "bindata_ndarray_masked", "mask_ndarray", "columns_dict",
            "categories_dict", "blocks_dict", "as_array_output", "as_array_output_masked"],
}
TWO_PARENT_SCENARIOS = ["category_twice_in_block", "block_twice_in_file", "category_in_two_blocks",
                        "column_twice_in_category", "column_in_two_categories"]


def _snap(x):
    if isinstance(x, np.ndarray):
        return ("nd", x.dtype.str, x.tolist())
    if isinstance(x, dict):
        return ("dict", [(k, id(v)) for k, v in x.items()])
    return ("seq", type(x).__name__, list(x))


def check_alias(ctx, case, letter):
    import biotite.structure.io.pdbx as pdbx

    fl = case["fl"]
    binary = fl == "bin"
    Data, Col, Cat, Blk, Fil = ((pdbx.BinaryCIFData, pdbx.BinaryCIFColumn, pdbx.BinaryCIFCategory, pdbx.BinaryCIFBlock,
                                 pdbx.BinaryCIFFile) if binary else
                                (pdbx.CIFData, pdbx.CIFColumn, pdbx.CIFCategory, pdbx.CIFBlock, pdbx.CIFFile))
    ctx.ev(1, 1)
    if case["sub"] == "two_parents":
        return check_two_parents(ctx, case, letter, (Col, Cat, Blk, Fil))
    kind, n = case["input"], case["n"]
    B = [letter + "1", letter + " " + letter][:n]
    Mk = [MISSING, INAPPLICABLE][:n]

    def new_col(data, mask=None):
        return Col(data, mask) if mask is not None else Col(data)

    def use(root, col):
        """every read access the property speaks of; returns an observation"""
        o = [[str(x) for x in col.as_array(str)], None if col.mask is None else [int(x) for x in col.mask.array]]
        col.as_array()
        if n == 1:
            col.as_item()
        payload = serialized_root(root, fl)
        back = parsed_operand(payload, "file", fl, True)
        o.append(deep(back, "file", fl))
        return o

    sig = "alias|%s|" % fl + kind
    try:
        twin = None
        if kind in ("data_list", "data_ndarray", "data_ints"):
            inp = list(B) if kind == "data_list" else (np.array(B) if kind == "data_ndarray" else np.array([5, 6][:n]))
            mk = lambda: new_col(inp)  # noqa: E731
        elif kind in ("cifdata_ndarray_masked", "bindata_ndarray_masked"):
            inp = np.array(B)
            mk = lambda: new_col(Data(inp), np.array(Mk, dtype=np.uint8))  # noqa: E731
        elif kind == "mask_list":
            inp = list(Mk)
            mk = lambda: new_col(list(B), inp)  # noqa: E731
        elif kind == "mask_ndarray":
            inp = np.array(Mk, dtype=np.uint8)
            mk = lambda: new_col(np.array(B), inp)  # noqa: E731
        elif kind in ("as_array_output", "as_array_output_masked"):
            inp = None
            mk = lambda: new_col(np.array(B), np.array(Mk, dtype=np.uint8) if kind.endswith("masked") else None)  # noqa: E731
        else:
            inp = None
            mk = lambda: new_col(list(B))  # noqa: E731
        col = mk()
        twin = mk()
        cols = {"k": col}
        cat = Cat(cols)
        cats = {"c": cat}
        blk = Blk(cats)
        blks = {"b": blk}
        root = Fil(blks)
        if kind == "columns_dict":
            inp = cols
        elif kind == "categories_dict":
            inp = cats
        elif kind == "blocks_dict":
            inp = blks
        snap = _snap(inp) if inp is not None else None
        eq_before = bool(col == twin)
        first = use(root, col)
        second = use(root, col)
        eq_after = bool(col == twin)
    except Exception as e:  # noqa: BLE001
        ctx.violation(sig + "|raises_" + type(e).__name__, "aliasing scenario raised", case, "success", type(e).__name__)
        return
    ctx.outcome(("alias", fl, kind, n, str(first)[:200]))
    if snap is not None and _snap(inp) != snap:
        ctx.violation(sig + "|argument_modified", "reading / writing a container modified the object it was built from", case,
                      expected=snap, observed=_snap(inp))
        return
    if first != second:
        ctx.violation(sig + "|observation_changes_state", "a second read/write of the same container gives another result",
                      case, expected=first, observed=second)
        return
    if not binary and eq_before != eq_after:
        # (BinaryCIF: writing fills in encoding parameters that take part in ==: EITHER, see ASSUMPTIONS)
        ctx.violation(sig + "|observation_changes_equality", "reading / writing a column changed its == with an identically "
                      "built column", case, expected=eq_before, observed=eq_after)
        return
    ctx.count("accepted")
    # sharing with the argument / with returned arrays: the statement is silent -> recorded, never a violation
    try:
        shared = None
        if kind in ("data_list", "mask_list"):
            inp[0] = "ZZ" if kind == "data_list" else PRESENT
            shared = use(root, col) != first
        elif kind in ("data_ndarray", "cifdata_ndarray_masked", "bindata_ndarray_masked", "mask_ndarray", "data_ints"):
            inp[0] = ("Z" if inp.dtype.kind == "U" else 0)
            shared = use(root, col) != first
        elif kind in ("columns_dict", "categories_dict", "blocks_dict"):
            inp["extra"] = next(iter(inp.values()))
            shared = len({"columns_dict": cat, "categories_dict": blk, "blocks_dict": root}[kind]) == 2
        elif kind.startswith("as_array_output"):
            out = col.as_array(str)
            if out.flags.writeable:
                out[0] = "Z"
                shared = use(root, col) != first
            else:
                shared = False
        if shared is not None:
            ctx.count("unspecified")
            ctx.count("alias_%s:%s.%s" % ("shared" if shared else "independent", fl, kind))
    except Exception as e:  # noqa: BLE001
        ctx.count("unspecified")
        ctx.count("alias_raises_%s:%s.%s" % (type(e).__name__, fl, kind))


def check_two_parents(ctx, case, letter, classes):
    Col, Cat, Blk, Fil = classes
    fl, sc, via = case["fl"], case["scenario"], case["via"]
    cells = [letter + "1", letter + " " + letter]
    cm = fm_col(cells)

    def put(cls, items):
        if via == "ctor":
            return cls(dict(items))
        x = cls()
        for k, v in items:
            x[k] = v
        return x

    try:
        col = Col(list(cells)) if fl == "text" else Col(np.array(cells))
        if sc == "column_twice_in_category":
            root = Fil({"B": Blk({"C": put(Cat, [("p", col), ("pq", col)])})})
            fm = {"B": {"C": {"p": cm, "pq": cm}}}
        elif sc == "column_in_two_categories":
            root = Fil({"B": put(Blk, [("s", Cat({"p": col})), ("s_t", Cat({"q": col}))])})
            fm = {"B": {"s": {"p": cm}, "s_t": {"q": cm}}}
        elif sc == "category_twice_in_block":
            cat = Cat({"p": col})
            root = Fil({"B": put(Blk, [("a", cat), ("ab", cat)])})
            fm = {"B": {"a": {"p": cm}, "ab": {"p": cm}}}
        elif sc == "category_in_two_blocks":
            cat = Cat({"p": col})
            root = put(Fil, [("a", put(Blk, [("s", cat)])), ("ab", put(Blk, [("t", cat)]))])
            fm = {"a": {"s": {"p": cm}}, "ab": {"t": {"p": cm}}}
        elif sc == "block_twice_in_file":
            blk = Blk({"s": Cat({"p": col})})
            root = put(Fil, [("a", blk), ("ab", blk)])
            fm = {"a": {"s": {"p": cm}}, "ab": {"s": {"p": cm}}}
        else:
            raise ValueError(sc)
        want = deep_expected(fm, "file")
        results = []
        for _ in range(2):  # the second write must not be affected by names left behind by the first
            payload = serialized_root(root, fl)
            results.append(deep(parsed_operand(payload, "file", fl, False), "file", fl))
        live = deep(root, "file", fl)
    except Exception as e:  # noqa: BLE001
        ctx.violation("alias|%s|two_parents|%s|%s|raises_%s" % (fl, sc, via, type(e).__name__),
                      "one object stored under two keys / in two parents: raised", case, "success", type(e).__name__)
        return
    ctx.outcome(("two_parents", fl, sc, via, str(results[0])[:100]))
    for label, got in (("first_write", results[0]), ("second_write", results[1]), ("live", live)):
        if got != want:
            ctx.violation("alias|%s|two_parents|%s|%s|%s" % (fl, sc, via, label),
                          "one object stored under two keys / in two parents is not written like two equal objects", case,
                          expected=want, observed=got)
            return
    ctx.count("accepted")


# ---- reuse ----------------------------------------------------------------------------
REUSE_SCENARIOS = ["replace_column_wider", "add_long_named_column", "delete_column", "rows_1_to_2_to_1",
                   "rows_grow", "rows_grow_read_count", "rows_grow_shrink", "rows_shrink_from_4",
                   "replace_category", "rename_block", "lazy_touch_none", "lazy_touch_first", "lazy_touch_second",
                   "lazy_modify_second", "lazy_modify_first"]
REFUSED_SCENARIOS = ["refused_write_then_repair", "refused_setter_then_write", "refused_delete_then_write"]
LONG_NAME = "k_long_column_name"


def check_reuse(ctx, case, letter):
    """One file object is written, modified through the mapping interface and written again; the result must be the
    table that a freshly built file holds (content of the parsed text, and == with the fresh file)."""
    import biotite.structure.io.pdbx as pdbx

    sc = case["scenario"]
    R, C = case["lay"]
    reps = representatives(letter)
    v = reps[case["vi"]] if case["vi"] >= 0 else letter + "\n;" + letter
    cls = sigclass(v) if case["vi"] >= 0 else "refused_value"
    ctx.ev(1, 1)

    def column(j, awkward=None):
        cells = [filler(letter, i, j) for i in range(R)]
        if awkward is not None:
            cells[R - 1] = awkward
        return cells

    good = {"k%d" % j: column(j) for j in range(C)}
    first = dict(good)
    first["k0"] = column(0, v)
    wide = [letter * 12 + str(i) for i in range(R)]
    try:
        steps = []  # for the report
        if sc.startswith("lazy_"):
            fm1 = {"blk": {"A": {k: fm_col(c) for k, c in first.items()}, "B": {k: fm_col(c) for k, c in good.items()}}}
            text = build(fm1, "file", "text").serialize()
            f = pdbx.CIFFile.deserialize(text)
            fm2 = {"blk": {"A": dict(fm1["blk"]["A"]), "B": dict(fm1["blk"]["B"])}}
            if sc == "lazy_touch_first":
                f["blk"]["A"]
            elif sc == "lazy_touch_second":
                f["blk"]["B"]
            elif sc == "lazy_modify_second":
                f["blk"]["B"][LONG_NAME] = list(wide)
                fm2["blk"]["B"][LONG_NAME] = fm_col(wide)
            elif sc == "lazy_modify_first":
                f["blk"]["A"][LONG_NAME] = list(wide)
                fm2["blk"]["A"][LONG_NAME] = fm_col(wide)
            elif sc == "lazy_touch_none":
                f["blk"]
        else:
            cat = pdbx.CIFCategory({k: list(c) for k, c in first.items()})
            blk = pdbx.CIFBlock({"cat": cat})
            f = pdbx.CIFFile({"blk": blk})
            fm2 = {"blk": {"cat": {k: fm_col(c) for k, c in first.items()}}}
            if sc in REFUSED_SCENARIOS:
                if sc == "refused_write_then_repair":
                    try:
                        f.serialize()
                        ctx.count("unspecified_exact_or_written")
                    except Exception:  # noqa: BLE001
                        ctx.count("unspecified_refused")
                    cat["k0"] = list(good["k0"])
                    fm2["blk"]["cat"]["k0"] = fm_col(good["k0"])
                else:
                    cat["k0"] = list(good["k0"])
                    fm2["blk"]["cat"]["k0"] = fm_col(good["k0"])
                    f.serialize()
                    try:
                        if sc == "refused_setter_then_write":
                            f["blk"]["x"] = blk  # wrong container type
                        else:
                            while True:
                                del cat[next(iter(cat))]  # the last column cannot be deleted
                        raise RuntimeError("refusal expected")
                    except (TypeError, ValueError):
                        ctx.count("refused")
                    fm2["blk"]["cat"] = {k: fm_col(c) for k, c in good.items() if k in list(cat)}
            else:
                f.serialize()
                if sc == "replace_column_wider":
                    cat["k0"] = list(wide)
                    fm2["blk"]["cat"]["k0"] = fm_col(wide)
                elif sc == "add_long_named_column":
                    cat[LONG_NAME] = list(wide)
                    fm2["blk"]["cat"][LONG_NAME] = fm_col(wide)
                elif sc == "delete_column":
                    cat["z"] = list(wide)
                    f.serialize()
                    del cat["z"]
                elif sc == "rows_1_to_2_to_1":
                    for k in list(cat):
                        cat[k] = [letter, letter + "2"] if R == 1 else [letter]
                    f.serialize()
                    for k in list(cat):
                        cat[k] = list(first[k])
                elif sc in ("rows_grow", "rows_grow_read_count", "rows_grow_shrink", "rows_shrink_from_4"):
                    # another number of rows on the same code path (a looped table stays looped for R >= 2)
                    if sc != "rows_grow":
                        cat.row_count
                    n2 = R + 2 if sc == "rows_shrink_from_4" else R + 1
                    bigger = {k: [letter + "%d" % i for i in range(n2 - len(c))] + list(c) for k, c in first.items()}
                    for k in list(cat):
                        cat[k] = list(bigger[k])
                    fm2["blk"]["cat"] = {k: fm_col(c) for k, c in bigger.items()}
                    if sc in ("rows_grow_shrink", "rows_shrink_from_4"):
                        if sc == "rows_grow_shrink":
                            cat.row_count
                        mid = pdbx.CIFFile.deserialize(f.serialize())
                        if deep(mid, "file", "text") != deep_expected(fm2, "file"):
                            raise AssertionError("intermediate write differs")
                        for k in list(cat):
                            cat[k] = list(first[k])
                        fm2["blk"]["cat"] = {k: fm_col(c) for k, c in first.items()}
                elif sc == "replace_category":
                    blk["cat"] = pdbx.CIFCategory({"k0": list(first["k0"]) + [letter]})
                    fm2["blk"]["cat"] = {"k0": fm_col(list(first["k0"]) + [letter])}
                elif sc == "rename_block":
                    f["blk2"] = f.pop("blk")
                    fm2 = {"blk2": fm2["blk"]}
        text2 = f.serialize()
        got = deep(pdbx.CIFFile.deserialize(text2), "file", "text")
        want = deep_expected(fm2, "file")
        fresh = build(fm2, "file", "text")
        eq = bool(f == fresh) and not bool(f != fresh)
    except Exception as e:  # noqa: BLE001
        got, want, eq = "raised " + type(e).__name__, None, None
    ctx.outcome(("reuse", sc, cls, str(got)[:120]))
    if got == want and eq:
        ctx.count("accepted")
        return
    if case["vi"] >= 0 and not small_ok(v, letter):
        ctx.count("reuse_explained_by_single_cell")
        return
    mode = "raises" if want is None else ("content_changed" if got != want else "unequal_to_fresh_file")
    ctx.violation("reuse|%s|%s|%s" % (sc, mode if want is not None else got.replace(" ", "_"), cls),
                  "a file object that is written, modified and written again differs from a freshly built file", case,
                  expected=want, observed=got if got != want else "== fresh file is False")


# ---- wide / many -------------------------------------------------------------------------
def check_wide(ctx, case, letter):
    L, tpl = case["L"], case["tpl"]
    R, C, r, c = case["pos"]
    ncol, ncat = case["names"]
    v = wide_value(tpl, L, letter)
    cols = list(DEFAULT_NAMES[2])
    cols[0] = "k" * ncol
    names = (DEFAULT_NAMES[0], "c" * ncat, tuple(cols))
    mode, stage, payload, exp = eval_table(R, C, letter, {(r, c): v}, names=names)
    ctx.ev(1, 1)
    ctx.outcome(("wide", L, tpl, mode))
    if mode is None:
        ctx.count("accepted_exact")
        return
    ctx.violation("wide|%s|%s|%s|L%d|names_%d_%d" % (layout_of(R, c), mode, tpl, L, ncol, ncat),
                  "a %d-character value (%s) does not survive the text round trip" % (L, tpl), case,
                  expected="identity", observed=str(_obs_short(stage, payload))[:300])


def check_many(ctx, case, letter):
    sub = case["sub"]
    vals = many_values(letter)
    ctx.ev(1, 1)
    if sub in ("rows", "uniform", "cols"):
        R, C, v = case["R"], case["C"], vals[case["vi"]]
        table = [["%s%d_%d" % (letter, i, j) for j in range(C)] for i in range(R)]
        if sub == "uniform":
            awkward = {(i, j) for i in range(R) for j in range(C)}
        else:
            awkward = {(case["r"], case["c"])}
        for (i, j) in awkward:
            table[i][j] = v
        names = (DEFAULT_NAMES[0], DEFAULT_NAMES[1], tuple("k%d" % j for j in range(C)))
        mode, stage, payload, exp = eval_custom(table, names, awkward, awkward if v in (".", "?") else ())
        count = R if sub != "cols" else C
        detail = str(_obs_short(stage, payload))[:300] if stage != "obs" else _first_diff(
            [[k, x] for k, x in zip(exp["cols"], exp["cells"])], [[k, x] for k, x in zip(payload.get("cols", []), payload.get("cells", []))])
    else:
        flavour = case["flavour"]
        if sub in ("categories", "blocks"):
            N, v, j = case["N"], vals[case["vi"]], case["j"]
            if flavour == "bin" and v in (".", "?"):
                v = letter
            def cat(i):
                rows = 1 + i % 2
                cells = ["%s%d_%d" % (letter, i, x) for x in range(rows)]
                if i == j:
                    cells[-1] = v
                return {"k": fm_col(cells), "k%d" % i: fm_col(cells[::-1])}
            if sub == "categories":
                fm = {"blk": {"c%d" % i: cat(i) for i in range(N)}}
            else:
                fm = {"b%d" % i: {"c": cat(i), "c%d" % i: cat(i + 1)} for i in range(N)}
            count = N
        else:
            R = case["R"]
            v = letter + " " + letter
            cells = ["%s%d" % (letter, i) for i in range(R)]
            cells[R - 1] = v
            ints = ("col", "int", tuple(range(R - 1)) + ("?",), "fresh") if flavour == "bin" else fm_col([str(i) for i in range(R)])
            fm = {"blk": {"c": {"k": fm_col(cells), "n": ints}}}
            count = R
        mode, detail = model_roundtrip(fm, flavour)
        sub = sub + "." + flavour
    ctx.outcome(("many", sub, count, mode))
    if mode is None:
        ctx.count("accepted_exact")
        return
    if not small_ok(v, letter):
        ctx.count("many_explained_by_single_cell")
        return
    ctx.violation("many|%s|%s|n%d|%s" % (sub, mode, count, sigclass(v)),
                  "a table / file with %d items does not survive the round trip" % count, case, expected="identity",
                  observed=detail)


def check_dim(ctx, case, letter=None):
    letter = letter or case.get("letter") or letter_of(ctx.seed)
    case = dict(case, kind="dim", letter=letter)
    fam = case["family"]
    {"wide": check_wide, "many": check_many, "flavour": check_flavour, "alias": check_alias, "reuse": check_reuse,
     "result": check_result, "combo": check_combo, "derived": check_derived, "sizes": check_sizes,
     "precedence": check_precedence}[fam](ctx, case, letter)


def run_dim(shard, ctx):
    letter = letter_of(ctx.seed)
    part, parts = shard.get("part", 0), shard.get("parts", 1)
    for i, case in enumerate(dim_cases(shard["family"], ctx.tier, letter)):
        if i % parts != part:
            continue
        if not ctx.journal("d|" + json.dumps(case)):
            continue
        check_dim(ctx, case, letter)
        if len(ctx.samples) < 1 and i == 7:
            ctx.sample(dict(case, kind="dim"))


# ---- second audit: result identity (A), two features in one value (C), derived inputs (E) --------------
RESULT_SCENARIOS = ["copy", "deserialize_same_input_twice", "component_deserialize", "serialize_result_edited",
                    "pop_result_edited", "items_dict_edited"]
# (R, C, position of the awkward value, position of the mask token): same column, same row, diagonal, both orders
COMBO_MASK_POSITIONS = [(1, 2, (0, 0), (0, 1)), (1, 2, (0, 1), (0, 0)), (2, 1, (0, 0), (1, 0)), (2, 1, (1, 0), (0, 0)),
                        (2, 2, (0, 0), (1, 0)), (2, 2, (1, 0), (0, 0)), (2, 2, (0, 1), (1, 1)), (2, 2, (1, 0), (1, 1)),
                        (2, 2, (0, 1), (1, 0))]
DERIVED_SOURCES = {
    "text": ["parsed_element", "parsed_element_lazy_parent", "popped_element", "items_dict", "column_as_array",
             "column_data_mask_objects", "column_data_object_only", "column_from_other_flavour", "component_roundtrip"],
    "bin": ["parsed_element", "parsed_element_lazy_parent", "popped_element", "items_dict", "column_as_array",
            "column_data_mask_objects", "column_from_other_flavour", "serialized_dict"],
}
DERIVED_SINKS = ["ctor", "setitem", "update", "setdefault"]


def _classes(fl):
    import biotite.structure.io.pdbx as pdbx

    if fl == "text":
        return pdbx.CIFData, pdbx.CIFColumn, pdbx.CIFCategory, pdbx.CIFBlock, pdbx.CIFFile
    return pdbx.BinaryCIFData, pdbx.BinaryCIFColumn, pdbx.BinaryCIFCategory, pdbx.BinaryCIFBlock, pdbx.BinaryCIFFile


def check_result(ctx, case, letter):
    """An operation that yields a new object must not hand out (a part of) its operand: after re-binding edits of the
    result the operand still equals its model. Equality of the result with the operand is only counted."""
    import msgpack

    fl, sc = case["fl"], case["scenario"]
    Data, Col, Cat, Blk, Fil = _classes(fl)
    fm = {"a": blk_model(case["content"], fl), "ab": blk_model("b1", fl)}
    want = deep_expected(fm, "file")
    ctx.ev(1, 1)
    sig = "result|%s|%s|" % (fl, sc)

    def edit(g):
        """re-binding edits at every level of a file-like result"""
        for k in list(g)[:1]:
            b = g[k]
            for ck in list(b)[:1]:
                c = b[ck]
                c["extra"] = build(col_model("c1" if col_rows(next(iter(fm[k][ck].values()))) == 2 else "c3", fl), "column", fl)
                del c[next(iter(c))]
            b["extra"] = build(cat_model("k1", fl), "category", fl)
            del b[next(iter(b))]
        g["extra"] = build(blk_model("b1", fl), "block", fl)
        del g[next(iter(g))]

    try:
        f = build(fm, "file", fl)
        operand = f
        if sc == "copy":
            g = f.copy()
            ctx.count("result_copy_%s" % ("equal" if deep(g, "file", fl) == want else "differs_from_original"))
            edit(g)
        elif sc == "deserialize_same_input_twice":
            if fl == "text":
                inp = f.serialize()
                g1, g2 = Fil.deserialize(inp), Fil.deserialize(inp)
            else:
                inp = msgpack.unpackb(serialized_root(f, fl), use_list=True, raw=False)
                g1, g2 = Fil.deserialize(inp), Fil.deserialize(inp)
            edit(g1)
            operand = g2
        elif sc == "component_deserialize":
            f.serialize()  # a text block needs its name before it can be serialised on its own (documented)
            b = f["a"]
            ser = b.serialize()
            g = Blk.deserialize(ser)
            for ck in list(g)[:1]:
                del g[ck]
            g["extra"] = build(cat_model("k1", fl), "category", fl)
        elif sc == "serialize_result_edited":
            r = f.serialize()
            if isinstance(r, dict):
                r["dataBlocks"].append({"header": "extra", "categories": []})
                r["extra"] = 1
                f2 = parsed_operand(serialized_root(f, fl), "file", fl, False)  # lazily held dicts are handed out again
                r2 = f2.serialize()
                r2["dataBlocks"][0]["categories"] = []
                r2["dataBlocks"].pop()
                if deep(f2, "file", fl) != want:
                    ctx.count("unspecified")
                    ctx.count("result_shared:bin.serialize_dict_of_lazy_element")
        elif sc == "pop_result_edited":
            p = f.pop("ab")
            p["extra"] = build(cat_model("k1", fl), "category", fl)
            f["ab"] = build(blk_model("b1", fl), "block", fl)
        elif sc == "items_dict_edited":
            d = dict(f.items())
            d["extra"] = 1
            del d["a"]
            d2 = dict(f["a"].items())
            d2.clear()
        got = deep(operand, "file", fl)
        got2 = deep(parsed_operand(serialized_root(operand, fl), "file", fl, False), "file", fl)
    except Exception as e:  # noqa: BLE001
        ctx.violation(sig + "raises_" + type(e).__name__, "result-identity scenario raised", case, "success", type(e).__name__)
        return
    ctx.outcome(("result", fl, sc, case["content"]))
    for label, g_ in (("operand_changed", got), ("operand_written_changed", got2)):
        if g_ != want:
            ctx.violation(sig + label, "editing the result of an operation that yields a new object changed the operand", case,
                          expected=want, observed=_first_diff(want, g_))
            return
    ctx.count("accepted")


def check_combo(ctx, case, letter):
    sub = case["sub"]
    ctx.ev(1, 1)
    if sub == "reserved_special":
        R, C, r, c = case["pos"]
        v = case["v"]
        mode, stage, payload, exp = eval_table(R, C, letter, {(r, c): v})
        cls, lay = sigclass(v), layout_of(R, c)
        explained = False
    elif sub == "value_and_mask":
        R, C = case["lay"]
        p1, p2 = tuple(case["p1"]), tuple(case["p2"])
        v = representatives(letter)[case["vi"]]
        mode, stage, payload, exp = eval_table(R, C, letter, {p1: v, p2: case["tok"]}, mask_cells=(p2,))
        cls = sigclass(v) + "+mask" + ("_inapplicable" if case["tok"] == "." else "_missing")
        lay = pair_relation(R, p1, p2)
        explained = mode is not None and eval_table(R, C, letter, {p1: v})[0] is not None
    else:
        R, C = case["lay"]
        v = _name_values(letter)[case["vi"]]
        nm = NAME_COMBOS[case["ni"]]
        names = [DEFAULT_NAMES[0], DEFAULT_NAMES[1], list(DEFAULT_NAMES[2])]
        if case["lvl"] == 2:
            names[2][0] = nm
        else:
            names[case["lvl"]] = nm
        pos = (R - 1, 0)
        mk = (pos,) if v in (".", "?") else ()
        mode, stage, payload, exp = eval_table(R, C, letter, {pos: v}, names=(names[0], names[1], tuple(names[2])), mask_cells=mk)
        cls = "%s:name%d" % (("block", "category", "column")[case["lvl"]], case["ni"])
        lay = layout_of(R, 0)
        explained = mode is not None and eval_table(R, C, letter, {pos: v}, mask_cells=mk)[0] is not None
    ctx.outcome(("combo", sub, cls, mode))
    if mode is None:
        ctx.count("accepted_exact")
        return
    if explained:
        ctx.count("combo_explained_by_single_feature")
        return
    if cls in EITHER_CLASSES and mode == "serialize_error":
        ctx.count("unspecified_refused")
        return
    ctx.violation("combo|%s|%s|%s|%s" % (sub, lay, mode, cls), "value / name with two awkward features does not survive the "
                  "text round trip", case, expected=_obs_short("obs", exp), observed=_obs_short(stage, payload))


def check_derived(ctx, case, letter):
    """Objects handed out by the library (parsed, popped, listed, converted) are stored into another container through
    every storing operation; the target must be written like a container built from the model, the source stays intact."""
    fl, src, sink = case["fl"], case["source"], case["sink"]
    other = "bin" if fl == "text" else "text"
    Data, Col, Cat, Blk, Fil = _classes(fl)
    ctx.ev(1, 1)
    cm_masked = col_model("c2", fl)      # ("1", ".")
    cm_plain = col_model("c1", fl)       # ("x", "y z")
    src_fm = {"S": {"s": {"p": cm_masked, "q": cm_plain}, "s_t": {"p": cm_plain}}}
    sig = "derived|%s|%s|%s|" % (fl, src, sink)
    try:
        source = parsed_operand(serialized_root(build(src_fm, "file", fl), fl), "file", fl, False)
        level = "category"      # level of the object that is derived
        if src == "parsed_element":
            source["S"]["s"]["p"]
            obj, om = source["S"]["s"], src_fm["S"]["s"]
        elif src == "parsed_element_lazy_parent":
            obj, om = source["S"], src_fm["S"]
            level = "block"
        elif src == "popped_element":
            obj, om = source["S"].pop("s_t"), src_fm["S"]["s_t"]
            src_fm = {"S": {"s": src_fm["S"]["s"]}}
        elif src == "items_dict":
            obj, om = Cat(dict(source["S"]["s"].items())), src_fm["S"]["s"]
        elif src == "column_as_array":
            c = source["S"]["s"]["p"]
            arr = c.as_array(str)
            obj = Col(arr) if fl == "text" else Col(arr, c.mask.array)
            om = cm_masked if fl == "text" else ("col", "str", cm_masked[2], "fresh")
            level = "column"
        elif src == "column_data_mask_objects":
            c = source["S"]["s"]["p"]
            obj, om, level = Col(c.data, c.mask), cm_masked, "column"
        elif src == "column_data_object_only":
            # the data object of a parsed masked column holds the '.' / '?' tokens: the mask is inferred again
            obj, om, level = Col(source["S"]["s"]["p"].data), cm_masked, "column"
        elif src == "column_from_other_flavour":
            oc = parsed_operand(serialized_root(build({"S": {"s": {"p": col_model("c2", other)}}}, "file", other), other),
                                "file", other, False)["S"]["s"]["p"]
            obj = Col(oc.as_array(str)) if fl == "text" else Col(oc.as_array(str), oc.mask.array)
            om, level = cm_masked, "column"
        elif src == "component_roundtrip":
            obj, om = Cat.deserialize(source["S"]["s"].serialize()), src_fm["S"]["s"]
        elif src == "serialized_dict":
            obj, om = source["S"]["s"].serialize(), src_fm["S"]["s"]
        else:
            raise ValueError(src)
        # the target: a container one level above the derived object, inside a complete file
        key = "t" if level != "block" else "T"
        Parent = {"column": Cat, "category": Blk, "block": Fil}[level]
        if sink == "ctor":
            if isinstance(obj, dict) and not isinstance(obj, Cat):
                parent = Parent()
                parent[key] = obj      # the constructors take objects; a serialised dict goes through __setitem__
            else:
                parent = Parent({key: obj})
        else:
            parent = Parent()
            if sink == "setitem":
                parent[key] = obj
            elif sink == "update":
                parent.update({key: obj})
            else:
                parent.setdefault(key, obj)
        if level == "column":
            root, tfm = Fil({"T": Blk({"c": parent})}), {"T": {"c": {key: om}}}
        elif level == "category":
            root, tfm = Fil({"T": parent}), {"T": {key: om}}
        else:
            root, tfm = parent, {key: om}
        got = deep(parsed_operand(serialized_root(root, fl), "file", fl, False), "file", fl)
        live = deep(root, "file", fl)
        src_got = deep(parsed_operand(serialized_root(source, fl), "file", fl, False), "file", fl)
    except Exception as e:  # noqa: BLE001
        ctx.violation(sig + "raises_" + type(e).__name__, "storing a derived object raised", case, "success", type(e).__name__)
        return
    ctx.outcome(("derived", fl, src, sink))
    want = deep_expected(tfm, "file")
    for label, g_, w_ in (("target_written", got, want), ("target_live", live, want),
                          ("source_written", src_got, deep_expected(src_fm, "file"))):
        if g_ != w_:
            ctx.violation(sig + label, "a container holding an object handed out by the library differs from the model", case,
                          expected=w_, observed=_first_diff(w_, g_))
            return
    ctx.count("accepted")


# ---- third audit: operands of different size in both directions (F), a value given in two places (H) ---------
def size_ladder(level, flavour):
    """Contents of growing size; the columns are prefixes of one another, so that a comparison or an assignment
    which only looks at the part both operands have cannot tell them apart."""
    r1 = ("col", "str", ("x",), "fresh")
    r2 = ("col", "str", ("x", "y z"), "fresh")
    r3 = ("col", "str", ("x", "y z", "?"), "fresh")
    cats = [{"p": r1}, {"p": r2}, {"p": r2, "pq": r2}, {"p": r3}, {"p": r3, "pq": r3, "q": r3}]
    if level == "category":
        return cats
    blocks = [{}, {"s": cats[1]}, {"s": cats[1], "s_t": cats[0]}, {"s": cats[1], "s_t": cats[0], "u": cats[3]},
              {"s": cats[3]}]
    if level == "block":
        return blocks
    return [{}, {"a": blocks[1]}, {"a": blocks[1], "ab": blocks[2]}, {"a": blocks[1], "ab": blocks[2], "_c": blocks[0]},
            {"a": blocks[3]}]


def check_sizes(ctx, case, letter):
    fl, level = case["fl"], case["level"]
    lad = size_ladder(level, fl)
    mi, mj = lad[case["i"]], lad[case["j"]]
    ctx.ev(1, 1)
    rel = "same" if case["i"] == case["j"] else ("second_larger" if case["j"] > case["i"] else "second_smaller")
    try:
        if case["sub"] == "eq":
            x = parsed_operand(serialized(mi, level, fl), level, fl, case["x"] == "accessed")
            y = parsed_operand(serialized(mj, level, fl), level, fl, case["y"] == "accessed")
            want = case["i"] == case["j"]
            r1, r2, r3 = x == y, y == x, x != y
            ctx.outcome(("sizes", fl, level, case["i"], case["j"], bool(r1)))
            if not (bool(r1) is want and bool(r2) is want and bool(r3) is (not want)):
                ctx.violation("sizes|%s.%s|eq|%s|%s_%s" % (fl, level, rel, case["x"], case["y"]),
                              "== / != of two containers of different size disagrees with dict equality", case,
                              expected=[want, want, not want], observed=[repr(r1), repr(r2), repr(r3)])
                return
            ctx.count("accepted")
            return
        # x.update(y): y may be larger than x and hold keys x lacks
        x = build(mi, level, fl)
        root = embed(x, level, fl)
        y = build(mj, level, fl) if case["y"] == "built" else parsed_operand(serialized(mj, level, fl), level, fl, False)
        x.update(y)
        model = dict(mi)
        model.update(mj)
        want = deep_expected(model, level)
        got = deep(x, level, fl)
        ygot = deep(y, level, fl)
        written = None
        if all(cat_serialisable(c) for c in all_categories(model, level)):
            written = deep(descend(parsed_operand(serialized_root(root, fl), "file", fl, False), level), level, fl)
    except Exception as e:  # noqa: BLE001
        ctx.violation("sizes|%s.%s|%s|%s|raises_%s" % (fl, level, case["sub"], rel, type(e).__name__),
                      "operation on two containers of different size raised", case, "success", type(e).__name__)
        return
    ctx.outcome(("sizes", "update", fl, level, case["i"], case["j"]))
    for label, g_, w_ in (("target", got, want), ("argument_changed", ygot, deep_expected(mj, level)), ("target_written", written, want)):
        if g_ is not None and g_ != w_:
            ctx.violation("sizes|%s.%s|update|%s|%s" % (fl, level, rel, label),
                          "x.update(y) with a second container of another size differs from dict.update", case,
                          expected=w_, observed=_first_diff(w_, g_))
            return
    ctx.count("accepted")


def _precedence_cases():
    out = []
    for lvl in ("category", "block"):
        for via in ("ctor", "setitem"):
            out.append({"sub": "name_vs_key", "level": lvl, "via": via})
    out.append({"sub": "name_only"})
    for fl in FLAVOURS:
        for data, mk in (("x", MISSING), (".", MISSING), ("?", INAPPLICABLE), ("x", INAPPLICABLE), (".", PRESENT), ("?", PRESENT),
                         (".", INAPPLICABLE), ("?", MISSING)):
            for n in (1, 2):
                out.append({"sub": "mask_vs_token", "fl": fl, "data": data, "mask": mk, "n": n})
        for dtype in ("str", "int"):
            for mv in ("default", "given"):
                out.append({"sub": "masked_value", "fl": fl, "dtype": dtype, "masked_value": mv})
    for rc in ("none", "equal", "smaller", "larger"):
        for rows in (1, 2, 3):
            out.append({"sub": "row_count_argument", "row_count": rc, "rows": rows})
    return out


PRECEDENCE_CASES = _precedence_cases()


def check_precedence(ctx, case, letter):
    """A value that can be given in two places: both present and different, next to only one present.
    Oracle: the documented precedence; undocumented combinations are counted as unspecified."""
    import biotite.structure.io.pdbx as pdbx

    sub = case["sub"]
    ctx.ev(1, 1)
    sig = "precedence|" + sub + "|"
    try:
        if sub == "name_vs_key":
            # documented: the name is "automatically set when the category / block is added" to its parent
            lvl, via = case["level"], case["via"]
            cat = pdbx.CIFCategory({"k": [letter, letter + " " + letter]}, name="other_cat" if lvl == "category" else None)
            if lvl == "category":
                blk = pdbx.CIFBlock({"key_cat": cat}) if via == "ctor" else pdbx.CIFBlock()
                if via == "setitem":
                    blk["key_cat"] = cat
                f = pdbx.CIFFile({"B": blk})
                fm = {"B": {"key_cat": {"k": fm_col([letter, letter + " " + letter])}}}
            else:
                blk = pdbx.CIFBlock({"c": cat}, name="other_blk")
                f = pdbx.CIFFile({"key_blk": blk}) if via == "ctor" else pdbx.CIFFile()
                if via == "setitem":
                    f["key_blk"] = blk
                fm = {"key_blk": {"c": {"k": fm_col([letter, letter + " " + letter])}}}
            got = [deep(pdbx.CIFFile.deserialize(f.serialize()), "file", "text") for _ in range(2)]
            want = [deep_expected(fm, "file")] * 2
            tail = "%s|%s" % (lvl, via)
        elif sub == "name_only":
            cat = pdbx.CIFCategory({"k": [letter, "."]}, name="given_name")
            back = pdbx.CIFCategory.deserialize(cat.serialize())
            got, want = [back.name, deep(back, "category", "text")], ["given_name", deep_expected({"k": fm_col([letter, "."])}, "category")]
            tail = "category_serialize"
        elif sub == "mask_vs_token":
            fl, data, mk, n = case["fl"], case["data"], case["mask"], case["n"]
            Data, Col, Cat, Blk, Fil = _classes(fl)
            cells = [data] + [letter] * (n - 1)
            masks = [mk] + [PRESENT] * (n - 1)
            col = Col(cells if fl == "text" else np.array(cells), np.array(masks, dtype=np.uint8))
            tok = {PRESENT: data, INAPPLICABLE: ".", MISSING: "?"}[mk]
            want = [([tok] + [letter] * (n - 1), masks)] * 2
            live = observe_col(col, fl)
            f = Fil({"B": Blk({"c": Cat({"k": col})})})
            back = parsed_operand(serialized_root(f, fl), "file", fl, False)["B"]["c"]["k"]
            parsed = observe_col(back, fl)
            got = [(list(live[1]), list(live[2])), (list(parsed[1]), list(parsed[2]))]
            tail = "%s|data_%s|mask_%d" % (fl, {".": "dot", "?": "qmark"}.get(data, "plain"), mk)
            if fl == "text" and mk == PRESENT and data in (".", "?"):
                # a present '.' / '?' string cannot be told from the mask state in a bare CIF token: unspecified
                ctx.count("unspecified")
                ctx.count("precedence_present_token_%s" % ("kept" if got == want else "becomes_mask"))
                return
        elif sub == "masked_value":
            fl, dtype, mv = case["fl"], case["dtype"], case["masked_value"]
            Data, Col, Cat, Blk, Fil = _classes(fl)
            raw = ["5", "6", "7"]
            masks = [PRESENT, INAPPLICABLE, MISSING]
            data = raw if fl == "text" else (np.array(raw) if dtype == "str" else np.array([5, 6, 7]))
            col = Col(data, np.array(masks, dtype=np.uint8))
            f = Fil({"B": Blk({"c": Cat({"k": col})})})
            back = parsed_operand(serialized_root(f, fl), "file", fl, False)["B"]["c"]["k"]
            got, want = [], []
            for c in (col, back):
                if dtype == "str":
                    a = c.as_array(str, masked_value="N") if mv == "given" else c.as_array(str)
                    got.append([str(v) for v in a])
                    want.append(["5", "N", "N"] if mv == "given" else ["5", ".", "?"])
                else:
                    a = c.as_array(int, masked_value=-1) if mv == "given" else c.as_array(int)
                    got.append([int(v) for v in a] if mv == "given" else [int(a[0]), len(a)])
                    want.append([5, -1, -1] if mv == "given" else [5, 3])  # default for numbers: only present cells demanded
            tail = "%s|%s|%s" % (fl, dtype, mv)
        elif sub == "row_count_argument":
            rows = case["rows"]
            rc = {"none": None, "equal": rows, "smaller": rows - 1, "larger": rows + 2}[case["row_count"]]
            cells = [letter + str(i) for i in range(rows)]
            cat = pdbx.BinaryCIFCategory({"k": np.array(cells)}, row_count=rc)
            f = pdbx.BinaryCIFFile({"B": pdbx.BinaryCIFBlock({"c": cat})})
            fm = {"B": {"c": {"k": fm_col(cells)}}}
            back = parsed_operand(serialized_root(f, "bin"), "file", "bin", False)
            got, want = [deep(back, "file", "bin")], [deep_expected(fm, "file")]
            if case["row_count"] in ("smaller", "larger"):
                ctx.count("unspecified")
                ctx.count("precedence_row_count_argument_%s" % ("columns_win" if back["B"]["c"].row_count == rows else "argument_wins"))
            elif back["B"]["c"].row_count != rows:
                got.append(back["B"]["c"].row_count)
                want.append(rows)
            tail = "bin|%s" % case["row_count"]
        else:
            raise ValueError(sub)
    except Exception as e:  # noqa: BLE001
        ctx.violation(sig + "raises_" + type(e).__name__, "precedence scenario raised", case, "success", type(e).__name__)
        return
    ctx.outcome(("precedence", tail, str(got)[:100]))
    if got != want:
        ctx.violation(sig + tail, "a value given in two places is not resolved as documented", case, expected=want, observed=got)
        return
    ctx.count("accepted")
