"""C11 - alignments keep valid traces through every conversion; MSAs align the inputs.

E2 (bounded input-space enumeration), six finite spaces:

  pair      every contiguous two-row trace over sequences of length <= 3 x <= 3 (thorough: <= 4 x 4):
            every sub-range of each sequence (clipped ends = every reference offset; also an absent row),
            every column sequence over {pair, gap-in-row-0, gap-in-row-1} (leading/trailing gaps, insertion
            next to deletion in both orders) x every assignment of two letters to the sequences.
            Each goes through: gapped strings <-> trace_from_strings, get_codes, get_symbols,
            find/remove_terminal_gaps, remove_gaps, identity (3 modes), pairwise identity (3 modes),
            score (4 penalties x terminal_penalty), __getitem__ (all column masks / increasing index arrays /
            slices x row selections; integer indices must be refused), the CIGAR writer for both role
            assignments x distinguish_matches x hard_clip x include_terminal_gaps x as_string x intron sets,
            each result decoded by an independent CIGAR reader and read back by biotite, and
            FASTA set_alignment -> write -> read -> get_alignment.
  triple    the same for every three-row trace over lengths <= 2 (quick: total length <= 5), CIGAR for all six
            ordered (reference, segment) row pairs.
  cigar     read_alignment_from_cigar for every CIGAR string with <= 3 (thorough 4) operations over MIDNSH=X
            with lengths 1, 2 (and 11 for <= 2 operations) x every reference offset 0..2, string and array
            form, against a direct interpreter.
  produced  every alignment align_optimal returns (global / semi-global / local, linear + affine) for all
            pairs of length <= 3 over two letters: trace validity, then the whole conversion battery.
  msa       align_multiple for ordered tuples / multisets of 2..4 (thorough 5) sequences of length 1..3 over
            two letters x 3 gap penalties x terminal_penalty, with default distances, supplied distances
            and supplied guide trees (every binary topology, mirrored embeddings, non-binary trees).
  misuse    the documented refusals (one row for trace_from_strings, wrong number of FASTA names,
            unknown identity mode, 3-d index).

Dimension audit families (small, complete over listed spaces):
  long      listed two-row traces with 9..161 columns (CIGAR counts of 2 and 3 digits, str() blocks of 70, FASTA
            lines of 80 columns): diagonal, clipped with gap runs >= 10, terminal runs >= 10, isolated single gaps.
  flavour   every trace of lengths (2,2), (2,1,1) as int32 / int16 / Fortran / strided / read-only array; other
            flavours of every argument (gap penalty, introns, indices, CIGAR operation arrays incl. CigarOp tuples,
            position, FASTA names, index arrays); a 300-symbol alphabet (uint16 sequence codes, letters with the
            codes 7 and 299) with every letter assignment.
  edge      traces without columns; rows of an empty sequence (lengths (0,k), (k,0), three rows); one-row alignments.
  many      align_multiple for 9, 10, 11 sequences (5 guide trees x 2 penalties x terminal flag) and the resulting
            alignments through the conversion battery (FASTA names s0..s10).
  reuse     second use of a FastaFile / of the same sequence and matrix objects, and use after a documented refusal,
            compared with fresh objects.
  skip      every column subset of every end-to-end trace in which a row skips an index (what alignment[mask] and
            remove_gaps() return): letter-level battery per letter assignment, terminal gaps / remove_gaps / result
            identity / __getitem__ once per trace; no CIGAR (a skipped index cannot be expressed).
  derived   op2(op1(x)): the alignment OBJECTS returned by column masks, slices, row selections (reordered, negative
            stride, row subsets of three rows with their all-gap columns), remove_gaps, remove_terminal_gaps, the FASTA
            reader, the CIGAR reader (every CIGAR of <= 2 (3) operations) and align_multiple (all ordered 2- and
            3-tuples over the 6 sequences of length <= 2) go through the conversion battery themselves.
  values    seed-independent: all ten CIGAR operations (symbol <-> BAM code, P and B refused by the reader), every
            symbol of the ambiguous nucleotide and the protein alphabet through codes / symbols / identity / '='-CIGAR /
            FASTA (typed and guessed sequence type).
  (all families) result identity: alignment[:], [:, :], all-true mask, all rows, remove_gaps, remove_terminal_gaps
            return a new object with its own sequence list; re-binding edits of the result leave the operand intact.
            FASTA is read back with '-', '_', both mixed, and two custom additional_gap_chars mixed with '-'.
  third     (same in both tiers) a substitution matrix over a larger alphabet than the sequences use and rows of
            different alphabets (score, '='/'X' CIGAR, align_multiple for all 2- and 3-tuples over 5 listed sequences);
            rows of unequal length for the string / FASTA reader in both directions; the battery and align_multiple
            under np.errstate(all='raise') and minimal print options; stored alignment.score vs score(); explicit
            additional_gap_chars vs the default; supplied distances at the boundaries of the minimum search (all zero,
            zero/one ties, last pair smallest, 1e30, NaN with a supplied tree) for all multisets of 3 and 4 sequences
            of length <= 2.  __getitem__ also takes row selections that repeat rows (more rows than the source).
  msa_alpha align_multiple for matrix alphabets of 254..257 symbols and for uint8-coded sequences with a 300-symbol
            matrix (the neutral gap symbol needs one more symbol code).
"""

import io
import itertools
import json
import math

import numpy as np

from mc.models import alnconv as M

ID = "C11"
LEVEL = "model_checking"
RULE = (
    "pair/triple: every (sub-range per row, column sequence, letter assignment) once - a column sequence is a "
    "word over the non-empty subsets of rows that advances each row through its sub-range; one evaluation = one "
    "call of a biotite conversion/helper compared with the model; letter-independent operations (__getitem__, "
    "CIGAR without '='/'X') run once per trace, letter-dependent ones once per letter assignment; non-trivial "
    "when the trace holds a gap, a clipped end or an absent row. cigar: every operation word x offset once; "
    "non-trivial when it contains an operation other than M. produced: every returned alignment of every "
    "(pair, mode, penalty). msa: every listed (sequence tuple, penalty, terminal flag, distances, tree) once; "
    "non-trivial when two inputs are identical, share no letter or differ in length."
)
ASSUMPTIONS = [
    "traces handed to the converters are contiguous per row (what aligners and parsers produce); traces with "
    "skipped indices only arise as results of __getitem__/remove_gaps and are compared with the model there",
    "__getitem__ is compared with orthogonal numpy selection (columns, then rows); negative steps, unsorted or "
    "repeated column indices are not generated (they cannot keep a trace valid); a row selection may reorder rows",
    "an index that combines a column mask/array with a row list/array is unspecified (numpy pairs the two "
    "arrays): an exception or the orthogonal model value are accepted, anything else is a violation",
    "score(): gap positions are charged per row (open for the first, extend for further positions of a run), "
    "pairs of symbols per row pair with matrix[row_i symbol, row_j symbol], i < j; without terminal penalty only "
    "columns inside find_terminal_gaps() are charged; a gap run that starts in the terminal part and reaches "
    "into the charged part may be charged open or extend (both accepted, counted as unspecified)",
    "a row without any symbol, two rows without overlap and a trace without columns make terminal gaps / "
    "non-terminal identity undefined: exception, or a result without columns / a non-finite number, accepted",
    "CIGAR: the written string is decoded by an independent reader and compared per column and per clipped "
    "base (so the sum of M/I/S/=/X lengths must equal the stored segment length, plus H for hard clips); "
    "aggregation of equal neighbours is not demanded; the reader is given position = first written reference "
    "index and, for hard clips, the segment without the clipped bases (as documented)",
    "CIGAR for a segment row without symbols, or with a column that is a gap in both chosen rows of a 3-row "
    "alignment, is unspecified (exception or a string that decodes to the model without such columns)",
    "introns are generated only inside deletion runs (whole run, all runs, first base of a run of >= 2)",
    "cigar strings handed to the reader consume exactly the segment and not more than the reference; P and B "
    "are not generated (documented as not implemented)",
    "align_multiple: the statement demands rows/order/tree only; the returned distance matrix is compared only "
    "with supplied distances ('equal to distances if provided'), the returned tree with a supplied binary tree",
    "align_multiple failures are classified with the documented Feng-Doolittle formula evaluated over every "
    "optimal pairwise alignment (exact rationals); a failure outside the predicted class gets its own signature",
    "EValueEstimator (statistics.py, named in the anchors) is not part of the statement and is not exercised",
    "str(alignment): every block holds one equally long line per row and line k of all blocks joined is gapped row k; "
    "not checked for the 300-symbol alphabet (Alphabet.is_letter_alphabet() raises UnicodeEncodeError for non-ASCII "
    "symbols - alphabet.py, outside this property)",
    "Alignment(sequences, trace) keeps a reference to the trace argument and column slices are views (unchanged tree): "
    "aliasing between an alignment and the array it was built from is counted as unspecified, not demanded either way",
    "align_multiple with an alphabet whose gap code (= number of matrix symbols) does not fit the dtype of a sequence "
    "code is unspecified (exception or a correct MSA); np.int64 / list gap penalties for align_multiple are not "
    "generated (documented: int or tuple), they are for score()",
    "results of indexing share the trace buffer with their operand when numpy returns a view (counted as "
    "result_shares_trace_buffer, unspecified); align_multiple returns copies of the input sequences (counted); only "
    "object / list identity and re-binding edits are demanded",
    "index-skipping traces are not written as CIGAR (not expressible); the FASTA sequence type guessed from the letters "
    "is documented behaviour: for protein symbols only the trace is demanded when no seq_type is given",
    "gapped rows of unequal length (string / FASTA reader), supplied distances that are NaN or 1e30, and '_' in a file "
    "read with explicit additional_gap_chars are unspecified: exception, or a result that satisfies the oracle",
    "a row that belongs to an empty sequence is a valid trace row (all gaps): codes, symbols, identity 'all', score with "
    "terminal penalty and CIGAR are demanded, terminal-gap dependent results and FASTA read-back are unspecified",
]
EXHAUSTIVE = True
SHARD_TIMEOUT = {"quick": 600, "thorough": 2400}

# ---------------------------------------------------------------------------
# palettes: VERIF_SEED selects a row; every row is clean on the unchanged tree
# ---------------------------------------------------------------------------
PALETTES = [
    {"name": "nucAC", "type": "nuc", "letters": "AC", "msa": (5, 5, -4)},
    {"name": "nucGT", "type": "nuc", "letters": "GT", "msa": (3, 3, -2)},
    {"name": "protKW", "type": "prot", "letters": "KW", "msa": (5, 11, -3)},
    {"name": "nucTA", "type": "nuc", "letters": "TA", "msa": (6, 2, -3)},
    {"name": "protAC", "type": "prot", "letters": "AC", "msa": (4, 9, -1)},
]
N_SEED_PALETTES = len(PALETTES)
# not selected by the seed: a 300-symbol alphabet (uint16 sequence codes) whose two letters have the codes 7 and 299
GEN_PAL = len(PALETTES)
PALETTES.append({"name": "gen300", "type": "gen", "letters": (7, 299), "msa": (5, 3, -4), "size": 300})
SCORE_GAPS = [-3, -10, [-5, -1], [-6, -3]]
MSA_GAPS = [-10, -2, [-5, -1]]
IDENT_MODES = ("all", "not_terminal", "shortest")


def pal_for(seed):
    return seed % N_SEED_PALETTES


def bounds(tier):
    q = tier == "quick"
    return {
        "pair_lengths": "L1 <= 3, L2 <= 3: every sub-range pair x every column sequence x every 2-letter assignment" if q
        else "L1 <= 3, L2 <= 3 for all 5 palettes; (4,1) (1,4) (4,2) (2,4) (4,3) (3,4) complete and (4,4) without clipped "
             "ends for the seed's palette",
        "triple_lengths": "each <= 2 with total length <= 5: complete" if q
        else "each <= 2: complete (total length <= 5 for all 5 palettes, (2,2,2) complete for the seed's palette)",
        "letters": 2,
        "palettes": "1 of 5 (by seed)" if q else "5 (see pair/triple/msa bounds)",
        "cigar_read": ("<= 3" if q else "<= 4") + " operations over MIDNSH=X, lengths {1,2} (+11 for <= 2 operations), "
                      "offsets 0..2, str / ndarray / tuple-list form",
        "cigar_write_options": "both (reference, segment) role orders (3 rows: all 6) x distinguish_matches x hard_clip x "
                               "include_terminal_gaps x as_string x intron sets {none, all deletion runs, each run, first "
                               "base of a run >= 2}; '='/'X' x intron sets once per trace, '='/'X' x other options per letter "
                               "assignment (3 rows: 4 listed letter assignments)",
        "getitem": "all 2^m column masks, all increasing index arrays (int64, list, negative int32), all slices with "
                   "start/stop in {None,-m-1..m+1}, step in {None,1,2,3}; row selections: 1-d index, slices, every ordered "
                   "row subset as list and int array, a tuple, every non-empty bool mask (column array x row array, the "
                   "unspecified class: masks / int arrays x row lists / row masks)",
        "score_gap_penalties": SCORE_GAPS,
        "msa": ("default distances: n=2,3 all ordered tuples over the 14 sequences of length 1..3, n=4 all 2380 multisets x 4 "
                "listed orders; supplied distances (3 matrices): multisets n=2,3 (length <= 3), n=4 (length <= 2); supplied "
                "trees: multisets n=2 (length <= 3), n=3,4 (length <= 2) x every binary topology + mirrored embedding + "
                "non-binary trees, half of them with supplied distances" if q else
                "default distances: n=2,3 (all palettes), n=4 all ordered tuples over the 14 sequences of length 1..3, n=5 all "
                "8568 multisets x 4 listed orders; supplied distances (3 matrices): multisets n=2,3 (all palettes), 4, 5; "
                "supplied trees: multisets n=2,3 (all palettes), n=4 (length <= 3), n=5 (length <= 2) x every binary topology "
                "+ mirrored embedding + non-binary trees"),
        "audit_families": {
            "long_trace_columns": list(LONG_LENGTHS), "long_patterns": 4,
            "trace_array_flavours": list(TRACE_FLAVOURS),
            "flavour_lengths": "(2,2), (2,1,1)" if q else "(2,2), (3,2), (2,1,1), (2,2,1), all 5 palettes",
            "large_alphabet": "300 symbols, lengths (2,2), (2,1)" + ("" if q else ", (1,2), (3,2), (1,1,1)"),
            "edge_lengths": "(0,1) (0,2) (1,0) (2,0) (0,1,1) (1,0,2) (2,1,0) (1,) (2,) (3,); empty traces for (2,2) (1,2) (1,1,1) (2,1,1) (2,)",
            "many_rows": [9, 10, 11], "reuse_cases": list(REUSE_CASES),
            "derived": ("index: lengths (2,2) all traces, (2,1,1) end-to-end; cigar reader <= 2 operations; align_multiple n = 2, 3"
                        if q else "index: (2,2) (3,2) (2,1,1) all traces, (2,2,1) end-to-end; cigar reader <= 3 operations; "
                                  "align_multiple n = 2, 3; all 5 palettes"),
            "values": "10 CIGAR operations, 16 nucleotide + 24 protein alphabet symbols, every seed",
            "fasta_gap_modes": ["-", "_", "mixed -/_", "custom . ~ mixed with -"],
            "third": {"matrix_alphabet": "16-symbol nucleotide matrix x 7 listed sequences (4- and 16-symbol alphabets), all "
                                         "ordered pairs x every end-to-end trace with <= max(len)+1 columns; MSA: 5 sequences, n = 2, 3",
                      "boundary_distances": list(BOUNDARY_DISTS), "boundary_msa": "all multisets n = 3, 4 over 6 sequences",
                      "ambient": "np.errstate(all='raise') + printoptions(threshold=0): all (2,2) traces, 3 MSAs"},
            "alphabet_sizes": "matrix = sequences: 254, 255, 256, 257; matrix/sequences: 300/200, 300/256, 257/256",
        },
        "msa_gap_penalties": MSA_GAPS,
        "msa_terminal_penalty": [True, False],
        "produced": "align_optimal, all ordered pairs of the 14 sequences x {global, semi-global, local} x gap {-3, (-5,-1)}, "
                    "up to 50 alignments each",
    }


# ---------------------------------------------------------------------------
# environment (biotite objects for one palette), built lazily inside workers
# ---------------------------------------------------------------------------
_ENVS = {}


class Env:
    def __init__(self, pi):
        import biotite.sequence as bseq
        import biotite.sequence.align as balign

        p = PALETTES[pi]
        self.pi = pi
        self.p = p
        if p["type"] == "gen":
            # single-character symbols, so that gapped strings stay readable by the model
            symbols = [chr(0x4E00 + i) for i in range(p["size"])]
            alphabet = bseq.Alphabet(symbols)
            self.a, self.b = symbols[p["letters"][0]], symbols[p["letters"][1]]
            self.seq_type = bseq.GeneralSequence
            self.cls = lambda text, _a=alphabet: bseq.GeneralSequence(_a, list(text))
            self.alphabet = alphabet
        else:
            self.a, self.b = p["letters"]
            self.cls = bseq.NucleotideSequence if p["type"] == "nuc" else bseq.ProteinSequence
            self.seq_type = self.cls
            self.alphabet = self.cls(self.a).get_alphabet()
        syms = list(self.alphabet.get_symbols())
        self.code_of = {s: i for i, s in enumerate(syms)}
        k = len(syms)
        ii, jj = np.meshgrid(np.arange(k), np.arange(k), indexing="ij")
        asym = ((3 * ii + 5 * jj + ii * jj) % 9 - 4).astype(np.int32)
        sym = (((ii + jj) * 2 + ii * jj) % 9 - 4).astype(np.int32)
        self.cmat_asym = balign.SubstitutionMatrix(self.alphabet, self.alphabet, asym)
        self.cmat_sym = balign.SubstitutionMatrix(self.alphabet, self.alphabet, sym)
        saa, sbb, sab = p["msa"]
        mm = np.full((k, k), -3, dtype=np.int32)
        for i in range(k):
            mm[i, i] = 4
        ia, ib = self.code_of[self.a], self.code_of[self.b]
        mm[ia, ia], mm[ib, ib], mm[ia, ib], mm[ib, ia] = saa, sbb, sab, sab
        self.mmat = balign.SubstitutionMatrix(self.alphabet, self.alphabet, mm)
        self._msa_tab = {(self.a, self.a): saa, (self.b, self.b): sbb, (self.a, self.b): sab, (self.b, self.a): sab}
        self._seqs = {}
        self.fd_cache = {}

    @staticmethod
    def _asym(i, j):
        return (3 * i + 5 * j + i * j) % 9 - 4

    @staticmethod
    def _sym(i, j):
        return ((i + j) * 2 + i * j) % 9 - 4

    def sub_asym(self, x, y):
        return self._asym(self.code_of[x], self.code_of[y])

    def sub_sym(self, x, y):
        return self._sym(self.code_of[x], self.code_of[y])

    def sub_msa(self, x, y):
        return self._msa_tab[(x, y)]

    def letters(self, word):
        """'aab' -> concrete string"""
        return "".join(self.a if c == "a" else self.b for c in word)

    def seq(self, s):
        o = self._seqs.get(s)
        if o is None:
            o = self._seqs[s] = self.cls(s)
        return o

    def fresh(self, s):
        return self.cls(s)

    def text(self, seq):
        """the symbols of a biotite sequence as one string (str() of a GeneralSequence puts ', ' between symbols)"""
        if self.p["type"] == "gen":
            return "".join(seq.symbols)
        return str(seq)


def env(pi):
    e = _ENVS.get(pi)
    if e is None:
        e = _ENVS[pi] = Env(pi)
    return e


# ---------------------------------------------------------------------------
# small helpers
# ---------------------------------------------------------------------------
def call(fn, *a, **k):
    try:
        return ("ok", fn(*a, **k))
    except Exception as e:  # noqa: BLE001
        return ("exc", type(e).__name__, str(e)[:200])


def obs_trace(arr, nrows):
    """ndarray -> tuple of tuples, or a string describing why it is no trace at all."""
    if not isinstance(arr, np.ndarray):
        return "not_ndarray:%s" % type(arr).__name__
    if arr.ndim != 2:
        return "ndim_%d" % arr.ndim
    if arr.shape[1] != nrows:
        return "row_count_%d" % arr.shape[1]
    if arr.dtype.kind not in "iu":
        return "dtype_%s" % arr.dtype
    return tuple(tuple(int(v) for v in row) for row in arr.tolist())


def trace_class(seqs, trace):
    n = len(seqs)
    if not trace:
        return "no_columns"
    if any(len(x) == 0 for x in seqs):
        return "empty_sequence"
    tr = M.terminal_range(trace, n)
    if tr is None:
        return "absent_row"
    if tr[1] <= tr[0]:
        return "no_overlap"
    if M.covered(seqs, trace) != list(seqs):
        return "clipped"
    if n == 2 and M._abuts(trace):
        return "ins_next_to_del"
    if any(M.GAP in c for c in (trace[0], trace[-1])):
        return "terminal_gaps"
    if any(M.GAP in c for c in trace):
        return "inner_gaps"
    return "ungapped"


def fnum(x):
    try:
        return float(x)
    except Exception:  # noqa: BLE001
        return None


class Bat:
    """One case = (palette, sequences, trace); collects counts and reports violations."""

    def __init__(self, ctx, e, seqs, trace, origin="enum", flavour="int64"):
        import biotite.sequence.align as balign

        self.ctx, self.e = ctx, e
        self.seqs = tuple(seqs)
        self.trace = tuple(tuple(c) for c in trace)
        self.n = len(seqs)
        self.cls = "%drow_%s" % (self.n, trace_class(self.seqs, self.trace))
        self.case = {"kind": "conv", "pal": e.pi, "seqs": list(self.seqs), "trace": [list(c) for c in self.trace]}
        self.sobj = [e.seq(s) for s in self.seqs]
        self.arr = np.array(self.trace, dtype=np.int64).reshape(len(self.trace), self.n)
        self.flavour = flavour
        if flavour != "int64":
            self.case["flavour"] = flavour
        self.aln = balign.Alignment(self.sobj, make_trace_array(self.arr, flavour))
        self.evs = 0
        self.nontrivial = self.cls.split("_", 1)[1] != "ungapped"
        self.tr = M.terminal_range(self.trace, self.n) if self.trace else None
        self.undefined_terminal = self.tr is None or self.tr[1] <= self.tr[0]

    def bad(self, site, mode, what, expected=None, observed=None, extra=None, cls=None):
        sig = "%s|%s|%s" % (site, mode, cls or self.cls)
        if self.ctx._viol_per_sig.get(sig, 0) >= 3:
            # only the first few cases of a signature are kept; the others are counted
            self.ctx.violation(sig, what, None)
            return
        case = dict(self.case)
        if callable(extra):
            extra = extra()
        if extra:
            case["op"] = extra
        self.ctx.violation(sig, what, case, expected, observed)

    def done(self):
        self.ctx.ev(self.evs, self.evs if self.nontrivial else 0)

    def intact(self, site, extra=None):
        """the source alignment must not be changed by a conversion"""
        t = obs_trace(self.aln.trace, self.n)
        if t != self.trace or [self.e.text(s) for s in self.aln.sequences] != list(self.seqs):
            self.bad(site, "operand_mutated", "conversion changed the source alignment", [self.seqs, self.trace],
                     [[self.e.text(s) for s in self.aln.sequences], t], extra)
            import biotite.sequence.align as balign

            self.aln = balign.Alignment(self.sobj, make_trace_array(self.arr, self.flavour))


TRACE_FLAVOURS = ("int32", "int16", "fortran", "strided_rows", "strided_cols", "readonly")


def make_trace_array(arr, flavour):
    """the same trace as another kind of ndarray"""
    m, n = arr.shape
    if flavour == "int64":
        return arr.copy()
    if flavour in ("int32", "int16"):
        return arr.astype(flavour)
    if flavour == "fortran":
        return np.asfortranarray(arr)
    if flavour == "strided_rows":
        big = np.full((2 * m, n), -7, dtype=np.int64)
        big[::2] = arr
        return big[::2]
    if flavour == "strided_cols":
        big = np.full((m, 2 * n), -7, dtype=np.int64)
        big[:, ::2] = arr
        return big[:, ::2]
    if flavour == "readonly":
        out = arr.copy()
        out.setflags(write=False)
        return out
    raise ValueError(flavour)


# ---------------------------------------------------------------------------
# battery parts
# ---------------------------------------------------------------------------
def check_result_alignment(b, site, res, exp_trace, exp_seqs, extra=None, mode_prefix="", cls=None):
    """res = ('ok', Alignment) expected to hold exp_trace over exp_seqs (strings).
    extra: dict or callable returning a dict (only evaluated for a violation)."""
    import biotite.sequence.align as balign

    ex = lambda: extra  # noqa: E731  (evaluated lazily inside Bat.bad)

    b.evs += 1
    if res[0] != "ok":
        b.bad(site, mode_prefix + "raises_" + res[1], "legal input raised %s: %s" % (res[1], res[2]), "alignment",
              list(res), ex(), cls)
        return False
    r = res[1]
    if not isinstance(r, balign.Alignment):
        b.bad(site, mode_prefix + "not_an_alignment", "result is no Alignment", "Alignment", type(r).__name__, ex(), cls)
        return False
    t = obs_trace(r.trace, len(exp_seqs))
    if isinstance(t, str):
        b.bad(site, mode_prefix + "malformed_trace", "result trace is no (columns x rows) integer array: %s" % t,
              [list(c) for c in exp_trace], t, ex(), cls)
        return False
    if t != tuple(exp_trace):
        b.bad(site, mode_prefix + "trace_mismatch", "result trace differs from the model", [list(c) for c in exp_trace],
              [list(c) for c in t], ex(), cls)
        return False
    seqs = r.sequences
    if len(seqs) != len(exp_seqs) or any(so is not b.e._seqs.get(es) for so, es in zip(seqs, exp_seqs)):
        got = [b.e.text(s) for s in seqs]
        if got != list(exp_seqs):
            b.bad(site, mode_prefix + "sequences_mismatch", "result sequences differ", list(exp_seqs), got, ex(), cls)
            return False
        for s in seqs:
            if type(s) is not b.e.seq_type:
                b.bad(site, mode_prefix + "sequence_type", "result sequence has another type", b.e.seq_type.__name__,
                      type(s).__name__, ex(), cls)
                return False
    return True


def part_views(b):
    """gapped strings, trace_from_strings, codes, symbols (letter-dependent)."""
    import biotite.sequence.align as balign

    e, ctx = b.e, b.ctx
    exp_g = M.gapped_strings(b.seqs, b.trace)
    r = call(b.aln.get_gapped_sequences)
    b.evs += 1
    if r[0] != "ok":
        b.bad("get_gapped_sequences", "raises_" + r[1], r[2], exp_g, list(r))
    elif list(r[1]) != exp_g:
        b.bad("get_gapped_sequences", "mismatch", "gapped strings differ from the model", exp_g, list(r[1]))
    ctx.outcome(("g", tuple(exp_g)))
    # str(): blocks of one line per row; line k of all blocks joined gives row k back
    # (not for the 300-symbol alphabet: Alphabet.is_letter_alphabet() only takes ASCII symbols)
    r = call(str, b.aln) if e.p["type"] != "gen" else ("skip",)
    b.evs += 1
    if r[0] == "skip":
        b.evs -= 1
    elif r[0] != "ok":
        b.bad("Alignment.__str__", "raises_" + r[1], r[2], exp_g, list(r))
    elif b.trace:
        rows = [""] * b.n
        okshape = True
        for block in r[1].split("\n\n"):
            lines = block.split("\n")
            if len(lines) != b.n or len({len(x) for x in lines}) != 1:
                # every block shows the same columns of all rows
                okshape = False
                break
            for k, line in enumerate(lines):
                rows[k] += line
        if not okshape or rows != exp_g:
            b.bad("Alignment.__str__", "rows_mismatch", "the rows printed by str() are not the gapped sequences", exp_g,
                  r[1][:300])
    if b.trace and b.n >= 2:
        exp_t = M.rebased(b.trace, b.n)
        r = call(balign.Alignment.trace_from_strings, exp_g)
        b.evs += 1
        if r[0] != "ok":
            b.bad("trace_from_strings", "raises_" + r[1], r[2], [list(c) for c in exp_t], list(r))
        else:
            t = obs_trace(r[1], b.n)
            if t != exp_t:
                b.bad("trace_from_strings", "mismatch", "trace parsed from the gapped strings differs",
                      [list(c) for c in exp_t], t if isinstance(t, str) else [list(c) for c in t])
            elif M.trace_problem(t, b.n) is not None and M.trace_problem(b.trace, b.n) is None:
                # (a row subset of a wider alignment legitimately keeps columns that are all gaps)
                b.bad("trace_from_strings", "invalid_" + M.trace_problem(t, b.n), "parsed trace is invalid", None, t)
    # codes
    exp_c = M.code_rows(b.seqs, b.trace, e.code_of)
    r = call(balign.get_codes, b.aln)
    b.evs += 1
    if r[0] != "ok":
        b.bad("get_codes", "raises_" + r[1], r[2], exp_c, list(r))
    else:
        c = r[1]
        if not isinstance(c, np.ndarray) or c.shape != (b.n, len(b.trace)) or c.dtype.kind != "i":
            b.bad("get_codes", "shape_or_dtype", "code matrix is not a signed (rows x columns) array",
                  [b.n, len(b.trace)], [getattr(c, "shape", None), str(getattr(c, "dtype", None))])
        elif c.tolist() != exp_c:
            b.bad("get_codes", "mismatch", "code matrix differs from the model", exp_c, c.tolist())
    exp_s = M.symbol_rows(b.seqs, b.trace)
    r = call(balign.get_symbols, b.aln)
    b.evs += 1
    if r[0] != "ok":
        b.bad("get_symbols", "raises_" + r[1], r[2], exp_s, list(r))
    else:
        got = [list(row) for row in r[1]]
        if got != exp_s:
            b.bad("get_symbols", "mismatch", "symbol matrix differs from the model", exp_s, got)
    b.intact("views")


def part_terminal(b):
    """find_terminal_gaps, remove_terminal_gaps, remove_gaps (letter-independent)."""
    import biotite.sequence.align as balign

    ctx = b.ctx
    r = call(balign.find_terminal_gaps, b.aln)
    b.evs += 1
    if b.undefined_terminal:
        ctx.count("unspecified")
        if r[0] == "ok":
            try:
                s, t = int(r[1][0]), int(r[1][1])
                okv = t <= s
            except Exception:  # noqa: BLE001
                okv = False
            if not okv:
                b.bad("find_terminal_gaps", "nonempty_range_for_undefined", "rows without overlap got a non-empty "
                      "non-terminal range", "exception or stop <= start", repr(r[1]))
    else:
        ctx.count("accepted")
        if r[0] != "ok":
            b.bad("find_terminal_gaps", "raises_" + r[1], r[2], list(b.tr), list(r))
        else:
            try:
                got = (int(r[1][0]), int(r[1][1]))
            except Exception:  # noqa: BLE001
                got = repr(r[1])
            if got != b.tr:
                b.bad("find_terminal_gaps", "mismatch", "non-terminal column range differs", list(b.tr), got)
    r = call(balign.remove_terminal_gaps, b.aln)
    if b.undefined_terminal:
        b.evs += 1
        if r[0] == "ok":
            t = obs_trace(getattr(r[1], "trace", None), b.n)
            if isinstance(t, str) or len(t) != 0:
                b.bad("remove_terminal_gaps", "columns_left_for_undefined", "rows without overlap: result keeps columns",
                      "exception or no columns", t)
    else:
        check_result_alignment(b, "remove_terminal_gaps", r, b.trace[b.tr[0]: b.tr[1]], b.seqs)
    r = call(balign.remove_gaps, b.aln)
    check_result_alignment(b, "remove_gaps", r, M.without_gap_columns(b.trace), b.seqs)
    b.intact("terminal")


def _close(x, frac):
    return x is not None and math.isfinite(x) and abs(x - float(frac)) <= 1e-12


def part_identity(b):
    import biotite.sequence.align as balign

    ctx = b.ctx
    for mode in IDENT_MODES:
        exp = M.identity(b.seqs, b.trace, mode)
        r = call(balign.get_sequence_identity, b.aln, mode)
        b.evs += 1
        if exp is None:
            ctx.count("unspecified")
            if r[0] == "ok":
                v = fnum(r[1])
                if v is not None and math.isfinite(v):
                    b.bad("get_sequence_identity", "finite_for_undefined_" + mode,
                          "identity over zero columns returned a finite number", "exception or non-finite", v)
        else:
            ctx.count("accepted")
            if r[0] != "ok":
                b.bad("get_sequence_identity", "raises_%s_%s" % (r[1], mode), r[2], str(exp), list(r))
            elif not _close(fnum(r[1]), exp):
                b.bad("get_sequence_identity", "mismatch_" + mode, "identity differs from the recomputation", str(exp),
                      fnum(r[1]))
            ctx.outcome(("id", mode, str(exp)))
        expm = M.pairwise_identity(b.seqs, b.trace, mode)
        r = call(balign.get_pairwise_sequence_identity, b.aln, mode)
        b.evs += 1
        undefined = any(x is None for row in expm for x in row)
        if undefined:
            ctx.count("unspecified")
        else:
            ctx.count("accepted")
        if r[0] != "ok":
            if not undefined:
                b.bad("get_pairwise_sequence_identity", "raises_%s_%s" % (r[1], mode), r[2],
                      [[str(x) for x in row] for row in expm], list(r))
            continue
        m = r[1]
        if not isinstance(m, np.ndarray) or m.shape != (b.n, b.n):
            b.bad("get_pairwise_sequence_identity", "shape_" + mode, "result is no (n x n) array", [b.n, b.n],
                  getattr(m, "shape", None))
            continue
        for i in range(b.n):
            for j in range(b.n):
                x = fnum(m[i, j])
                if expm[i][j] is None:
                    if x is not None and math.isfinite(x):
                        b.bad("get_pairwise_sequence_identity", "finite_for_undefined_" + mode,
                              "pair without overlap got a finite identity", "exception or non-finite", x)
                        break
                elif not _close(x, expm[i][j]):
                    b.bad("get_pairwise_sequence_identity", "mismatch_" + mode,
                          "pairwise identity [%d,%d] differs from the recomputation" % (i, j), str(expm[i][j]), x)
                    break
            else:
                continue
            break
    b.intact("identity")


def part_score(b):
    import biotite.sequence.align as balign

    e, ctx = b.e, b.ctx
    if b.n == 2:
        mat, sub = e.cmat_asym, e.sub_asym
    else:
        mat, sub = e.cmat_sym, e.sub_sym
    for gap in SCORE_GAPS:
        g = tuple(gap) if isinstance(gap, list) else gap
        for tp in (True, False):
            exp = M.score_values(b.seqs, b.trace, sub, g, tp)
            r = call(balign.score, b.aln, mat, g, tp)
            b.evs += 1
            if exp is None:
                ctx.count("unspecified")
                continue
            if len(exp) > 1:
                ctx.count("unspecified")
            else:
                ctx.count("accepted")
            if r[0] != "ok":
                b.bad("score", "raises_" + r[1], r[2], sorted(exp), list(r),
                      {"gap": gap, "terminal_penalty": tp})
            else:
                v = fnum(r[1])
                if v is None or v not in {float(x) for x in exp}:
                    b.bad("score", "mismatch_%s_%s" % ("affine" if isinstance(gap, list) else "linear",
                                                       "terminal" if tp else "noterminal"),
                          "score differs from the column-by-column recomputation", sorted(exp), v,
                          {"gap": gap, "terminal_penalty": tp})
                ctx.outcome(("sc", v))
    b.intact("score")


# ---- __getitem__ ------------------------------------------------------------
def col_selections(m, tier):
    """(label, index object) for the columns of an m-column alignment: every mask, every increasing index
    array (int64 / list / negative form), slices over every start/stop and steps 1..3."""
    out = []
    for bits in itertools.product([False, True], repeat=m):
        out.append(("mask", np.array(bits, dtype=bool)))
    for bits in itertools.product([False, True], repeat=m):
        idx = [i for i, x in enumerate(bits) if x]
        out.append(("intarr", np.array(idx, dtype=np.int64)))
        if idx:
            out.append(("list", list(idx)))
            out.append(("negarr", np.array([i - m for i in idx], dtype=np.int32)))
    vals = [None] + list(range(-m - 1, m + 2))
    for a in vals:
        for z in vals:
            for st in (None, 1, 2, 3):
                out.append(("slice", slice(a, z, st)))
    return out


def row_selections(n):
    """(label, index object or None for a one-dimensional index)"""
    out = [("none", None), ("slice_all", slice(None)), ("slice_rev", slice(None, None, -1)),
           ("slice_first", slice(0, 1)), ("slice_from1", slice(1, None))]
    for k in range(1, n + 1):
        for perm in itertools.permutations(range(n), k):
            out.append(("list", list(perm)))
            out.append(("intarr", np.array(perm, dtype=np.int64)))
    out.append(("tuple", tuple(range(n - 1, -1, -1))))
    # more rows than the source has (a row may be repeated)
    out.append(("list_repeat", [0, 0]))
    out.append(("list_repeat", list(range(n)) + [0]))
    out.append(("intarr_repeat", np.array([n - 1] + list(range(n)) + [n - 1], dtype=np.int64)))
    for bits in itertools.product([False, True], repeat=n):
        if any(bits):
            out.append(("mask", np.array(bits, dtype=bool)))
    return out


ARRAYISH = {"mask", "intarr", "list", "negarr", "tuple", "list_repeat", "intarr_repeat"}


def part_getitem(b, tier):
    import biotite.sequence.align as balign

    ctx = b.ctx
    m, n = len(b.trace), b.n
    cols = col_selections(m, tier)
    rows = row_selections(n)
    rows_small = [r for r in rows if r[0] in ("none", "slice_all")] + [("list", list(range(n - 1, -1, -1)))]
    ar_cols = np.arange(m)
    ar_rows = np.arange(n)
    basic = [slice(None), slice(1, None), slice(None, -1), slice(None, None, 2), slice(1, -1), slice(0, 0)]
    for cl, cidx in cols:
        cpos = [int(x) for x in ar_cols[cidx]]
        # every slice x {1-d, all rows, reversed row list}; the basic slices x every row selection
        for rl, ridx in (rows if cl != "slice" or cidx in basic else rows_small):
            if ridx is None:
                rpos = list(range(n))
                index = cidx
            else:
                rpos = [int(x) for x in np.atleast_1d(ar_rows[ridx if not isinstance(ridx, tuple) else list(ridx)])]
                index = (cidx, ridx)
            exp_t = M.index_trace(b.trace, n, cpos, rpos)
            exp_s = [b.seqs[r] for r in rpos]
            extra = (lambda cl=cl, cidx=cidx, rl=rl, ridx=ridx: {"cols": [cl, repr(cidx)], "rows": [rl, repr(ridx)]})
            paired = cl in ARRAYISH and rl in ARRAYISH
            if paired and n > 2 and (cl not in ("mask", "intarr") or rl not in ("list", "mask", "list_repeat")):
                # three rows: the class is exercised with masks / int arrays x row lists / row masks only
                continue
            try:
                res = ("ok", b.aln[index])
            except Exception as ex:  # noqa: BLE001
                res = ("exc", type(ex).__name__, str(ex)[:200])
            if paired:
                # numpy pairs two index arrays instead of selecting orthogonally: unspecified
                ctx.count("unspecified")
                ctx.count("colarray_x_rowarray_" + ("returned" if res[0] == "ok" else "raised"))
                b.evs += 1
                if res[0] == "ok":
                    t = obs_trace(getattr(res[1], "trace", None), len(rpos))
                    if t != exp_t or [str(s) for s in res[1].sequences] != exp_s:
                        b.bad("Alignment.__getitem__", "silent_garbage", "column array combined with row array returned "
                              "neither an error nor the selected columns and rows",
                              [exp_s, [list(c) for c in exp_t]],
                              [[str(s) for s in res[1].sequences], t if isinstance(t, str) else [list(c) for c in t]],
                              extra, cls="colarray_x_rowarray")
                continue
            ctx.count("accepted")
            check_result_alignment(b, "Alignment.__getitem__", res, exp_t, exp_s, extra,
                                   mode_prefix="%s_%s_" % (cl, rl), cls="%drow" % n)
    # integers are refused
    forms = []
    for i in sorted({0, m - 1, -1, -m} & set(range(-m, m))):
        forms.append(("single_integer", i, i))
        forms.append(("single_integer", i, np.int64(i)))
        forms.append(("col_int_rows_slice", i, (i, slice(None))))
    for j in range(n):
        forms.append(("cols_slice_row_int", j, (slice(None), j)))
        if m:
            forms.append(("col_int_row_int", j, (0, j)))
    forms.append(("three_indices", 0, (slice(None), slice(None), slice(None))))
    for label, _, index in forms:
        b.evs += 1
        if label == "single_integer":
            # alignment[i]: the statement does not say that a bare integer is refused (the class refuses
            # integers only inside a 2-d index): unspecified - exception or any result, the source stays intact
            ctx.count("unspecified")
            ctx.count("bare_integer_index")
            try:
                b.aln[index]
            except Exception:  # noqa: BLE001
                pass
            continue
        ctx.count("refused")
        try:
            r = b.aln[index]
        except Exception:  # noqa: BLE001
            continue
        b.bad("Alignment.__getitem__", "integer_index_accepted" if label != "three_indices" else "3d_index_accepted",
              "an index that cannot select columns/rows was accepted", "IndexError",
              repr(getattr(r, "trace", r))[:200], {"index": repr(index)}, cls=label)
    b.intact("getitem")


# ---- CIGAR ------------------------------------------------------------------
def intron_sets(cols):
    runs = M.deletion_runs(cols)
    out = [()]
    if runs:
        out.append(tuple(runs))
    if len(runs) >= 2:
        for r in runs:
            out.append((r,))
    for r in runs:
        if r[1] - r[0] >= 2:
            out.append(((r[0], r[0] + 1),))
    return out


def decode_written(res, as_string):
    """-> expanded op string or raises ValueError"""
    if as_string:
        if not isinstance(res, str):
            raise ValueError("not a str: %r" % type(res).__name__)
        return M.cigar_expand(M.cigar_parse(res))
    arr = np.asarray(res)
    if arr.ndim != 2 or arr.shape[1] != 2:
        if arr.size == 0:
            return ""
        raise ValueError("shape %r" % (arr.shape,))
    return "".join(M.CODE_OP[int(o)] * int(k) for o, k in arr.tolist())


def part_cigar(b, distinguish_values, all_introns=True):
    import biotite.sequence.align as balign

    e, ctx = b.e, b.ctx
    for ri, si in itertools.permutations(range(b.n), 2):
        pair_cols = tuple((c[ri], c[si]) for c in b.trace)
        ref, seg = b.seqs[ri], b.seqs[si]
        for incl in (False, True):
            base = M.cigar_expected(pair_cols, ref, seg, include_terminal_gaps=incl)
            isets = intron_sets(base["columns"]) if base["status"] == "ok" and all_introns else [()]
            for introns in isets:
                for dist in distinguish_values:
                    for hard in (False, True):
                        exp = M.cigar_expected(pair_cols, ref, seg, introns, dist, hard, incl)
                        for as_string in (True, False):
                            opts = {"reference_index": ri, "segment_index": si, "introns": [list(x) for x in introns],
                                    "distinguish_matches": dist, "hard_clip": hard, "include_terminal_gaps": incl,
                                    "as_string": as_string}
                            r = call(balign.write_alignment_to_cigar, b.aln, reference_index=ri, segment_index=si,
                                     introns=list(introns), distinguish_matches=dist, hard_clip=hard,
                                     include_terminal_gaps=incl, as_string=as_string)
                            b.evs += 1
                            if exp["status"] != "ok":
                                ctx.count("unspecified")
                                if r[0] == "ok":
                                    try:
                                        dec = decode_written(r[1], as_string)
                                    except (ValueError, KeyError) as ex:
                                        b.bad("write_alignment_to_cigar", "undecodable", str(ex), None, repr(r[1]), opts)
                                        continue
                                    if exp["status"] == "segment_absent" and any(c in "MI=XS" for c in dec):
                                        b.bad("write_alignment_to_cigar", "consumes_absent_segment",
                                              "segment row holds no symbol but the CIGAR consumes segment bases",
                                              "exception or no M/I/=/X/S", dec, opts)
                                continue
                            ctx.count("accepted")
                            if r[0] != "ok":
                                b.bad("write_alignment_to_cigar", "raises_" + r[1], r[2], exp["expanded"], list(r), opts)
                                continue
                            try:
                                dec = decode_written(r[1], as_string)
                            except (ValueError, KeyError) as ex:
                                b.bad("write_alignment_to_cigar", "undecodable", str(ex), exp["expanded"], repr(r[1]), opts)
                                continue
                            ctx.outcome(("cg", dec))
                            if dec != exp["expanded"]:
                                body_e = exp["expanded"].strip("SH")
                                body_g = dec.strip("SH")
                                if body_e == body_g:
                                    mode = "clip_mismatch_" + ("hard" if hard else "soft")
                                elif len(body_e) != len(body_g):
                                    mode = "column_count_mismatch"
                                elif introns and body_e.replace("N", "D") == body_g.replace("N", "D"):
                                    mode = "intron_mismatch"
                                elif dist and body_e.replace("=", "M").replace("X", "M") == body_g.replace("=", "M").replace("X", "M"):
                                    mode = "equal_different_mismatch"
                                else:
                                    mode = "operation_mismatch"
                                b.bad("write_alignment_to_cigar", mode, "written CIGAR does not describe the alignment",
                                      exp["expanded"], dec, opts)
                                continue
                            # and back
                            stored = e.seq(exp["stored_seg"])
                            rr = call(balign.read_alignment_from_cigar, r[1], exp["position"], b.sobj[ri], stored)
                            check_result_alignment(b, "cigar_round_trip", rr, exp["read_cols"], [ref, exp["stored_seg"]],
                                                   opts, mode_prefix="hard_" if hard else "")
    b.intact("cigar")


# ---- FASTA ------------------------------------------------------------------
def part_fasta(b):
    from biotite.sequence.io import fasta

    e, ctx = b.e, b.ctx
    if not b.trace or e.p["type"] == "gen":
        return
    names = ["s%d" % i for i in range(b.n)]
    unspec = "absent_row" in b.cls or "empty_sequence" in b.cls
    exp_g = M.gapped_strings(b.seqs, b.trace)
    exp_t = M.rebased(b.trace, b.n)
    exp_s = M.covered(b.seqs, b.trace)

    def go(gapchar):
        f = fasta.FastaFile()
        fasta.set_alignment(f, b.aln, names)
        entries = list(f.items())
        buf = io.StringIO()
        f.write(buf)
        text = buf.getvalue()
        kw = {}
        if gapchar == "mixed":
            # both gap characters in one file, also within one row
            cnt = [0]

            def alt(line):
                out = []
                for ch in line:
                    if ch == "-":
                        cnt[0] += 1
                        ch = "_" if cnt[0] % 2 else "-"
                    out.append(ch)
                return "".join(out)
            text = "\n".join(line if line.startswith(">") else alt(line) for line in text.split("\n"))
        elif gapchar == ".~":
            # two custom gap characters given as additional_gap_chars, mixed with '-'
            cnt = [0]

            def alt(line):
                out = []
                for ch in line:
                    if ch == "-":
                        cnt[0] += 1
                        ch = ".~-"[cnt[0] % 3]
                    out.append(ch)
                return "".join(out)
            text = "\n".join(line if line.startswith(">") else alt(line) for line in text.split("\n"))
            kw["additional_gap_chars"] = (".", "~")
        elif gapchar != "-":
            text = "\n".join(line if line.startswith(">") else line.replace("-", gapchar) for line in text.split("\n"))
        g = fasta.FastaFile.read(io.StringIO(text))
        # a single row cannot be read back as an alignment (documented refusal of trace_from_strings)
        return entries, text, (fasta.get_alignment(g, seq_type=e.cls, **kw) if b.n >= 2 else None)

    for gapchar in ("-", "_", "mixed", ".~"):
        r = call(go, gapchar)
        if r[0] != "ok":
            b.evs += 1
            if unspec:
                ctx.count("unspecified")
            else:
                b.bad("fasta_round_trip", "raises_" + r[1], r[2], exp_g, list(r), {"gap_char": gapchar})
            continue
        entries, text, aln2 = r[1]
        b.evs += 1
        if [(h, s) for h, s in entries] != list(zip(names, exp_g)):
            b.bad("fasta.set_alignment", "entries_mismatch", "file entries differ from the gapped strings",
                  list(zip(names, exp_g)), entries)
            continue
        parsed = M.fasta_parse(text)
        want = [(h, s.replace("-", gapchar)) for h, s in zip(names, exp_g)]
        if gapchar in ("mixed", ".~"):
            parsed = [(h, "".join("-" if ch in "_.~" else ch for ch in s)) for h, s in parsed]
            want = list(zip(names, exp_g))
        if parsed != want and not unspec:
            b.bad("fasta.write", "text_mismatch", "written FASTA text does not hold the gapped rows", want, parsed)
            continue
        if unspec:
            ctx.count("unspecified")
            continue
        ctx.count("accepted")
        if b.n < 2:
            continue
        check_result_alignment(b, "fasta_round_trip", ("ok", aln2), exp_t, exp_s, {"gap_char": gapchar})
    b.intact("fasta")


def is_contiguous(trace, nrows):
    for r in range(nrows):
        idx = [c[r] for c in trace if c[r] != M.GAP]
        if any(y - x != 1 for x, y in zip(idx, idx[1:])):
            return False
    return True


def part_result_identity(b):
    """operations that produce a new alignment must not hand out the operand (or its list of sequences), also when
    nothing has to be done; after re-binding edits of the result the operand is intact.  Shared ndarray buffers
    (views) are unspecified."""
    import biotite.sequence.align as balign

    ctx = b.ctx
    m, n = len(b.trace), b.n
    ops = [("getitem_full_slice", lambda a: a[:]), ("getitem_full_2d", lambda a: a[:, :]),
           ("getitem_all_true_mask", lambda a: a[np.ones(m, dtype=bool)]),
           ("getitem_all_rows_list", lambda a: a[:, list(range(n))]), ("remove_gaps", balign.remove_gaps)]
    if not b.undefined_terminal:
        ops.append(("remove_terminal_gaps", balign.remove_terminal_gaps))
    for name, fn in ops:
        r = call(fn, b.aln)
        b.evs += 1
        if r[0] != "ok":
            continue   # judged by the other parts
        res = r[1]
        if res is b.aln:
            b.bad(name, "returns_operand", "the operation returned its operand instead of a new alignment", cls="%drow" % n)
            continue
        if res.sequences is b.aln.sequences:
            b.bad(name, "shares_sequence_list", "result and operand share the list of sequences", cls="%drow" % n)
            continue
        ctx.count("result_shares_trace_buffer" if np.shares_memory(res.trace, b.aln.trace) else "result_owns_trace_buffer")
        # re-binding edits of the result
        res.sequences.append(b.sobj[0])
        res.sequences[0] = b.e.seq(b.e.letters("b"))
        res.trace = np.zeros((1, n), dtype=int)
        res.score = 12345
        if b.aln.score is not None:
            b.bad(name, "score_shared", "editing the result changed the operand's score", cls="%drow" % n)
        b.intact(name)


def run_battery(ctx, e, seqs, trace, tier, struct_level=True, letter_level=True, getitem=True, cigar_letters=True,
                flavour="int64", cigar_struct=True):
    """struct_level: operations whose result does not depend on the letters; letter_level: the others.
    cigar_letters: run the '='/'X' CIGAR options for this letter assignment."""
    b = Bat(ctx, e, seqs, trace, flavour=flavour)
    if letter_level:
        part_views(b)
        part_identity(b)
        part_score(b)
        part_fasta(b)
        if cigar_letters:
            # '='/'X' depends on the letters; the intron sets are crossed with it once per trace
            part_cigar(b, (True,), all_introns=struct_level)
    if struct_level:
        part_terminal(b)
        part_result_identity(b)
        if cigar_struct:
            part_cigar(b, (False,))
        if getitem:
            part_getitem(b, tier)
    b.done()
    return b


# ---------------------------------------------------------------------------
# pair / triple families
# ---------------------------------------------------------------------------
def structures(lens, allow_empty=True, full_only=False, with_empty_trace=False):
    """every (ranges, trace) for rows of the given lengths; at most one row may be absent;
    full_only: only end-to-end traces (no clipped end, no absent row)"""
    per_row = [[(0, n)] for n in lens] if full_only else [M.subranges(n, allow_empty) for n in lens]
    if with_empty_trace:
        yield None, ()
    for ranges in itertools.product(*per_row):
        if sum(1 for a, z in ranges if a == z) > 1:
            continue
        for t in M.enum_traces(ranges):
            yield ranges, t


def letter_words(lens):
    for w in itertools.product("ab", repeat=sum(lens)):
        out, p = [], 0
        for n in lens:
            out.append("".join(w[p: p + n]))
            p += n
        yield out


def cigar_letter_words(lens):
    """three-row traces: the letter assignments for which the '='/'X' CIGAR options are run
    (all-equal, alternating, row-wise different); two-row traces use every assignment"""
    total = sum(lens)
    picks = ["a" * total, "".join("ab"[i % 2] for i in range(total)), "".join("ab"[k % 2] * n for k, n in enumerate(lens)),
             "".join("ba"[(i // 2) % 2] for i in range(total))]
    out = set()
    for w in picks:
        parts, p = [], 0
        for n in lens:
            parts.append(w[p: p + n])
            p += n
        out.add(tuple(parts))
    return out


def run_family(shard, ctx):
    lens = tuple(shard["lens"])
    e = env(shard["pal"])
    part, parts = shard["part"], shard["parts"]
    abstract = list(letter_words(lens))
    words = [[e.letters(w) for w in ws] for ws in abstract]
    cig = None if len(lens) == 2 else cigar_letter_words(lens)
    idx = -1
    for ranges, t in structures(lens, full_only=shard.get("full_only", False),
                                with_empty_trace=shard.get("with_empty_trace", False)):
        idx += 1
        if idx % parts != part:
            continue
        ctx.count("structures")
        first = True
        for ws, seqs in zip(abstract, words):
            cs = json.dumps({"kind": "conv", "pal": e.pi, "seqs": seqs, "trace": t})
            if not ctx.journal(cs):
                first = False
                continue
            b = run_battery(ctx, e, seqs, t, ctx.tier, struct_level=first, letter_level=True,
                            getitem=shard.get("getitem", True), cigar_letters=cig is None or tuple(ws) in cig)
            first = False
            if len(ctx.samples) < 2 and b.nontrivial and len(t) >= 3 and idx % 17 == 3:
                ctx.sample({"seqs": seqs, "gapped": M.gapped_strings(seqs, t), "class": b.cls})


# ---------------------------------------------------------------------------
# index-skipping traces (what column selection by mask / index array and remove_gaps() hand out):
# strictly increasing, but not consecutive indices per row
# ---------------------------------------------------------------------------
def skipping_subtraces(t, nrows):
    """every trace obtained from t by keeping a proper non-empty subset of its columns in which at least
    one row skips an index (the other subsets are traces of the plain families)"""
    m = len(t)
    for keep in itertools.product((False, True), repeat=m):
        if all(keep) or not any(keep):
            continue
        sub = tuple(c for c, k in zip(t, keep) if k)
        skips = False
        for r in range(nrows):
            idx = [c[r] for c in sub if c[r] != M.GAP]
            if any(b - a != 1 for a, b in zip(idx, idx[1:])):
                skips = True
                break
        if skips:
            yield sub


def run_skip(shard, ctx):
    lens = tuple(shard["lens"])
    e = env(shard["pal"])
    part, parts = shard["part"], shard["parts"]
    abstract = list(letter_words(lens))
    words = [[e.letters(w) for w in ws] for ws in abstract]
    seen = set()
    idx = -1
    for _ranges, t in structures(lens, full_only=True):
        for sub in skipping_subtraces(t, len(lens)):
            if sub in seen:
                continue
            seen.add(sub)
            idx += 1
            if idx % parts != part:
                continue
            ctx.count("skipping_traces")
            first = True
            for seqs in words:
                cs = json.dumps({"kind": "conv", "pal": e.pi, "seqs": seqs, "trace": sub})
                if not ctx.journal(cs):
                    first = False
                    continue
                # struct-level parts once per trace: terminal gaps, remove_gaps, result identity, __getitem__;
                # no CIGAR (a skipped index cannot be expressed)
                b = run_battery(ctx, e, seqs, sub, ctx.tier, struct_level=first, letter_level=True,
                                cigar_letters=False, cigar_struct=False)
                first = False
                if len(ctx.samples) < 1 and idx % 11 == 5:
                    ctx.sample({"seqs": seqs, "gapped": M.gapped_strings(seqs, sub), "class": b.cls + "+skipping"})


# ---------------------------------------------------------------------------
# cigar reader family
# ---------------------------------------------------------------------------
READ_OPS = "MIDNSH=X"


def cigar_words(max_ops):
    single = [(op, n) for op in READ_OPS for n in (1, 2)]
    long_single = [(op, 11) for op in READ_OPS]
    for k in range(1, max_ops + 1):
        for w in itertools.product(single, repeat=k):
            yield w
    for w in itertools.product(single + long_single, repeat=1):
        if w[0][1] == 11:
            yield w
    for w in itertools.product(single + long_single, repeat=2):
        if any(x[1] == 11 for x in w):
            yield w


def check_cigar_read(ctx, e, ops, position, tail):
    import biotite.sequence.align as balign

    ops = [(o, int(n)) for o, n in ops]
    text = "".join("%d%s" % (n, o) for o, n in ops)
    cols, ref_end, seg_len = M.cigar_interpret(ops, position)
    ref = e.letters("".join("ab"[(i * i + i // 3) % 2] for i in range(ref_end + tail)))
    seg = e.letters("".join("ba"[(i + i // 2) % 2] for i in range(seg_len)))
    case = {"kind": "cigar_read", "pal": e.pi, "ops": [[o, n] for o, n in ops], "position": position, "tail": tail}
    kinds = {o for o, _ in ops}
    cls = ("clips_only" if not cols else "with_clip" if kinds & set("SH") else "with_gap" if kinds & set("IDN")
           else "matches_only")
    nontrivial = kinds != {"M"}
    robj, sobj = e.seq(ref), e.seq(seg)
    arr_form = np.array([[M.OP_CODE[o], n] for o, n in ops], dtype=np.int64)
    for form, arg in (("str", text), ("array", arr_form), ("tuples", [(M.OP_CODE[o], n) for o, n in ops])):
        ctx.ev(1, 1 if nontrivial else 0)
        r = call(balign.read_alignment_from_cigar, arg, position, robj, sobj)
        if not cols:
            ctx.count("unspecified")
            if r[0] == "ok":
                t = obs_trace(r[1].trace, 2)
                if isinstance(t, str) or len(t):
                    ctx.violation("read_alignment_from_cigar|columns_from_clips_only|%s" % form,
                                  "a CIGAR of clips only produced columns", case, "exception or no columns", t)
            continue
        ctx.count("accepted")
        if r[0] != "ok":
            ctx.violation("read_alignment_from_cigar|raises_%s|%s_%s" % (r[1], form, cls), r[2], case,
                          [list(c) for c in cols], list(r))
            continue
        aln = r[1]
        t = obs_trace(aln.trace, 2)
        if t != cols:
            ctx.violation("read_alignment_from_cigar|trace_mismatch|%s_%s" % (form, cls),
                          "trace differs from the direct interpretation of %s at offset %d" % (text, position), case,
                          [list(c) for c in cols], t if isinstance(t, str) else [list(c) for c in t])
            continue
        p = M.trace_problem(t, 2, (len(ref), len(seg)))
        if p is not None:
            ctx.violation("read_alignment_from_cigar|invalid_%s|%s_%s" % (p, form, cls), "parsed trace is invalid", case,
                          None, [list(c) for c in t])
        if [str(s) for s in aln.sequences] != [ref, seg]:
            ctx.violation("read_alignment_from_cigar|sequences_mismatch|%s_%s" % (form, cls), "sequences changed", case,
                          [ref, seg], [str(s) for s in aln.sequences])
        ctx.outcome(("rd", t))


def run_cigar(shard, ctx):
    e = env(shard["pal"])
    part, parts = shard["part"], shard["parts"]
    for idx, w in enumerate(cigar_words(shard["max_ops"])):
        if idx % parts != part:
            continue
        for position in (0, 1, 2):
            check_cigar_read(ctx, e, w, position, tail=(idx + position) % 2)
        if len(ctx.samples) < 1 and idx % 1001 == 77:
            ctx.sample({"cigar": "".join("%d%s" % (n, o) for o, n in w)})


# ---------------------------------------------------------------------------
# produced family (align_optimal)
# ---------------------------------------------------------------------------
SEQ_WORDS = ["".join(p) for k in (1, 2, 3) for p in itertools.product("ab", repeat=k)]


def check_produced(ctx, e, w1, w2, mode, gap, tier):
    import biotite.sequence.align as balign

    s1, s2 = e.letters(w1), e.letters(w2)
    g = tuple(gap) if isinstance(gap, list) else gap
    case = {"kind": "produced", "pal": e.pi, "w1": w1, "w2": w2, "mode": mode, "gap": gap}
    kw = {"gap_penalty": g, "max_number": 50}
    if mode == "local":
        kw["local"] = True
    else:
        kw["terminal_penalty"] = mode == "global"
    r = call(balign.align_optimal, e.seq(s1), e.seq(s2), e.mmat, **kw)
    ctx.ev(1, 1)
    if r[0] != "ok":
        ctx.violation("align_optimal|raises_%s|%s" % (r[1], mode), r[2], case, "alignments", list(r))
        return
    for aln in r[1]:
        t = obs_trace(aln.trace, 2)
        ctx.ev(1, 1)
        if isinstance(t, str):
            ctx.violation("align_optimal|malformed_trace|%s" % mode, t, case, None, t)
            continue
        p = M.trace_problem(t, 2, (len(s1), len(s2)))
        if p is not None:
            ctx.violation("align_optimal|invalid_%s|%s" % (p, mode), "produced trace violates the validity predicate",
                          case, None, [list(c) for c in t])
            continue
        if not t:
            ctx.count("produced_empty")
            continue
        ctx.count("produced_alignments")
        # the produced object itself goes through the battery
        b = Bat(ctx, e, (s1, s2), t)
        b.aln = aln
        b.case = dict(case, trace=[list(c) for c in t])
        part_views(b)
        part_terminal(b)
        part_identity(b)
        part_score(b)
        part_fasta(b)
        part_cigar(b, (True, False))
        b.done()


def run_produced(shard, ctx):
    e = env(shard["pal"])
    part, parts = shard["part"], shard["parts"]
    idx = -1
    for w1 in SEQ_WORDS:
        for w2 in SEQ_WORDS:
            idx += 1
            if idx % parts != part:
                continue
            for mode in ("global", "semiglobal", "local"):
                for gap in (-3, [-5, -1]):
                    cs = json.dumps({"kind": "produced", "pal": e.pi, "w1": w1, "w2": w2, "mode": mode, "gap": gap})
                    if ctx.journal(cs):
                        check_produced(ctx, e, w1, w2, mode, gap, ctx.tier)


# ---------------------------------------------------------------------------
# multiple alignment
# ---------------------------------------------------------------------------
ORDERS4 = [[0, 1, 2, 3], [3, 2, 1, 0], [1, 2, 3, 0], [2, 0, 3, 1]]
ORDERS5 = [[0, 1, 2, 3, 4], [4, 3, 2, 1, 0], [1, 2, 3, 4, 0], [2, 4, 1, 3, 0]]
DIST_KINDS = ("chain", "mod", "flat")


def dist_matrix(kind, n):
    d = np.zeros((n, n), dtype=np.float64)
    for i in range(n):
        for j in range(n):
            if i == j:
                continue
            if kind == "chain":
                d[i, j] = 1 + abs(i - j)
            elif kind == "mod":
                d[i, j] = 1 + ((i * j + i + j) % 3) * 0.5
            elif kind == "zero":
                d[i, j] = 0.0
            elif kind == "zero_one":
                d[i, j] = float((min(i, j) + max(i, j) * 2) % 2)
            elif kind == "last_pair_wins":
                d[i, j] = 5.0 - (min(i, j) + max(i, j)) * 0.5
            elif kind == "huge":
                d[i, j] = 1e30 * (1 + abs(i - j))
            elif kind == "nan":
                d[i, j] = float("nan")
            else:
                d[i, j] = 1.0
    return d


def guide_trees(n):
    """nested tuples; binary topologies (+ mirrored embedding) and non-binary trees"""
    tops = M.binary_topologies(list(range(n)))
    out = []
    for t in tops:
        out.append(t)
        mt = M.mirror(t)
        if mt != t:
            out.append(mt)
    if n >= 3:
        out.append(tuple(range(n)))
        out.append(tuple(range(n - 1, -1, -1)))
    if n == 4:
        out += [((0, 1, 2), 3), (0, (3, 1, 2)), ((0, 2), 1, 3)]
    if n == 5:
        out += [((0, 1, 2), (3, 4)), ((4, 0), 1, (2, 3)), (0, (1, 2, 3, 4))]
    return out


def build_tree(t):
    from biotite.sequence.phylo import Tree, TreeNode

    def node(x, depth):
        if isinstance(x, int):
            return TreeNode(index=x)
        ch = [node(c, depth + 1) for c in x]
        return TreeNode(ch, [1.0 + 0.5 * k for k in range(len(ch))])

    return Tree(node(_as_tuple(t), 0))


def _as_tuple(t):
    if isinstance(t, list):
        return tuple(_as_tuple(c) for c in t)
    return t


def walk_leaves(tree):
    out = []
    stack = [tree.root]
    inner_ok = True
    while stack:
        nd = stack.pop()
        if nd.is_leaf():
            out.append(int(nd.index))
        else:
            if len(nd.children) != 2:
                inner_ok = False
            stack.extend(nd.children)
    return out, inner_ok


def msa_input_class(words):
    pairs = list(itertools.combinations(words, 2))
    ident = any(a == b for a, b in pairs)
    unrel = any(not (set(a) & set(b)) for a, b in pairs)
    if ident and unrel:
        return "identical+unrelated"
    if ident:
        return "identical"
    if unrel:
        return "unrelated"
    return "related"


FAIL_MODES = {"zero_den": "ZeroDivisionError", "eq": "ValueError_infinite_distance", "lt": "ValueError_random_better"}


def check_msa(ctx, case):
    import biotite.sequence.align as balign

    e = env(case["pal"])
    words = case["words"]
    seqs = [e.letters(w) for w in words]
    n = len(seqs)
    gap = tuple(case["gap"]) if isinstance(case["gap"], list) else case["gap"]
    tp = case["tp"]
    dist = dist_matrix(case["dist"], n) if case.get("dist") else None
    dist_before = None if dist is None else dist.copy()
    tree_t = _as_tuple(case["tree"]) if case.get("tree") is not None else None
    tree = build_tree(tree_t) if tree_t is not None else None
    tree_before = tree.to_newick() if tree is not None else None
    if case.get("share"):
        # identical inputs are the same object, as in align_multiple([s, s, t], ...)
        pool = {}
        objs = [pool.setdefault(s, e.fresh(s)) for s in seqs]
    else:
        objs = [e.fresh(s) for s in seqs]
    icls = msa_input_class(words)
    nontrivial = icls != "related" or len({len(w) for w in words}) > 1
    ctx.ev(1, 1 if nontrivial else 0)
    mode = "default" if dist is None and tree is None else "+".join(
        x for x in ("distances" if dist is not None else "", "tree" if tree is not None else "") if x)
    kw = {"gap_penalty": gap, "terminal_penalty": tp}
    if dist is not None:
        kw["distances"] = dist
    if tree is not None:
        kw["guide_tree"] = tree
    r = call(balign.align_multiple, objs, e.mmat, **kw)
    if r[0] != "ok":
        ctx.count("msa_failed")
        if r[1] == "ZeroDivisionError":
            fm = "zero_den"
        elif r[1] == "ValueError" and r[2].startswith("Distance matrix contains infinity"):
            fm = "eq"
        elif r[1] == "ValueError" and r[2].startswith("The randomized alignment"):
            fm = "lt"
        else:
            fm = None
        if dist is not None:
            ctx.violation("align_multiple|raises_%s|supplied_distances" % r[1],
                          "align_multiple failed although distances were supplied: %s" % r[2], case, "alignment", list(r))
            return
        st = set()
        for a, b in itertools.combinations(seqs, 2):
            st |= M.fd_statuses(a, b, e.sub_msa, gap, tp, e.fd_cache)
        if fm is not None and fm in st:
            ctx.count("msa_failed_" + icls)
            ctx.violation("align_multiple|%s|fd_distance_degenerate" % FAIL_MODES[fm],
                          "align_multiple cannot align these inputs: %s: %s" % (r[1], r[2]), case,
                          "an alignment with one row per input", list(r))
        else:
            ctx.violation("align_multiple|%s|%s" % (FAIL_MODES.get(fm, "raises_" + r[1]),
                                                    "fd_distance_regular" if st == {"regular"} else "fd_class_mismatch"),
                          "align_multiple failed on inputs whose documented distances are fine (%s): %s: %s"
                          % (sorted(st), r[1], r[2]), case, "an alignment with one row per input", list(r))
        return
    ctx.count("msa_ok")
    ctx.count("msa_ok_" + icls)
    res = r[1]

    def bad(modev, what, exp=None, obs=None):
        ctx.violation("align_multiple|%s|%s_n%d" % (modev, mode, n), what, case, exp, obs)

    if not isinstance(res, tuple) or len(res) != 4:
        bad("result_shape", "result is no 4-tuple", 4, repr(res)[:100])
        return
    aln, order, rtree, rdist = res
    if not isinstance(aln, balign.Alignment):
        bad("result_shape", "first element is no Alignment", None, type(aln).__name__)
        return
    t = obs_trace(aln.trace, n)
    if isinstance(t, str):
        bad("malformed_trace", "trace is no (columns x %d) integer array: %s" % (n, t), n, t)
        return
    if aln.sequences is objs:
        bad("returns_input_list", "the returned alignment holds the caller's list of sequences itself")
    ctx.count("msa_rows_are_input_objects" if any(a is o for a, o in zip(aln.sequences, objs)) else "msa_rows_are_copies")
    got_seqs = [str(s) for s in aln.sequences]
    if len(got_seqs) != n:
        bad("row_count", "not one row per input", n, len(got_seqs))
        return
    if got_seqs != seqs:
        bad("rows_not_in_input_order" if sorted(got_seqs) == sorted(seqs) else "sequences_changed",
            "alignment.sequences differ from the inputs", seqs, got_seqs)
        return
    p = M.trace_problem(t, n, [len(s) for s in seqs])
    if p is not None:
        bad("invalid_" + p, "trace violates the validity predicate", None, [list(c) for c in t])
        return
    for i in range(n):
        col = [c[i] for c in t if c[i] != M.GAP]
        if col != list(range(len(seqs[i]))):
            bad("row_incomplete", "gap-stripped row %d is not input %d" % (i, i), list(range(len(seqs[i]))), col)
            return
    g = aln.get_gapped_sequences()
    if [x.replace("-", "") for x in g] != seqs:
        bad("gapped_rows_mismatch", "gap-stripped gapped strings differ from the inputs", seqs, g)
        return
    ctx.outcome(("msa", tuple(g)))
    back = call(balign.Alignment.trace_from_strings, g)
    if back[0] != "ok" or obs_trace(back[1], n) != t:
        bad("gapped_round_trip", "trace_from_strings(gapped rows) does not give the trace back",
            [list(c) for c in t], repr(back)[:200])
    o = np.asarray(order)
    if o.ndim != 1 or o.dtype.kind not in "iu" or sorted(int(x) for x in o.tolist()) != list(range(n)):
        bad("order_not_a_permutation", "order is no permutation of the inputs", list(range(n)), repr(order))
    leaves, binary = (None, None)
    try:
        leaves, binary = walk_leaves(rtree)
    except Exception as ex:  # noqa: BLE001
        bad("tree_unreadable", "returned tree cannot be walked: %r" % ex)
    if leaves is not None and sorted(leaves) != list(range(n)):
        bad("tree_leaves", "guide tree does not contain every sequence exactly once", list(range(n)), sorted(leaves))
    if tree is not None:
        if tree.to_newick() != tree_before:
            bad("guide_tree_mutated", "the supplied guide tree was changed", tree_before, tree.to_newick())
        if M.is_binary(tree_t) and leaves is not None:
            same = call(lambda: rtree == build_tree(tree_t))
            if same[0] != "ok" or not same[1]:
                bad("tree_not_the_supplied_one", "returned tree differs from the supplied binary guide tree",
                    tree_before, call(rtree.to_newick))
    if dist is not None:
        if not np.array_equal(dist, dist_before, equal_nan=True):
            bad("distances_mutated", "the supplied distance matrix was changed", dist_before.tolist(), dist.tolist())
        rd = np.asarray(rdist)
        if rd.shape != (n, n) or not np.allclose(rd, dist_before, rtol=1e-6, atol=0, equal_nan=True):
            bad("distances_not_the_supplied_ones", "returned distance matrix differs from the supplied one",
                dist_before.tolist(), rd.tolist())
    else:
        rd = np.asarray(rdist)
        if rd.shape != (n, n):
            bad("distance_shape", "returned distance matrix is not (n x n)", [n, n], list(rd.shape))
    if [str(x) for x in objs] != seqs:
        bad("inputs_mutated", "input sequences were changed", seqs, [str(x) for x in objs])


def msa_tuples(spec):
    """sequence-word tuples of one msa shard spec"""
    words = [w for w in SEQ_WORDS if len(w) <= spec.get("maxlen", 3)]
    if spec.get("fourwords"):
        words = ["a", "b", "ab", "ba"]
    n = spec["n"]
    if spec["sel"] == "ordered":
        return itertools.product(words, repeat=n)
    if spec["sel"] == "multiset":
        return itertools.combinations_with_replacement(words, n)
    if spec["sel"] == "multiset_orders":
        orders = ORDERS4 if n == 4 else ORDERS5

        def gen():
            for ms in itertools.combinations_with_replacement(words, n):
                seen = set()
                for o in orders:
                    tup = tuple(ms[i] for i in o)
                    if tup not in seen:
                        seen.add(tup)
                        yield tup
        return gen()
    raise ValueError(spec)


def run_msa(shard, ctx):
    pi = shard["pal"]
    part, parts = shard["part"], shard["parts"]
    n = shard["n"]
    if shard["mode"] == "default":
        variants = [(None, None)]
    elif shard["mode"] == "distances":
        variants = [(k, None) for k in DIST_KINDS]
    else:
        trees = guide_trees(n)
        variants = [(None if i % 2 else DIST_KINDS[(i // 2) % 3], t) for i, t in enumerate(trees)] \
            + [(DIST_KINDS[i % 3] if i % 2 else None, t) for i, t in enumerate(trees)]
        if shard.get("tree_half"):
            variants = variants[: len(trees)]
    gaps = MSA_GAPS if not shard.get("two_gaps") else [MSA_GAPS[0], MSA_GAPS[2]]
    idx = -1
    for tup in msa_tuples(shard):
        idx += 1
        if idx % parts != part:
            continue
        for gap in gaps:
            for tp in (True, False):
                for dk, tr in variants:
                    case = {"kind": "msa", "pal": pi, "words": list(tup), "gap": gap, "tp": tp, "dist": dk, "tree": tr,
                            "share": shard["mode"] != "default"}
                    if not ctx.journal(json.dumps(case)):
                        continue
                    check_msa(ctx, case)
        if len(ctx.samples) < 1 and idx % 211 == 5:
            ctx.sample({"msa_words": list(tup)})



# ---------------------------------------------------------------------------
# audit families: long traces, array flavours, argument flavours, many rows, reuse / error paths, alphabet sizes
# ---------------------------------------------------------------------------
LONG_LENGTHS = (9, 10, 11, 69, 70, 71, 79, 80, 81, 99, 100, 101, 140, 141, 160, 161)


def long_traces(total):
    """listed two-row traces with `total` columns: (name, reference length, segment length, trace)"""
    out = []
    out.append(("diagonal", total, total, tuple((i, i) for i in range(total))))
    # reference offset 10, segment clips 12 / 10, a deletion run and an insertion run of >= 10 columns
    body = []
    r, q = 10, 12
    runs = max(total - 21, 2)
    a = runs // 3
    for _ in range(a):
        body.append((r, q)); r += 1; q += 1
    for _ in range(10):
        body.append((r, -1)); r += 1
    for _ in range(runs - 2 * a):
        body.append((r, q)); r += 1; q += 1
    for _ in range(11):
        body.append((-1, q)); q += 1
    for _ in range(a):
        body.append((r, q)); r += 1; q += 1
    out.append(("gapped_clipped", r + 3, q + 10, tuple(body)))
    # terminal gaps of >= 10 columns on both sides
    body = [(i, -1) for i in range(10)] + [(10 + i, i) for i in range(max(total - 21, 1))]
    k = max(total - 21, 1)
    body += [(-1, k + i) for i in range(11)]
    out.append(("terminal_runs", 10 + k, k + 11, tuple(body)))
    # isolated single-column gaps between runs of >= 2 pairs (a hyphen between letters)
    body, r, q = [], 0, 0
    for c in range(total):
        if c % 7 == 3:
            body.append((r, -1)); r += 1
        elif c % 11 == 6:
            body.append((-1, q)); q += 1
        else:
            body.append((r, q)); r += 1; q += 1
    out.append(("single_gaps", r, q, tuple(body)))
    return out


def run_long(shard, ctx):
    e = env(shard["pal"])
    for total in LONG_LENGTHS:
        for name, n_ref, n_seg, t in long_traces(total):
            ref = e.letters("".join("ab"[(i * i + i // 3) % 2] for i in range(n_ref)))
            seg = e.letters("".join("ba"[(i + i // 2) % 2] for i in range(n_seg)))
            if not ctx.journal(json.dumps({"kind": "conv", "pal": e.pi, "seqs": [ref, seg], "trace": t})):
                continue
            ctx.count("long_traces")
            b = Bat(ctx, e, (ref, seg), t)
            part_views(b)
            part_terminal(b)
            part_identity(b)
            part_score(b)
            part_fasta(b)
            part_cigar(b, (True, False))
            b.done()


def run_flavour(shard, ctx):
    """every trace of the listed lengths as int32 / int16 / Fortran / strided / read-only array (one letter
    assignment), and - for the 300-symbol alphabet - every letter assignment with the plain array"""
    e = env(shard["pal"])
    lens = tuple(shard["lens"])
    total = sum(lens)
    word = "".join("ab"[(i + i // 3) % 2] for i in range(total))
    seqs, p = [], 0
    for n in lens:
        seqs.append(e.letters(word[p: p + n]))
        p += n
    allwords = [[e.letters(w) for w in ws] for ws in letter_words(lens)] if e.p["type"] == "gen" else []
    for ranges, t in structures(lens):
        ctx.count("structures")
        for fl in TRACE_FLAVOURS:
            if not ctx.journal(json.dumps({"kind": "conv", "pal": e.pi, "seqs": seqs, "trace": t, "flavour": fl})):
                continue
            run_battery(ctx, e, seqs, t, ctx.tier, getitem=False, flavour=fl)
        if ctx.journal(json.dumps({"kind": "argflav", "pal": e.pi, "seqs": seqs, "trace": t})):
            check_arg_flavours(ctx, e, seqs, t)
        for k, ws in enumerate(allwords):
            if ctx.journal(json.dumps({"kind": "conv", "pal": e.pi, "seqs": ws, "trace": t})):
                run_battery(ctx, e, ws, t, ctx.tier, struct_level=k == 0, getitem=False)


def check_arg_flavours(ctx, e, seqs, trace):
    """the same call with another flavour of an argument must give the same (model) result and leave the
    argument unchanged"""
    import biotite.sequence.align as balign
    from biotite.sequence.io import fasta

    b = Bat(ctx, e, seqs, trace)
    b.case["kind"] = "argflav"
    n, m = b.n, len(b.trace)
    # --- score: gap penalty as numpy integer / list / tuple of numpy integers
    mat, sub = (e.cmat_asym, e.sub_asym) if n == 2 else (e.cmat_sym, e.sub_sym)
    for name, gap, g in (("npint", np.int64(-3), -3), ("list", [-5, -1], (-5, -1)),
                         ("nptuple", (np.int64(-5), np.int32(-1)), (-5, -1))):
        exp = M.score_values(b.seqs, b.trace, sub, g, True)
        r = call(balign.score, b.aln, mat, gap, True)
        b.evs += 1
        if r[0] != "ok":
            b.bad("score", "raises_%s_gap_%s" % (r[1], name), r[2], sorted(exp), list(r))
        elif fnum(r[1]) not in {float(x) for x in exp}:
            b.bad("score", "mismatch_gap_" + name, "score depends on the flavour of the gap penalty", sorted(exp), fnum(r[1]))
    # --- indexing with other array flavours
    if m:
        ar = np.arange(m)
        bits = np.array([i % 2 == 0 for i in range(m)])
        strided = np.zeros(2 * m, dtype=bool)
        strided[::2] = bits
        ro = bits.copy()
        ro.setflags(write=False)
        idx8 = np.array([i for i in range(m) if i % 2 == 0], dtype=np.uint8)
        for name, index in (("strided_mask", strided[::2]), ("readonly_mask", ro), ("uint8_array", idx8),
                            ("range", range(0, m, 2)), ("int16_array_rows", (slice(None), np.arange(n, dtype=np.int16)[::-1]))):
            if isinstance(index, tuple):
                cpos, rpos = list(range(m)), list(range(n - 1, -1, -1))
            else:
                cpos, rpos = [int(x) for x in ar[bits]], list(range(n))
            try:
                res = ("ok", b.aln[index])
            except Exception as ex:  # noqa: BLE001
                res = ("exc", type(ex).__name__, str(ex)[:200])
            if name == "range" and res[0] != "ok":
                b.evs += 1
                ctx.count("unspecified")
                continue
            check_result_alignment(b, "Alignment.__getitem__", res, M.index_trace(b.trace, n, cpos, rpos),
                                   [b.seqs[r] for r in rpos], {"index": name}, mode_prefix=name + "_", cls="%drow" % n)
    # --- trace_from_strings / FASTA names as tuple, ndarray
    g = M.gapped_strings(b.seqs, b.trace)
    if m and n >= 2:
        r = call(balign.Alignment.trace_from_strings, tuple(g))
        b.evs += 1
        if r[0] != "ok" or obs_trace(r[1], n) != M.rebased(b.trace, n):
            b.bad("trace_from_strings", "tuple_argument", "a tuple of strings is not read like a list", None, repr(r)[:200])
    if m and e.p["type"] != "gen":
        for name, names in (("tuple", tuple("s%d" % i for i in range(n))), ("ndarray", np.array(["s%d" % i for i in range(n)]))):
            keep = list(names)
            f = fasta.FastaFile()
            r = call(fasta.set_alignment, f, b.aln, names)
            b.evs += 1
            if r[0] != "ok":
                b.bad("fasta.set_alignment", "raises_%s_names_%s" % (r[1], name), r[2])
            elif [(str(h), v) for h, v in f.items()] != list(zip(["s%d" % i for i in range(n)], g)) or list(names) != keep:
                b.bad("fasta.set_alignment", "names_" + name, "entries differ for another flavour of the names",
                      list(zip(keep, g)), list(f.items()))
    # --- CIGAR writer: introns / indices in other flavours; reader: operations and position in other flavours
    for ri, si in itertools.permutations(range(n), 2):
        pair_cols = tuple((c[ri], c[si]) for c in b.trace)
        base = M.cigar_expected(pair_cols, b.seqs[ri], b.seqs[si], include_terminal_gaps=True)
        if base["status"] != "ok":
            continue
        runs = M.deletion_runs(base["columns"])
        exp = M.cigar_expected(pair_cols, b.seqs[ri], b.seqs[si], tuple(runs), False, False, True)
        variants = [("np_indices", [tuple(x) for x in runs], np.int64(ri), np.int32(si))]
        if runs:
            arr_in = np.array(runs, dtype=np.int32)
            variants.append(("ndarray_introns", arr_in, ri, si))
            variants.append(("nested_list_introns", [list(x) for x in runs], ri, si))
            variants.append(("tuple_introns", tuple(tuple(x) for x in runs), ri, si))
        written = None
        for name, introns, r_i, s_i in variants:
            keep = np.array(introns).copy() if len(introns) else None
            r = call(balign.write_alignment_to_cigar, b.aln, reference_index=r_i, segment_index=s_i, introns=introns,
                     include_terminal_gaps=True)
            b.evs += 1
            if r[0] != "ok":
                b.bad("write_alignment_to_cigar", "raises_%s_%s" % (r[1], name), r[2], exp["expanded"], list(r))
                continue
            try:
                dec = decode_written(r[1], True)
            except (ValueError, KeyError) as ex:
                dec = "undecodable: %s" % ex
            if dec != exp["expanded"]:
                b.bad("write_alignment_to_cigar", "mismatch_" + name, "CIGAR depends on the flavour of an argument",
                      exp["expanded"], dec)
                continue
            if keep is not None and not np.array_equal(np.array(introns), keep):
                b.bad("write_alignment_to_cigar", "argument_mutated_" + name, "the introns argument was changed")
            written = r[1]
        if written is None:
            continue
        ops = M.cigar_parse(written)
        base_arr = np.array([[M.OP_CODE[o], k] for o, k in ops], dtype=np.int64)
        strided = np.zeros((2 * len(ops), 2), dtype=np.int64)
        strided[::2] = base_arr
        ro = base_arr.copy()
        ro.setflags(write=False)
        forms = [("int32", base_arr.astype(np.int32)), ("uint8", base_arr.astype(np.uint8)),
                 ("fortran", np.asfortranarray(base_arr)), ("strided", strided[::2]), ("readonly", ro),
                 ("nested_list", base_arr.tolist()),
                 ("enum_tuples", [(balign.CigarOp(int(o)), int(k)) for o, k in base_arr.tolist()])]
        robj, sobj = b.sobj[ri], e.seq(exp["stored_seg"])
        for name, arg in forms:
            keep = np.array(arg).copy()
            for pname, pos in (("int", exp["position"]), ("np.int64", np.int64(exp["position"])),
                               ("np.uint8", np.uint8(exp["position"]))):
                rr = call(balign.read_alignment_from_cigar, arg, pos, robj, sobj)
                check_result_alignment(b, "read_alignment_from_cigar", rr, exp["read_cols"], [b.seqs[ri], exp["stored_seg"]],
                                       {"form": name, "position": pname}, mode_prefix="%s_%s_" % (name, pname.replace(".", "")),
                                       cls="%drow_argument_flavour" % n)
            if not np.array_equal(np.array(arg), keep):
                b.bad("read_alignment_from_cigar", "argument_mutated_" + name, "the operation array was changed")
    # --- aliasing of the constructor argument (unspecified: counted)
    arr = b.arr.copy()
    a2 = balign.Alignment(list(b.sobj), arr)
    ctx.count("unspecified")
    ctx.count("constructor_keeps_reference_to_trace_argument" if a2.trace is arr else "constructor_copies_trace_argument")
    b.intact("argument_flavours")
    b.done()


def many_words(n):
    return [SEQ_WORDS[(5 * i + 3) % len(SEQ_WORDS)] for i in range(n)]


def caterpillar(n, reverse=False):
    order = list(range(n))
    if reverse:
        order.reverse()
    t = order[0]
    for x in order[1:]:
        t = (t, x)
    return t


def balanced(items):
    if len(items) == 1:
        return items[0]
    mid = len(items) // 2
    return (balanced(items[:mid]), balanced(items[mid:]))


def run_many(shard, ctx):
    """MSAs of 9, 10, 11 sequences (index width changes); the result goes through the conversion battery"""
    import biotite.sequence.align as balign

    e = env(shard["pal"])
    for n in (9, 10, 11):
        words = many_words(n)
        trees = [None, caterpillar(n), caterpillar(n, True), balanced(list(range(n))), tuple(range(n))]
        for gap in (MSA_GAPS[1], MSA_GAPS[2]):
            for tp in (True, False):
                for ti, tr in enumerate(trees):
                    case = {"kind": "msa", "pal": e.pi, "words": words, "gap": gap, "tp": tp,
                            "dist": (None if ti % 2 == 0 else "chain"), "tree": tr, "share": True}
                    if ctx.journal(json.dumps(case)):
                        check_msa(ctx, case)
        # the 11-row (and 9, 10) alignment itself: battery
        seqs = [e.letters(w) for w in words]
        r = call(balign.align_multiple, [e.seq(x) for x in seqs], e.mmat, gap_penalty=-2)
        if r[0] != "ok":
            continue
        t = obs_trace(r[1][0].trace, n)
        if isinstance(t, str) or M.trace_problem(t, n) is not None:
            continue   # reported by check_msa above
        if ctx.journal(json.dumps({"kind": "conv", "pal": e.pi, "seqs": seqs, "trace": t})):
            b = Bat(ctx, e, seqs, t)
            b.aln = r[1][0]
            part_views(b)
            part_terminal(b)
            part_identity(b)
            part_score(b)
            part_fasta(b)
            b.done()
            ctx.count("many_row_alignments")


REUSE_CASES = ("fasta_other_size", "alignment_rebound_trace", "msa_other_count", "fasta_second_alignment", "fasta_refused_then_valid", "msa_twice_same_objects", "msa_refused_then_valid",
               "cigar_refused_then_valid", "matrix_unchanged")


def check_reuse(ctx, e, which):
    """second use of an object / use after a documented refusal == use of a fresh object"""
    import biotite.sequence.align as balign
    from biotite.sequence.io import fasta

    case = {"kind": "reuse", "pal": e.pi, "which": which}
    ctx.ev(1, 1)

    def bad(mode, what, exp=None, obs=None):
        ctx.violation("reuse|%s|%s" % (which, mode), what, case, exp, obs)

    s1, s2, s3 = e.letters("aab"), e.letters("ab"), e.letters("bab")
    a1 = balign.Alignment([e.seq(s1), e.seq(s2)], np.array([[0, -1], [1, 0], [2, 1]]))
    a2 = balign.Alignment([e.seq(s3), e.seq(s2)], np.array([[0, -1], [1, 0], [2, 1]]))
    names = ["x", "y"]

    def fasta_entries(aln, f=None):
        f = f if f is not None else fasta.FastaFile()
        fasta.set_alignment(f, aln, names)
        buf = io.StringIO()
        f.write(buf)
        return list(f.items()), buf.getvalue(), f

    if which == "fasta_other_size":
        # the same file takes alignments of 3, 100 (several lines per row), 3, 161, 9 columns, serialised and read
        # back after every step: always equal to a fresh file
        def mk(total):
            t = tuple((i, i) if i % 5 else (i, -1) for i in range(total))
            ref = e.letters("".join("ab"[(i * i + i // 3) % 2] for i in range(total)))
            seg = e.letters("".join("ba"[(i + i // 2) % 2] for i in range(sum(1 for c in t if c[1] != -1))))
            t2, q = [], 0
            for a_, b_ in t:
                if b_ == -1:
                    t2.append((a_, -1))
                else:
                    t2.append((a_, q)); q += 1
            return balign.Alignment([e.seq(ref), e.seq(seg)], np.array(t2)), tuple(t2), [ref, seg]
        f = fasta.FastaFile()
        for total in (3, 100, 3, 161, 9, 80, 81):
            aln, t, sq = mk(total)
            fresh = fasta_entries(aln)
            again = fasta_entries(aln, f)
            if again[:2] != fresh[:2]:
                bad("differs_from_fresh", "file re-used for %d columns differs from a fresh file" % total, fresh[1][:200], again[1][:200])
                break
            back = call(lambda: fasta.get_alignment(fasta.FastaFile.read(io.StringIO(again[1])), seq_type=e.cls))
            back2 = call(fasta.get_alignment, f, seq_type=e.cls)
            for bk in (back, back2):
                if bk[0] != "ok" or obs_trace(bk[1].trace, 2) != t or [str(x) for x in bk[1].sequences] != sq:
                    bad("read_back", "alignment of %d columns read from the re-used file differs" % total, None, repr(bk)[:200])
    elif which == "alignment_rebound_trace":
        # 'all attributes are publicly accessible': the same Alignment object gets traces of other lengths
        sq = [e.letters("abab"), e.letters("bab")]
        aln = balign.Alignment([e.seq(x) for x in sq], np.zeros((0, 2), dtype=int))
        for t in (((0, 0), (1, 1)), ((0, -1), (1, 0), (2, 1), (3, 2)), ((1, 0),), ((0, 0), (1, -1), (2, 1), (-1, 2)), ()):
            str(aln); len(aln); aln.get_gapped_sequences(); balign.get_codes(aln)
            aln.trace = np.array(t, dtype=int).reshape(len(t), 2)
            got = (aln.get_gapped_sequences(), balign.get_codes(aln).tolist(), len(aln),
                   balign.remove_gaps(aln).trace.tolist(), balign.get_symbols(aln))
            want = (M.gapped_strings(sq, t), M.code_rows(sq, t, e.code_of), len(t),
                    [list(c) for c in M.without_gap_columns(t)], M.symbol_rows(sq, t))
            if got != want:
                bad("stale_after_rebinding", "alignment with a re-bound trace of %d columns differs from the model" % len(t), want, got)
                break
    elif which == "msa_other_count":
        pool = [e.fresh(x) for x in (s1, s2, s3, s2, s1)]
        for idxs in ((0, 1, 2), (0, 1, 2, 3, 4), (1, 2), (3, 0, 4, 2), (0, 1, 2)):
            objs = [pool[i] for i in idxs]
            texts = [str(o) for o in objs]
            got = balign.align_multiple(objs, e.mmat, gap_penalty=-2)
            ref = balign.align_multiple([e.fresh(x) for x in texts], e.mmat, gap_penalty=-2)
            if (got[0].get_gapped_sequences(), got[1].tolist()) != (ref[0].get_gapped_sequences(), ref[1].tolist()):
                bad("differs_from_fresh", "align_multiple on re-used objects (%d sequences) differs from fresh objects" % len(idxs),
                    ref[0].get_gapped_sequences(), got[0].get_gapped_sequences())
                break
            if [str(o) for o in pool] != [s1, s2, s3, s2, s1]:
                bad("inputs_mutated", "pooled input sequences changed")
                break
    elif which == "fasta_second_alignment":
        fresh = fasta_entries(a2)
        _, _, f = fasta_entries(a1)
        again = fasta_entries(a2, f)
        if again[:2] != fresh[:2]:
            bad("differs_from_fresh", "second set_alignment on the same file differs from a fresh file", fresh[:2], again[:2])
        back = call(fasta.get_alignment, f, seq_type=e.cls)
        if back[0] != "ok" or obs_trace(back[1].trace, 2) != ((0, -1), (1, 0), (2, 1)) or [str(x) for x in back[1].sequences] != [s3, s2]:
            bad("read_back", "alignment read from the re-used file differs", [s3, s2], repr(back)[:200])
    elif which == "fasta_refused_then_valid":
        f = fasta.FastaFile()
        r = call(fasta.set_alignment, f, a1, ["only_one"])
        if r[0] == "ok":
            bad("not_refused", "wrong number of names accepted")
        if len(f) != 0:
            bad("state_after_refusal", "a refused set_alignment left entries in the file", [], list(f.items()))
        fresh = fasta_entries(a1)
        again = fasta_entries(a1, f)
        if again[:2] != fresh[:2]:
            bad("differs_from_fresh", "valid call after a refusal differs from a fresh file", fresh[:2], again[:2])
    elif which in ("msa_twice_same_objects", "msa_refused_then_valid", "matrix_unchanged"):
        objs = [e.fresh(x) for x in (s1, s2, s3, s2)]
        ref = balign.align_multiple([e.fresh(x) for x in (s1, s2, s3, s2)], e.mmat, gap_penalty=-2)
        want = (ref[0].get_gapped_sequences(), ref[1].tolist())
        mat_before = e.mmat.score_matrix().copy()
        if which == "msa_refused_then_valid":
            k = len(e.alphabet)
            asym = e.mmat.score_matrix().copy()
            asym[0, 1] += 1
            r = call(balign.align_multiple, objs, balign.SubstitutionMatrix(e.alphabet, e.alphabet, asym), gap_penalty=-2)
            if r[0] == "ok":
                bad("not_refused", "asymmetric matrix accepted (documented: must be symmetric)")
            r = call(balign.align_multiple, objs, e.mmat, gap_penalty="x")
            if r[0] == "ok":
                bad("not_refused", "gap penalty of type str accepted")
            if [str(o) for o in objs] != [s1, s2, s3, s2]:
                bad("state_after_refusal", "refused call changed the input sequences", [s1, s2, s3, s2], [str(o) for o in objs])
        first = balign.align_multiple(objs, e.mmat, gap_penalty=-2)
        second = balign.align_multiple(objs, e.mmat, gap_penalty=-2)
        for label, res in (("first", first), ("second", second)):
            got = (res[0].get_gapped_sequences(), res[1].tolist())
            if got != want:
                bad("differs_from_fresh_" + label, "call on re-used objects differs from a call on fresh objects", want, got)
        if not np.array_equal(e.mmat.score_matrix(), mat_before):
            bad("matrix_mutated", "align_multiple changed the substitution matrix")
        sc = balign.score(first[0], e.mmat, -2)
        if not np.array_equal(e.mmat.score_matrix(), mat_before) or sc != balign.score(second[0], e.mmat, -2):
            bad("matrix_mutated_by_score", "score() changed the substitution matrix or depends on earlier calls")
    elif which == "cigar_refused_then_valid":
        r = call(balign.read_alignment_from_cigar, "1M1P1M", 0, e.seq(s1), e.seq(s2))
        if r[0] == "ok":
            bad("not_refused", "padding operation accepted (documented as not implemented)")
        r = call(balign.read_alignment_from_cigar, "1D2M", 0, e.seq(s1), e.seq(s2))
        if r[0] != "ok" or obs_trace(r[1].trace, 2) != ((0, -1), (1, 0), (2, 1)):
            bad("differs_from_fresh", "valid CIGAR after a refused one is read wrongly", None, repr(r)[:200])
        a3 = balign.Alignment([e.seq(s1), e.seq(s2), e.seq(s3)], np.array([[0, -1, -1], [1, 0, 0], [2, 1, 1], [-1, -1, 2]]))
        r = call(balign.write_alignment_to_cigar, a3, 0, 1, include_terminal_gaps=True)   # column 3: gap in both rows
        r2 = call(balign.write_alignment_to_cigar, a3, 0, 2, include_terminal_gaps=True)
        if r2[0] != "ok" or r2[1] != "1D2M1I":
            bad("differs_from_fresh", "valid CIGAR request after an inexpressible one is wrong", "1D2M1I", repr(r2)[:100])
    else:
        raise ValueError(which)


def run_reuse(shard, ctx):
    e = env(shard["pal"])
    for which in REUSE_CASES:
        if ctx.journal(json.dumps({"kind": "reuse", "pal": e.pi, "which": which})):
            check_reuse(ctx, e, which)


EDGE_LENS = ((2, 2), (1, 2), (1, 1, 1), (2, 1, 1), (2,))


def run_edge(shard, ctx):
    """traces without any column, for every letter assignment (the battery classifies what is undefined)"""
    import biotite.sequence.align as balign

    e = env(shard["pal"])
    for lens in EDGE_LENS:
        first = True
        for ws in letter_words(lens):
            seqs = [e.letters(w) for w in ws]
            if ctx.journal(json.dumps({"kind": "conv", "pal": e.pi, "seqs": seqs, "trace": []})):
                run_battery(ctx, e, seqs, (), ctx.tier, struct_level=first)
            first = False
    # an empty CIGAR: exception or an alignment without columns
    for form, arg in (("str", ""), ("array", np.zeros((0, 2), dtype=np.int64)), ("list", [])):
        ctx.ev(1, 1)
        ctx.count("unspecified")
        r = call(balign.read_alignment_from_cigar, arg, 0, e.seq(e.letters("ab")), e.seq(e.letters("b")))
        if r[0] == "ok":
            t = obs_trace(r[1].trace, 2)
            if isinstance(t, str) or len(t):
                ctx.violation("read_alignment_from_cigar|columns_from_empty_cigar|%s" % form, "an empty CIGAR produced columns",
                              {"kind": "edge", "pal": e.pi}, "exception or no columns", t)


ALPHA_SIZES = (254, 255, 256, 257)
ALPHA_INPUTS = ([[0, 1, 2, 3], [0, 1, 3], [-1, 1, 2, 3, -1]], [[5, 5], [5, 5], [5]], [[-1, 0, -1], [0, -1]],
                [[0, 1, 2], [3, 4, 5, 6], [1, 2]])


def check_msa_alpha(ctx, case):
    """align_multiple around the alphabet sizes at which the sequence code type changes (the neutral gap symbol
    needs one more code than the matrix alphabet has symbols)"""
    import biotite.sequence as bseq
    import biotite.sequence.align as balign

    K, Ks = case["matrix_symbols"], case["sequence_symbols"]
    big = bseq.Alphabet(list(range(K)))
    small = big if Ks == K else bseq.Alphabet(list(range(Ks)))
    sc = np.full((K, K), -4, dtype=np.int32)
    np.fill_diagonal(sc, 5)
    mat = balign.SubstitutionMatrix(big, big, sc)
    ins = [[(Ks - 1 if x == -1 else x) for x in row] for row in ALPHA_INPUTS[case["input"]]]
    objs = [bseq.GeneralSequence(small, row) for row in ins]
    n = len(ins)
    kw = {"gap_penalty": -2}
    if case["dist"]:
        kw["distances"] = dist_matrix("chain", n)
    ctx.ev(1, 1)
    # the gap symbol gets the code K: representable in the code type of every sequence?
    fits = all(K <= np.iinfo(o.code.dtype).max for o in objs)
    r = call(balign.align_multiple, objs, mat, **kw)
    if not fits:
        ctx.count("unspecified")
    else:
        ctx.count("accepted")
    cls = "gap_code_fits" if fits else "gap_code_exceeds_code_type"
    if r[0] != "ok":
        ctx.count("msa_alpha_raised")
        if fits:
            ctx.violation("align_multiple|raises_%s|alphabet_%s" % (r[1], cls), r[2], case, "alignment", list(r))
        return
    aln = r[1][0]
    t = obs_trace(aln.trace, n)
    got = [[int(x) for x in s_.symbols] for s_ in aln.sequences]
    if got != ins:
        ctx.violation("align_multiple|sequences_changed|alphabet_%s" % cls, "returned sequences differ from the inputs",
                      case, ins, got)
        return
    if isinstance(t, str) or M.trace_problem(t, n, [len(x) for x in ins]) is not None or any(
            [c[i] for c in t if c[i] != M.GAP] != list(range(len(ins[i]))) for i in range(n)):
        ctx.violation("align_multiple|invalid_trace|alphabet_%s" % cls, "trace is not a valid global MSA trace", case,
                      None, t if isinstance(t, str) else [list(c) for c in t])
        return
    if [[int(x) for x in o.symbols] for o in objs] != ins:
        ctx.violation("align_multiple|inputs_mutated|alphabet_%s" % cls, "inputs changed", case)
    ctx.outcome(("alpha", K, Ks, t))


def run_msa_alpha(shard, ctx):
    combos = [(K, K) for K in ALPHA_SIZES] + [(300, 200), (300, 256), (257, 256)]
    for K, Ks in combos:
        for inp in range(len(ALPHA_INPUTS)):
            for dist in (shard["dist"],):
                if dist is False and inp >= 2 and K not in (256, 300):
                    continue   # default distances cost K^2 interpreter steps per pair: listed subset only
                case = {"kind": "msa_alpha", "matrix_symbols": K, "sequence_symbols": Ks, "input": inp, "dist": dist, "pal": 0}
                if ctx.journal(json.dumps(case)):
                    check_msa_alpha(ctx, case)



# ---------------------------------------------------------------------------
# second audit: derived inputs, value-dependent branches, content of another size
# ---------------------------------------------------------------------------
def battery_on_object(ctx, e, aln, seqs, trace, origin):
    """the alignment OBJECT a library operation handed out goes through the other operations, compared with the
    model of its (seqs, trace)"""
    n = len(seqs)
    b = Bat(ctx, e, seqs, trace)
    b.aln = aln
    b.case = dict(b.case, derived_from=origin)
    t = obs_trace(aln.trace, n)
    if t != b.trace or [e.text(x) for x in aln.sequences] != list(b.seqs):
        b.bad("derived_" + origin.split(":")[0], "differs_from_model", "the derived alignment is not the model's", [list(b.seqs), b.trace],
              [[e.text(x) for x in aln.sequences], t])
        return
    part_views(b)
    part_terminal(b)
    part_result_identity(b)
    part_identity(b)
    part_score(b)
    part_fasta(b)
    if is_contiguous(b.trace, n):
        part_cigar(b, (True, False), all_introns=False)
    b.done()
    ctx.count("derived_objects")


DERIVED_SLICES = (slice(None), slice(1, None), slice(None, -1), slice(None, None, 2), slice(1, None, 2), slice(1, -1))


def run_derived(shard, ctx):
    """op2(op1(x)): every alignment that column/row selection, gap removal, the CIGAR reader, the FASTA reader and
    align_multiple return is itself put through the conversion battery"""
    import biotite.sequence.align as balign
    from biotite.sequence.io import fasta

    e = env(shard["pal"])
    what = shard["what"]
    if what == "index":
        lens = tuple(shard["lens"])
        n = len(lens)
        words = [w for k, w in enumerate(letter_words(lens)) if k in (1, len(list(letter_words(lens))) - 2)] or list(letter_words(lens))[:1]
        for _ranges, t in structures(lens, full_only=shard.get("full_only", False)):
            m = len(t)
            for ws in words:
                seqs = [e.letters(w) for w in ws]
                if not ctx.journal(json.dumps({"kind": "conv", "pal": e.pi, "seqs": seqs, "trace": t, "derived": what})):
                    continue
                src = balign.Alignment([e.seq(x) for x in seqs], np.array(t, dtype=np.int64).reshape(m, n))
                producers = []
                for bits in itertools.product([False, True], repeat=m):
                    if any(bits) and not all(bits):
                        pos = [i for i, x in enumerate(bits) if x]
                        producers.append(("mask:%s" % "".join("01"[x] for x in bits), np.array(bits), pos, None))
                for sl in DERIVED_SLICES:
                    producers.append(("slice:%r" % (sl,), sl, list(range(m))[sl], None))
                rowsels = [list(range(n - 1, -1, -1)), slice(None, None, -1)]
                if n == 3:
                    rowsels += [[0, 2], [2, 0], slice(1, None), np.array([True, False, True])]
                for rs in rowsels:
                    rpos = [int(x) for x in np.arange(n)[rs]]
                    producers.append(("rows:%r" % (rs,), (slice(None), rs), list(range(m)), rpos))
                for name, index, cpos, rpos in producers:
                    d = src[index]
                    rows = rpos if rpos is not None else list(range(n))
                    battery_on_object(ctx, e, d, [seqs[r] for r in rows], M.index_trace(t, n, cpos, rows), name)
                d = balign.remove_gaps(src)
                battery_on_object(ctx, e, d, seqs, M.without_gap_columns(t), "remove_gaps")
                tr = M.terminal_range(t, n)
                if tr is not None and tr[1] > tr[0]:
                    battery_on_object(ctx, e, balign.remove_terminal_gaps(src), seqs, t[tr[0]: tr[1]], "remove_terminal_gaps")
                # FASTA reader result (sequences = covered parts, re-based trace)
                if all(M.covered(seqs, t)) and e.p["type"] != "gen":
                    f = fasta.FastaFile()
                    fasta.set_alignment(f, src, ["s%d" % i for i in range(n)])
                    buf = io.StringIO()
                    f.write(buf)
                    d = fasta.get_alignment(fasta.FastaFile.read(io.StringIO(buf.getvalue())), seq_type=e.cls)
                    battery_on_object(ctx, e, d, M.covered(seqs, t), M.rebased(t, n), "fasta_reader")
    elif what == "cigar":
        part, parts = shard["part"], shard["parts"]
        for idx, w in enumerate(cigar_words(shard["max_ops"])):
            if idx % parts != part or any(k == 11 for _, k in w):
                continue
            for position in (0, 2):
                cols, ref_end, seg_len = M.cigar_interpret(list(w), position)
                if not cols:
                    continue
                ref = e.letters("".join("ab"[(i * i + i // 3) % 2] for i in range(ref_end + 1)))
                seg = e.letters("".join("ba"[(i + i // 2) % 2] for i in range(seg_len)))
                text = "".join("%d%s" % (k, o) for o, k in w)
                if not ctx.journal(json.dumps({"kind": "derived_cigar", "pal": e.pi, "cigar": text, "position": position})):
                    continue
                d = balign.read_alignment_from_cigar(text, position, e.seq(ref), e.seq(seg))
                battery_on_object(ctx, e, d, [ref, seg], cols, "cigar_reader:%s@%d" % (text, position))
    elif what == "msa":
        words6 = [w for w in SEQ_WORDS if len(w) <= 2]
        for n in (2, 3):
            for k, tup in enumerate(itertools.product(words6, repeat=n)):
                seqs = [e.letters(w) for w in tup]
                case = {"kind": "derived_msa", "pal": e.pi, "words": list(tup)}
                if not ctx.journal(json.dumps(case)):
                    continue
                r = call(balign.align_multiple, [e.seq(x) for x in seqs], e.mmat, gap_penalty=(-2 if k % 2 else (-5, -1)))
                if r[0] != "ok":
                    continue   # judged by the msa family
                t = obs_trace(r[1][0].trace, n)
                if isinstance(t, str) or M.trace_problem(t, n) is not None:
                    continue
                battery_on_object(ctx, e, r[1][0], seqs, t, "align_multiple")
    else:
        raise ValueError(shard)


CIGAR_TABLE = (("M", 0), ("I", 1), ("D", 2), ("N", 3), ("S", 4), ("H", 5), ("P", 6), ("=", 7), ("X", 8), ("B", 9))


def run_values(shard, ctx):
    """every value the anchored code treats by value, with every seed: all ten CIGAR operations of the SAM
    specification (symbol <-> BAM code table, reader: eight implemented, P and B refused), and every symbol of the
    nucleotide (ambiguous) and protein alphabets through the letter-dependent conversions"""
    import biotite.sequence as bseq
    import biotite.sequence.align as balign
    from biotite.sequence.io import fasta

    e = env(shard["pal"])
    for sym, code in CIGAR_TABLE:
        ctx.ev(1, 1)
        r1 = call(balign.CigarOp.from_cigar_symbol, sym)
        r2 = call(lambda: balign.CigarOp(code).to_cigar_symbol())
        if r1[0] != "ok" or int(r1[1]) != code or r2[0] != "ok" or r2[1] != sym:
            ctx.violation("CigarOp|symbol_code_table|op_%s" % code, "CIGAR symbol and BAM code do not correspond (SAM spec)",
                          {"kind": "values", "pal": e.pi}, [sym, code], [repr(r1)[:60], repr(r2)[:60]])
        if sym in "PB":
            ctx.count("refused")
            for arg in ("1M1%s1M" % sym, [(0, 1), (code, 1), (0, 1)]):
                r = call(balign.read_alignment_from_cigar, arg, 0, e.seq(e.letters("abab")), e.seq(e.letters("ab")))
                if r[0] == "ok":
                    ctx.violation("read_alignment_from_cigar|accepts_unimplemented|op_%s" % code,
                                  "operation documented as not implemented was accepted", {"kind": "values", "pal": e.pi})
    # every alphabet symbol as a letter
    for typ, cls in (("nuc", bseq.NucleotideSequence), ("prot", bseq.ProteinSequence)):
        full = cls("ACGTN").get_alphabet() if typ == "nuc" else cls("A").get_alphabet()
        code_of = {x: i for i, x in enumerate(full.get_symbols())}
        partner = "A"
        for x in full.get_symbols():
            ctx.ev(1, 1)
            ctx.count("alphabet_symbols")
            s0, s1 = x + partner + x, partner + x
            trace = ((0, -1), (1, 0), (2, 1))
            case = {"kind": "values", "pal": e.pi, "type": typ, "symbol": x}
            aln = balign.Alignment([cls(s0), cls(s1)], np.array(trace))

            def bad(site, what, exp=None, obs=None):
                ctx.violation("%s|wrong_for_symbol|%s_alphabet" % (site, typ), what, case, exp, obs)

            g = call(aln.get_gapped_sequences)
            if g[0] != "ok" or list(g[1]) != [s0, "-" + s1]:
                bad("get_gapped_sequences", "gapped strings wrong", [s0, "-" + s1], repr(g)[:100])
            c = call(balign.get_codes, aln)
            exp_c = [[code_of[x], code_of[partner], code_of[x]], [-1, code_of[partner], code_of[x]]]
            if c[0] != "ok" or c[1].tolist() != exp_c:
                bad("get_codes", "codes wrong", exp_c, repr(c)[:100])
            sy = call(balign.get_symbols, aln)
            if sy[0] != "ok" or [list(r) for r in sy[1]] != [[x, partner, x], [None, partner, x]]:
                bad("get_symbols", "symbols wrong", None, repr(sy)[:100])
            idn = call(balign.get_sequence_identity, aln, "all")
            if idn[0] != "ok" or abs(float(idn[1]) - 2 / 3) > 1e-12:
                bad("get_sequence_identity", "identity wrong", "2/3", repr(idn)[:60])
            cg = call(balign.write_alignment_to_cigar, aln, distinguish_matches=True, include_terminal_gaps=True)
            if cg[0] != "ok" or cg[1] != "1D2=":
                bad("write_alignment_to_cigar", "CIGAR wrong", "1D2=", repr(cg)[:60])
            cg = call(balign.write_alignment_to_cigar, aln, reference_index=1, segment_index=0, distinguish_matches=True)
            if cg[0] != "ok" or cg[1] != "1I2=":
                bad("write_alignment_to_cigar", "CIGAR wrong", "1I2=", repr(cg)[:60])

            def rt(**kw):
                f = fasta.FastaFile()
                fasta.set_alignment(f, aln, ["x", "y"])
                buf = io.StringIO()
                f.write(buf)
                return fasta.get_alignment(fasta.FastaFile.read(io.StringIO(buf.getvalue())), **kw)
            for label, kw in (("typed", {"seq_type": cls}), ("guessed", {})):
                r = call(rt, **kw)
                if label == "guessed" and typ == "prot":
                    # the sequence type is guessed from the letters (documented): only the trace is demanded
                    ctx.count("unspecified")
                    if r[0] == "ok" and obs_trace(r[1].trace, 2) != trace:
                        bad("fasta_round_trip", "trace wrong with guessed sequence type", None, repr(r)[:100])
                    continue
                if r[0] != "ok" or obs_trace(r[1].trace, 2) != trace or [str(q) for q in r[1].sequences] != [s0, s1] \
                        or any(type(q) is not cls for q in r[1].sequences):
                    bad("fasta_round_trip", "FASTA round trip wrong (%s sequence type)" % label, [s0, s1], repr(r)[:160])



# ---------------------------------------------------------------------------
# third audit: operands of another size, ambient state, option precedence, boundaries of the minimum search
# ---------------------------------------------------------------------------
BOUNDARY_DISTS = ("zero", "zero_one", "last_pair_wins", "huge", "nan")


def run_third(shard, ctx):
    import biotite.sequence as bseq
    import biotite.sequence.align as balign
    from biotite.sequence.io import fasta

    e = env(shard["pal"])
    case0 = {"kind": "third", "pal": e.pi}

    def bad(sig, what, exp=None, obs=None, **extra):
        ctx.violation(sig, what, dict(case0, **extra), exp, obs)

    # ---- F: the second operand is LARGER than the first / refers to more than the first has ------------------
    # (a) substitution matrix over a larger alphabet than the sequences use; sequences of different alphabets
    N = bseq.NucleotideSequence
    amb = N("ACGTN").get_alphabet()
    k = len(amb)
    ii, jj = np.meshgrid(np.arange(k), np.arange(k), indexing="ij")
    table = (((ii + jj) * 2 + ii * jj) % 9 - 4).astype(np.int32)
    np.fill_diagonal(table, 5)
    table = np.minimum(table, table.T)
    big = balign.SubstitutionMatrix(amb, amb, table)
    code = {x: i for i, x in enumerate(amb.get_symbols())}

    def sub(x, y):
        return int(table[code[x], code[y]])
    words = ["A", "AC", "ACG", "GC", "ACNT", "NA", "CGT"]
    for s0, s1 in itertools.product(words, repeat=2):
        for t in M.enum_traces(((0, len(s0)), (0, len(s1)))):
            if len(t) > max(len(s0), len(s1)) + 1:
                continue
            ctx.ev(1, 1)
            aln = balign.Alignment([N(s0), N(s1)], np.array(t))
            for gap, tp in ((-3, True), ((-5, -1), False)):
                exp = M.score_values((s0, s1), t, sub, gap, tp)
                r = call(balign.score, aln, big, gap, tp)
                if exp is not None and (r[0] != "ok" or fnum(r[1]) not in {float(v) for v in exp}):
                    bad("score|mismatch|matrix_alphabet_larger_than_sequence_alphabet", "score with a matrix over a larger "
                        "alphabet differs", sorted(exp), repr(r)[:80], seqs=[s0, s1], trace=t)
            cg = call(balign.write_alignment_to_cigar, aln, distinguish_matches=True, include_terminal_gaps=True)
            expc = M.cigar_expected(t, s0, s1, (), True, False, True)
            if expc["status"] == "ok" and (cg[0] != "ok" or M.cigar_expand(M.cigar_parse(cg[1])) != expc["expanded"]):
                bad("write_alignment_to_cigar|mismatch|mixed_alphabets", "'='/'X' wrong for rows of different alphabets",
                    expc["expanded"], repr(cg)[:80], seqs=[s0, s1], trace=t)
    msa_sets = [list(x) for n_ in (2, 3) for x in itertools.product(["AC", "ACNT", "NA", "CGT", "A"], repeat=n_)]
    for tup in msa_sets:
        ctx.ev(1, 1)
        objs = [N(x) for x in tup]
        r = call(balign.align_multiple, objs, big, gap_penalty=-3)
        if r[0] != "ok":
            bad("align_multiple|raises_%s|matrix_alphabet_larger_than_sequence_alphabet" % r[1], r[2], None, None, seqs=tup)
            continue
        aln = r[1][0]
        t = obs_trace(aln.trace, len(tup))
        rows_ok = not isinstance(t, str) and M.trace_problem(t, len(tup), [len(x) for x in tup]) is None and all(
            [c[i] for c in t if c[i] != M.GAP] == list(range(len(tup[i]))) for i in range(len(tup)))
        if [str(x) for x in aln.sequences] != tup or not rows_ok or [str(x) for x in objs] != tup:
            bad("align_multiple|rows_wrong|matrix_alphabet_larger_than_sequence_alphabet", "MSA of sequences with different "
                "alphabets under a larger matrix alphabet is wrong", tup, [[str(x) for x in aln.sequences], t], seqs=tup)
        elif any(a.get_alphabet() != o.get_alphabet() for a, o in zip(aln.sequences, objs)):
            bad("align_multiple|alphabet_changed|matrix_alphabet_larger_than_sequence_alphabet",
                "a returned sequence has another alphabet than its input", None, None, seqs=tup)
    # (b) rows of unequal length handed to the string reader, in both directions (malformed: exception or a valid trace)
    a, b_ = e.a, e.b
    for rows in ([a + b_, a + b_ + a + a], [a + b_ + a + a, a + b_], [a + "-", a + b_ + a], [a + b_ + a, "-" + a],
                 [a, a + b_, a + b_ + a], [a + b_ + a, a + b_, a]):
        ctx.ev(1, 1)
        ctx.count("unspecified")
        r = call(balign.Alignment.trace_from_strings, rows)
        if r[0] == "ok":
            t = obs_trace(r[1], len(rows))
            lens_ = [len(x.replace("-", "")) for x in rows]
            if isinstance(t, str) or M.trace_problem(t, len(rows), lens_) is not None:
                bad("trace_from_strings|invalid_trace|rows_of_unequal_length", "rows of unequal length gave an invalid trace",
                    "exception or a valid trace", t, rows=rows)
        if e.p["type"] != "gen":
            f = fasta.FastaFile()
            for i, x in enumerate(rows):
                f["r%d" % i] = x
            r = call(fasta.get_alignment, f, seq_type=e.cls)
            if r[0] == "ok":
                t = obs_trace(r[1].trace, len(rows))
                if isinstance(t, str) or M.trace_problem(t, len(rows), [len(x) for x in r[1].sequences]) is not None:
                    bad("fasta.get_alignment|invalid_trace|rows_of_unequal_length", "rows of unequal length gave an invalid "
                        "trace", "exception or a valid trace", t, rows=rows)
    # ---- G: ambient numpy state (error mode, print options) must not change any result ------------------------
    lens = (2, 2)
    ws = [e.letters(w) for w in ("ab", "ba")]
    for _r, t in structures(lens):
        if ctx.journal(json.dumps({"kind": "conv", "pal": e.pi, "seqs": ws, "trace": t, "ambient": True})):
            with np.errstate(all="raise"), np.printoptions(threshold=0, edgeitems=1, precision=1):
                run_battery(ctx, e, ws, t, ctx.tier, getitem=False)
    for tup in (("ab", "ab", "ba"), ("a", "bb", "a"), ("aab", "ab", "b", "ab")):
        seqs = [e.letters(w) for w in tup]
        ctx.ev(1, 1)
        plain = balign.align_multiple([e.fresh(x) for x in seqs], e.mmat, gap_penalty=-2)
        with np.errstate(all="raise"), np.printoptions(threshold=0, edgeitems=1, precision=1):
            r = call(balign.align_multiple, [e.fresh(x) for x in seqs], e.mmat, gap_penalty=-2)
        if r[0] != "ok" or r[1][0].get_gapped_sequences() != plain[0].get_gapped_sequences() or r[1][1].tolist() != plain[1].tolist():
            bad("align_multiple|depends_on_numpy_state|errstate_raise", "result differs under np.errstate(all='raise')",
                plain[0].get_gapped_sequences(), repr(r)[:200], seqs=seqs)
    # ---- H: a value that can come from two places -------------------------------------------------------------
    sq = [e.letters("aba"), e.letters("ab")]
    t = ((0, 0), (1, 1), (2, -1))
    for stored in (None, 0, 999, -7):
        ctx.ev(1, 1)
        aln = balign.Alignment([e.seq(x) for x in sq], np.array(t), stored)
        exp = M.score_values(sq, t, e.sub_asym, -3, True)
        r = call(balign.score, aln, e.cmat_asym, -3, True)
        if r[0] != "ok" or fnum(r[1]) not in {float(v) for v in exp}:
            bad("score|stored_score_wins|explicit_computation", "score() must compute from matrix and penalties, whatever "
                "alignment.score holds", sorted(exp), repr(r)[:60], stored=stored)
        if aln.score != stored or aln[1:].score != stored:
            bad("Alignment|stored_score_lost|indexing", "the stored score is not kept", stored, [aln.score, aln[1:].score])
    if e.p["type"] != "gen":
        # explicit additional_gap_chars replace the default ('_'): '_' is then no gap character any more
        for chars, text_gap, must_work in ((("~",), "~", True), ((), "-", True), (("~",), "_", False), ((), "_", False)):
            ctx.ev(1, 1)
            f = fasta.FastaFile()
            f["x"] = sq[0]
            f["y"] = sq[1] + text_gap
            r = call(fasta.get_alignment, f, additional_gap_chars=chars, seq_type=e.cls)
            if must_work:
                if r[0] != "ok" or obs_trace(r[1].trace, 2) != t or [str(x) for x in r[1].sequences] != sq:
                    bad("fasta.get_alignment|explicit_gap_chars_ignored|explicit_vs_default", "explicit additional_gap_chars not "
                        "honoured", [sq, t], repr(r)[:160], chars=list(chars), gap=text_gap)
            else:
                ctx.count("unspecified")
                if r[0] == "ok" and ([str(x) for x in r[1].sequences] != sq or obs_trace(r[1].trace, 2) != t):
                    bad("fasta.get_alignment|garbage|default_gap_char_with_explicit_chars", "'_' with explicit gap characters gave "
                        "neither an error nor the alignment", None, repr(r)[:160], chars=list(chars))
    # ---- I: boundaries of the minimum-distance search in the progressive alignment ---------------------------
    words6 = [w for w in SEQ_WORDS if len(w) <= 2]
    for n in (3, 4):
        trees = [None, caterpillar(n), balanced(list(range(n))), caterpillar(n, True)]
        for k_, ms in enumerate(itertools.combinations_with_replacement(words6, n)):
            for dk in BOUNDARY_DISTS:
                tr = trees[(k_ + len(dk)) % 4]
                if dk == "nan" and tr is None:
                    tr = trees[1]     # NaN distances cannot give a guide tree: only with a supplied tree
                case = {"kind": "msa", "pal": e.pi, "words": list(ms), "gap": MSA_GAPS[1 + k_ % 2], "tp": bool(k_ % 3),
                        "dist": dk, "tree": tr, "share": True}
                if not ctx.journal(json.dumps(case)):
                    continue
                if dk in ("nan", "huge"):
                    # outside 'distances larger than 0' in a sensible range: exception or a correct MSA
                    ctx.count("unspecified")
                    sub_ctx_v = len(ctx.violations)
                    r = call(balign.align_multiple, [e.fresh(e.letters(w)) for w in ms], e.mmat, gap_penalty=-2,
                             distances=dist_matrix(dk, n), **({"guide_tree": build_tree(tr)} if tr is not None else {}))
                    if r[0] != "ok":
                        continue
                check_msa(ctx, case)


# ---------------------------------------------------------------------------
# misuse
# ---------------------------------------------------------------------------
def run_misuse(shard, ctx):
    import biotite.sequence.align as balign
    from biotite.sequence.io import fasta

    e = env(shard["pal"])
    a2 = balign.Alignment([e.seq(e.letters("ab")), e.seq(e.letters("ba"))], np.array([[0, 0], [1, 1]]))
    checks = [
        ("trace_from_strings|accepts_single_row", lambda: balign.Alignment.trace_from_strings([e.letters("ab")])),
        ("trace_from_strings|accepts_no_rows", lambda: balign.Alignment.trace_from_strings([])),
        ("get_sequence_identity|accepts_unknown_mode", lambda: balign.get_sequence_identity(a2, "bogus")),
        ("get_pairwise_sequence_identity|accepts_unknown_mode", lambda: balign.get_pairwise_sequence_identity(a2, "bogus")),
        ("fasta.set_alignment|accepts_wrong_name_count", lambda: fasta.set_alignment(fasta.FastaFile(), a2, ["x"])),
        ("score|accepts_bad_gap_type", lambda: balign.score(a2, e.cmat_sym, "x")),
        ("fasta.set_alignment|accepts_more_names_than_rows", lambda: fasta.set_alignment(fasta.FastaFile(), a2, ["x", "y", "z"])),
    ]
    for sig, fn in checks:
        ctx.ev(1, 1)
        ctx.count("refused")
        r = call(fn)
        if r[0] == "ok":
            ctx.violation(sig + "|documented_refusal", "documented refusal did not happen", {"kind": "misuse", "pal": e.pi,
                          "which": sig}, "exception", repr(r[1])[:100])


# ---------------------------------------------------------------------------
# shards
# ---------------------------------------------------------------------------
def _count_structs(lens, full_only=False, with_empty_trace=False):
    if full_only:
        return M.count_traces(lens)
    return sum(1 for _ in structures(lens, with_empty_trace=with_empty_trace))


def shards(tier, seed):
    q = tier == "quick"
    pi = pal_for(seed)
    allp = list(range(N_SEED_PALETTES))
    out = []

    def fam(lens, pals, target, full_only=False):
        lens = list(lens)
        ns = _count_structs(lens, full_only)
        work = ns * (2 ** sum(lens))
        parts = max(1, min(ns, int(math.ceil(work / target))))
        for p in pals:
            for k in range(parts):
                d = {"kind": "family", "lens": lens, "pal": p, "part": k, "parts": parts}
                if full_only:
                    d["full_only"] = True
                out.append(d)

    pair_small = [(a, b) for a in (1, 2, 3) for b in (1, 2, 3)]
    triple_small = [(1, 1, 1), (2, 1, 1), (1, 2, 1), (1, 1, 2), (2, 2, 1), (2, 1, 2), (1, 2, 2)]
    if q:
        for lens in pair_small:
            fam(lens, [pi], 1500)
        for lens in triple_small:
            fam(lens, [pi], 1200)
    else:
        for lens in pair_small:
            fam(lens, allp, 3000)
        for lens in [(4, 1), (1, 4), (4, 2), (2, 4), (4, 3), (3, 4)]:
            fam(lens, [pi], 3000)
        fam((4, 4), [pi], 2500, full_only=True)
        for lens in triple_small:
            fam(lens, allp, 2500)
        fam((2, 2, 2), [pi], 2500)
    # audit families (see notes/C11.md, dimension audit)
    edge_lens = [(0, 1), (0, 2), (1, 0), (2, 0), (0, 1, 1), (1, 0, 2), (2, 1, 0), (1,), (2,), (3,)]
    for p in ([pi] if q else allp):
        for lens in edge_lens:
            fam(lens, [p], 3000)
        out.append({"kind": "edge", "pal": p})
        out.append({"kind": "long", "pal": p})
        out.append({"kind": "many", "pal": p})
        out.append({"kind": "reuse", "pal": p})
        for lens in ([(2, 2), (2, 1, 1)] if q else [(2, 2), (3, 2), (2, 1, 1), (2, 2, 1)]):
            out.append({"kind": "flavour", "pal": p, "lens": list(lens)})
    for lens in ([(2, 2), (2, 1)] if q else [(2, 2), (2, 1), (1, 2), (3, 2), (1, 1, 1)]):
        out.append({"kind": "flavour", "pal": GEN_PAL, "lens": list(lens)})
    for lens in ([(3, 2), (2, 3)] if q else [(3, 2), (2, 3), (3, 3), (2, 2, 1), (3, 1, 1)]):
        for p in ([pi] if q else allp[:2]):
            parts = 4 if sum(lens) <= 5 else 16
            for k in range(parts):
                out.append({"kind": "skip", "lens": list(lens), "pal": p, "part": k, "parts": parts})
    # second audit
    for p in ([pi] if q else allp):
        out.append({"kind": "values", "pal": p})
        for lens in ([(2, 2)] if q else [(2, 2), (3, 2), (2, 1, 1)]):
            out.append({"kind": "derived", "what": "index", "lens": list(lens), "pal": p})
        # three rows (row subsets keep all-gap columns): end-to-end traces at quick tier
        out.append({"kind": "derived", "what": "index", "lens": [2, 1, 1] if q else [2, 2, 1], "pal": p, "full_only": True})
        cparts = 2 if q else 8
        for k in range(cparts):
            out.append({"kind": "derived", "what": "cigar", "max_ops": 2 if q else 3, "pal": p, "part": k, "parts": cparts})
        out.append({"kind": "derived", "what": "msa", "pal": p})
    # third audit (the same in both tiers)
    for p in ([pi] if q else allp):
        out.append({"kind": "third", "pal": p})
    out.append({"kind": "msa_alpha", "dist": False})
    out.append({"kind": "msa_alpha", "dist": True})
    # cigar reader
    for p in ([pi] if q else allp):
        parts = 4 if q else 16
        for k in range(parts):
            out.append({"kind": "cigar", "pal": p, "max_ops": 3 if q else 4, "part": k, "parts": parts})
    # produced
    for p in ([pi] if q else allp):
        for k in range(8):
            out.append({"kind": "produced", "pal": p, "part": k, "parts": 8})
    # msa
    def msa(n, sel, mode, pals, parts, **kw):
        for p in pals:
            for k in range(parts):
                out.append(dict({"kind": "msa", "n": n, "sel": sel, "mode": mode, "pal": p, "part": k, "parts": parts}, **kw))

    if q:
        msa(2, "ordered", "default", [pi], 1)
        msa(3, "ordered", "default", [pi], 12)
        msa(4, "multiset_orders", "default", [pi], 40)
        msa(2, "multiset", "distances", [pi], 1)
        msa(3, "multiset", "distances", [pi], 4)
        msa(4, "multiset", "distances", [pi], 2, maxlen=2)
        msa(2, "multiset", "tree", [pi], 1)
        msa(3, "multiset", "tree", [pi], 4, maxlen=2)
        msa(4, "multiset", "tree", [pi], 16, maxlen=2, two_gaps=True, tree_half=True)
    else:
        msa(2, "ordered", "default", allp, 1)
        msa(3, "ordered", "default", allp, 8)
        msa(4, "ordered", "default", [pi], 160)
        msa(5, "multiset_orders", "default", [pi], 160)
        msa(2, "multiset", "distances", allp, 1)
        msa(3, "multiset", "distances", allp, 4)
        msa(4, "multiset", "distances", [pi], 32)
        msa(5, "multiset", "distances", [pi], 64, two_gaps=True)
        msa(2, "multiset", "tree", allp, 1)
        msa(3, "multiset", "tree", allp, 8)
        msa(4, "multiset", "tree", [pi], 128, two_gaps=True, tree_half=True)
        msa(5, "multiset", "tree", [pi], 128, maxlen=2, two_gaps=True, tree_half=True)
    out.append({"kind": "misuse", "pal": pi})
    # heaviest first
    weight = {"msa": 0, "family": 1, "produced": 2, "cigar": 3, "misuse": 4, "many": 2, "flavour": 2, "msa_alpha": 1,
              "long": 3, "edge": 3, "reuse": 4, "skip": 2, "derived": 2, "values": 4, "third": 2}
    out.sort(key=lambda s: weight[s["kind"]])
    return out


def run_shard(shard, ctx):
    k = shard["kind"]
    if k == "family":
        run_family(shard, ctx)
    elif k == "cigar":
        run_cigar(shard, ctx)
    elif k == "produced":
        run_produced(shard, ctx)
    elif k == "msa":
        run_msa(shard, ctx)
    elif k == "misuse":
        run_misuse(shard, ctx)
    elif k == "long":
        run_long(shard, ctx)
    elif k == "flavour":
        run_flavour(shard, ctx)
    elif k == "edge":
        run_edge(shard, ctx)
    elif k == "many":
        run_many(shard, ctx)
    elif k == "reuse":
        run_reuse(shard, ctx)
    elif k == "msa_alpha":
        run_msa_alpha(shard, ctx)
    elif k == "skip":
        run_skip(shard, ctx)
    elif k == "derived":
        run_derived(shard, ctx)
    elif k == "values":
        run_values(shard, ctx)
    elif k == "third":
        run_third(shard, ctx)
    else:
        raise ValueError(shard)


def replay(case, ctx):
    if isinstance(case, str):
        case = json.loads(case)
    k = case["kind"]
    e = env(case["pal"])
    if k == "conv" and any(b - a != 1 for r in range(len(case["seqs"])) for a, b in zip(
            *(lambda idx: (idx, idx[1:]))([c[r] for c in case["trace"] if c[r] != M.GAP]))):
        # index-skipping trace (families 'skip', 'derived'): no CIGAR, as in run_skip
        run_battery(ctx, e, case["seqs"], [tuple(c) for c in case["trace"]], ctx.tier, struct_level=True,
                    letter_level=True, cigar_letters=False, cigar_struct=False,
                    getitem=len(case["trace"]) <= 8 and len(case["seqs"]) <= 3)
    elif k == "conv":
        run_battery(ctx, e, case["seqs"], [tuple(c) for c in case["trace"]], ctx.tier,
                    getitem=len(case["trace"]) <= 8 and len(case["seqs"]) <= 3, flavour=case.get("flavour", "int64"))
    elif k == "argflav":
        check_arg_flavours(ctx, e, case["seqs"], [tuple(c) for c in case["trace"]])
    elif k == "values":
        run_values({"pal": case["pal"]}, ctx)
    elif k == "third":
        run_third({"pal": case["pal"]}, ctx)
    elif k == "derived_cigar":
        import biotite.sequence.align as balign
        ops = M.cigar_parse(case["cigar"])
        cols, ref_end, seg_len = M.cigar_interpret(ops, case["position"])
        ref = e.letters("".join("ab"[(i * i + i // 3) % 2] for i in range(ref_end + 1)))
        seg = e.letters("".join("ba"[(i + i // 2) % 2] for i in range(seg_len)))
        battery_on_object(ctx, e, balign.read_alignment_from_cigar(case["cigar"], case["position"], e.seq(ref), e.seq(seg)),
                          [ref, seg], cols, "cigar_reader")
    elif k == "derived_msa":
        import biotite.sequence.align as balign
        seqs = [e.letters(w) for w in case["words"]]
        for gap in (-2, (-5, -1)):
            r = balign.align_multiple([e.seq(x) for x in seqs], e.mmat, gap_penalty=gap)
            battery_on_object(ctx, e, r[0], seqs, obs_trace(r[0].trace, len(seqs)), "align_multiple")
    elif k == "reuse":
        check_reuse(ctx, e, case["which"])
    elif k == "msa_alpha":
        check_msa_alpha(ctx, case)
    elif k == "edge":
        run_edge({"pal": case["pal"]}, ctx)
    elif k == "cigar_read":
        check_cigar_read(ctx, e, [tuple(x) for x in case["ops"]], case["position"], case["tail"])
    elif k == "produced":
        check_produced(ctx, e, case["w1"], case["w2"], case["mode"], case["gap"], ctx.tier)
    elif k == "msa":
        check_msa(ctx, case)
    elif k == "misuse":
        run_misuse({"pal": case["pal"]}, ctx)
    else:
        raise ValueError(case)


def crash_class(case):
    if isinstance(case, str):
        try:
            case = json.loads(case)
        except ValueError:
            return "unclassified"
    if isinstance(case, dict):
        return str(case.get("kind", "unclassified"))
    return "unclassified"
