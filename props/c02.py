"""C02 - a bond list is a set of undirected typed bonds with safe indices.

E1: breadth-first exploration of operation histories on the real BondList
against a dict model, complete observation at every new state; every
out-of-range index leaf is executed in a forked child (E4).
E2: exhaustive construction inputs.
"""

import itertools
import json

import numpy as np

ID = "C02"
LEVEL = "model_checking"
RULE = (
    "histories: BFS over the listed operation alphabet from every initial list, one shard per "
    "(initial list, type palette, first-operation residue); states deduplicated on (atom count, "
    "internal row order, types, _max_bonds_per_atom); a case is non-trivial when the history contains "
    "a state-changing operation and the reached state holds >= 1 bond or was reached by removing one. "
    "construct: every bond array with <= k rows over indices [-n, n) and the type palette; non-trivial "
    "when >= 2 rows collide on the same unordered pair or use a negative index. Out-of-range leaves: "
    "every index parameter of every method over {-n-3..-n-1} U {n..n+2} U {+-(2^31-1), -2^31} at every "
    "new state, in a forked child."
)
ASSUMPTIONS = [
    "self-bonds (i,i) are not generated: the statement speaks of pairs of atoms",
    "boolean masks of the wrong length are not generated (not an atom index)",
    "row order of as_array() is unspecified; rows are compared as a set plus sortedness/uniqueness laws",
]

PALETTES = [(1, 6), (0, 9), (2, 5), (3, 7), (4, 8)]
MAX_N = 6
SHARD_TIMEOUT = {"quick": 900, "thorough": 3000}


def bounds(tier):
    return {
        "history_depth": "3" if tier == "quick" else "3 for all palettes and initial lists; 4 from the three 3-atom initial lists for one seed-selected palette",
        "max_atoms": MAX_N,
        "initial_lists": len(INITS),
        "palettes": "1 seed-selected at full depth; the other 4 standard pairs at depth 2; all other 50 unordered "
                    "pairs of the 10 bond-type values at depth 1" if tier == "quick" else
                    "5 standard pairs at full depth; all other 50 unordered pairs of the 10 bond-type values at depth 1",
        "construct_rows": "<=2 rows n<=4, 3 rows n<=2" if tier == "quick" else "<=3 rows n<=3, 2 rows n=4",
    }


# ---------------------------------------------------------------------------
# model
# ---------------------------------------------------------------------------
AROM = {5: 1, 6: 2, 7: 3, 9: 0}


class Model:
    __slots__ = ("n", "b")

    def __init__(self, n, b=None):
        self.n = n
        self.b = dict(b or {})  # (i, j) with i <= j  ->  type

    def copy(self):
        return Model(self.n, self.b)

    @staticmethod
    def norm(i, n):
        if not (-n <= i < n):
            raise IndexError(i)
        return i + n if i < 0 else i

    @classmethod
    def construct(cls, n, rows):
        m = cls(n)
        for r in rows:
            i, j = cls.norm(r[0], n), cls.norm(r[1], n)
            k = (min(i, j), max(i, j))
            t = r[2] if len(r) > 2 else 0
            if k not in m.b:  # first type wins
                m.b[k] = t
        return m

    def key(self):
        return (self.n, tuple(sorted(self.b.items())))


def m_index(m, idx):
    """Model of BondList.__getitem__ for mask / index array / slice: the atoms
    are re-numbered the way numpy would re-number an array of atoms."""
    sel = np.arange(m.n)[idx]
    sel = [int(x) for x in np.atleast_1d(sel)]
    pos = {}
    for new, old in enumerate(sel):
        pos.setdefault(old, []).append(new)
    out = Model(len(sel))
    for (i, j), t in m.b.items():
        if i in pos and j in pos:
            a, b = pos[i][0], pos[j][0]
            out.b[(min(a, b), max(a, b))] = t
    return out


# ---------------------------------------------------------------------------
# operation encoding   (JSON-able)
# ---------------------------------------------------------------------------
def dec_index(e):
    k = e[0]
    if k == "mask":
        return np.array(e[1], dtype=bool)
    if k == "smask":  # strided (non-contiguous) view of a mask
        big = np.zeros(2 * len(e[1]), dtype=bool)
        big[::2] = e[1]
        return big[::2]
    if k == "arr":
        return np.array(e[1], dtype=e[2])
    if k == "romask":  # read-only mask
        a = np.array(e[1], dtype=bool)
        a.flags.writeable = False
        return a
    if k == "roarr":  # read-only index array
        a = np.array(e[1], dtype=e[2])
        a.flags.writeable = False
        return a
    if k == "list":
        return list(e[1])
    if k == "slice":
        return slice(*e[1])
    raise ValueError(e)


OTHERS = {
    # name: (atom count, rows)
    "o_empty2": (2, []),
    "o_01": (2, [(0, 1, "A")]),
    "o_01b_12": (3, [(1, 0, "B"), (1, 2, "A")]),
    "o_02": (3, [(2, 0, "B")]),
}

INITS = {
    "i_empty0": (0, []),
    "i_empty3": (3, []),
    "i_chain3": (3, [(0, 1, "A"), (2, 1, "B")]),
    "i_tri3": (3, [(0, 1, "A"), (1, 2, "B"), (0, 2, "A")]),
    "i_star4": (4, [(0, 1, "B"), (0, 2, "A"), (3, 0, "A")]),
}


def _rows(rows, pal):
    return [(i, j, pal[0] if t == "A" else pal[1]) for i, j, t in rows]


def build_impl(n, rows):
    from biotite.structure import BondList

    if rows:
        return BondList(n, np.array(rows, dtype=np.int64))
    return BondList(n)


def gen_ops(m, pal, tier):
    """State-changing operation alphabet at model state m."""
    n = m.n
    ops = []
    rng = range(n)
    for i, j in itertools.permutations(rng, 2):
        for t in pal:
            ops.append(["add", i, j, t])
        ops.append(["add", i - n, j, pal[0]])
        ops.append(["remove", i, j])
    for i, j in itertools.combinations(rng, 2):
        ops.append(["remove", i - n, j - n])
        ops.append(["add", j, i - n, pal[1]])
    for i in range(-n, n):
        ops.append(["remove_to", i])
    for o in OTHERS:
        on = OTHERS[o][0]
        ops.append(["remove_bonds", o])
        ops.append(["merge", o])
        ops.append(["rmerge", o])
        if n + on <= MAX_N:
            ops.append(["plus", o])
            ops.append(["rplus", o])
        if 2 * n + on <= MAX_N:
            ops.append(["concat3", o])
    if n >= 2:
        # operand with MORE atoms than this list whose bonds reach atoms this list does not have:
        # none of them is a bond of this list, only (0, 1) may be removed
        big = [[0, n + j, pal[j % 2]] for j in range(n)] + [[1, 2 * n, pal[0]], [0, 1, pal[1]]]
        ops.append(["remove_bonds", "o_big", 2 * n + 1, big])
    for k in (0, 1, 2):
        if n + k <= MAX_N:
            ops.append(["offset", k])
    ops += [["dearom"], ["deorder"], ["copy"], ["concat1"]]
    # indexing
    if n <= 4:
        for bits in itertools.product([False, True], repeat=n):
            ops.append(["index", ["mask", list(bits)]])
        if n:
            ops.append(["index", ["smask", [bool(i % 2) for i in range(n)]]])
            ops.append(["index", ["smask", [True] * n]])
    else:
        for bits in ([True] * n, [False] * n, [i % 2 == 0 for i in range(n)], [i != 1 for i in range(n)],
                     [i >= 2 for i in range(n)], [i in (0, n - 1) for i in range(n)]):
            ops.append(["index", ["mask", list(bits)]])
    maxk = n if n <= 3 else (3 if tier == "thorough" else 2)
    for k in range(0, maxk + 1):
        for perm in itertools.permutations(rng, k):
            ops.append(["index", ["arr", list(perm), "int64"]])
    for k in (1, 2):
        for perm in itertools.permutations(rng, k):
            neg = list(perm)
            neg[-1] -= n
            ops.append(["index", ["arr", neg, "int32"]])
    if n >= 2:
        ops.append(["index", ["list", [n - 1, 0]]])
        ops.append(["index", ["arr", [1, 0], "uint8"]])
        ops.append(["index", ["roarr", [n - 1, 0], "int64"]])
        ops.append(["index", ["romask", [i != 1 for i in range(n)]]])
    for s in ([None, None, None], [1, None, None], [None, -1, None], [None, None, 2], [None, None, -1],
              [1, 3, None], [-2, None, None], [n, None, None], [5, None, None], [None, None, -2]):
        ops.append(["index", ["slice", s]])
    return ops


def apply_model(m, op):
    """Returns new model (or raises the expected exception class as
    ('refuse', ExcName))."""
    k = op[0]
    n = m.n
    if k == "add":
        i, j = Model.norm(op[1], n), Model.norm(op[2], n)
        r = m.copy()
        r.b[(min(i, j), max(i, j))] = op[3]
        return r
    if k == "remove":
        i, j = Model.norm(op[1], n), Model.norm(op[2], n)
        r = m.copy()
        r.b.pop((min(i, j), max(i, j)), None)
        return r
    if k == "remove_to":
        i = Model.norm(op[1], n)
        r = m.copy()
        r.b = {p: t for p, t in r.b.items() if i not in p}
        return r
    if k in ("remove_bonds", "merge", "rmerge", "plus", "rplus", "concat3"):
        on, orows = op[2], op[3]
        o = Model.construct(on, orows)
        if k == "remove_bonds":
            r = m.copy()
            for p in o.b:
                r.b.pop(p, None)
            return r
        if k == "merge":  # argument wins
            r = Model(max(n, on), m.b)
            r.b.update(o.b)
            return r
        if k == "rmerge":  # other.merge(self): self is the argument
            r = Model(max(n, on), o.b)
            r.b.update(m.b)
            return r
        if k == "plus":
            r = Model(n + on, m.b)
            for (i, j), t in o.b.items():
                r.b[(i + n, j + n)] = t
            return r
        if k == "rplus":
            r = Model(n + on, o.b)
            for (i, j), t in m.b.items():
                r.b[(i + on, j + on)] = t
            return r
        if k == "concat3":
            r = Model(2 * n + on, m.b)
            for (i, j), t in o.b.items():
                r.b[(i + n, j + n)] = t
            for (i, j), t in m.b.items():
                r.b[(i + n + on, j + n + on)] = t
            return r
    if k == "offset":
        r = Model(n + op[1])
        r.b = {(i + op[1], j + op[1]): t for (i, j), t in m.b.items()}
        return r
    if k == "dearom":
        r = m.copy()
        r.b = {p: AROM.get(t, t) for p, t in r.b.items()}
        return r
    if k == "deorder":
        r = m.copy()
        r.b = {p: 0 for p in r.b}
        return r
    if k in ("copy", "concat1"):
        return m.copy()
    if k == "index":
        return m_index(m, dec_index(op[1]))
    raise ValueError(op)


def apply_impl(bl, op):
    from biotite.structure import BondList

    k = op[0]
    if k == "add":
        bl.add_bond(op[1], op[2], op[3])
        return bl
    if k == "remove":
        bl.remove_bond(op[1], op[2])
        return bl
    if k == "remove_to":
        bl.remove_bonds_to(op[1])
        return bl
    if k in ("remove_bonds", "merge", "rmerge", "plus", "rplus", "concat3"):
        o = build_impl(op[2], op[3])
        if k == "remove_bonds":
            bl.remove_bonds(o)
            return bl
        if k == "merge":
            return bl.merge(o)
        if k == "rmerge":
            return o.merge(bl)
        if k == "plus":
            return bl + o
        if k == "rplus":
            return o + bl
        if k == "concat3":
            return BondList.concatenate([bl, o, bl])
    if k == "offset":
        bl.offset_indices(op[1])
        return bl
    if k == "dearom":
        bl.remove_aromaticity()
        return bl
    if k == "deorder":
        bl.remove_bond_order()
        return bl
    if k == "copy":
        return bl.copy()
    if k == "concat1":
        return BondList.concatenate([bl])
    if k == "index":
        return bl[dec_index(op[1])]
    raise ValueError(op)


def resolve(op, pal):
    """Fill the operand of binary operations with concrete rows."""
    if op[0] in ("remove_bonds", "merge", "rmerge", "plus", "rplus", "concat3") and len(op) == 2:
        on, rows = OTHERS[op[1]]
        return [op[0], op[1], on, [list(r) for r in _rows(rows, pal)]]
    return op


# ---------------------------------------------------------------------------
# observation
# ---------------------------------------------------------------------------
def observe(bl, m):
    """Compare every view of bl with the model; returns list of (view, expected, observed)."""
    from biotite.structure import BondList, BondType

    bad = []
    n = m.n
    exp_set = {(i, j, t) for (i, j), t in m.b.items()}
    if bl.get_atom_count() != n:
        bad.append(("get_atom_count", n, bl.get_atom_count()))
        return bad
    arr = bl.as_array()
    rows = [tuple(int(x) for x in r) for r in arr]
    if arr.ndim != 2 or (arr.shape[1] != 3):
        bad.append(("as_array.shape", "(k,3)", arr.shape))
        return bad
    if set(rows) != exp_set or len(rows) != len(exp_set):
        bad.append(("as_array", sorted(exp_set), rows))
    if any(r[0] > r[1] for r in rows):
        bad.append(("as_array.sorted_pairs", "i<=j per row", rows))
    if any(r[1] >= n for r in rows):
        bad.append(("as_array.in_range", "< %d" % n, rows))
    got_set = {tuple(int(x) for x in t) for t in bl.as_set()}
    if got_set != exp_set:
        bad.append(("as_set", sorted(exp_set), sorted(got_set)))
    if bl.get_bond_count() != len(exp_set):
        bad.append(("get_bond_count", len(exp_set), bl.get_bond_count()))
    # per-atom
    nb = {i: {} for i in range(n)}
    for (i, j), t in m.b.items():
        nb[i][j] = t
        nb[j][i] = t
    maxdeg = max([len(v) for v in nb.values()], default=0)
    for i in range(-n, n):
        b, t = bl.get_bonds(i)
        got = {int(x): int(y) for x, y in zip(b, t)}
        if got != nb[i % n] or len(b) != len(nb[i % n]):
            bad.append(("get_bonds(%d)" % i, nb[i % n], [b.tolist(), t.tolist()]))
        b2, t2 = bl[i]
        if b2.tolist() != b.tolist() or t2.tolist() != t.tolist():
            bad.append(("self[%d]" % i, [b.tolist(), t.tolist()], [b2.tolist(), t2.tolist()]))
    ab, at = bl.get_all_bonds()
    if ab.shape != at.shape or ab.shape[0] != n or (n and ab.shape[1] < maxdeg):
        bad.append(("get_all_bonds.shape", (n, ">=%d" % maxdeg), [ab.shape, at.shape]))
    else:
        for i in range(n):
            row = [int(x) for x in ab[i]]
            trow = [int(x) for x in at[i]]
            k = len(nb[i])
            got = {a: b for a, b in zip(row[:k], trow[:k])}
            if got != nb[i] or any(x != -1 for x in row[k:]) or any(x != -1 for x in trow[k:]):
                bad.append(("get_all_bonds[%d]" % i, nb[i], [row, trow]))
    adj = bl.adjacency_matrix()
    btm = bl.bond_type_matrix()
    eadj = np.zeros((n, n), dtype=bool)
    ebtm = np.full((n, n), -1, dtype=int)
    for (i, j), t in m.b.items():
        eadj[i, j] = eadj[j, i] = True
        ebtm[i, j] = ebtm[j, i] = t
    if adj.shape != (n, n) or adj.dtype != bool or not np.array_equal(adj, eadj):
        bad.append(("adjacency_matrix", eadj.tolist(), adj.tolist()))
    if btm.shape != (n, n) or not np.array_equal(btm, ebtm):
        bad.append(("bond_type_matrix", ebtm.tolist(), btm.tolist()))
    g = bl.as_graph()
    gedges = {}
    for a, b, d in g.edges(data=True):
        gedges[(min(int(a), int(b)), max(int(a), int(b)))] = d.get("bond_type")
    if {k: int(v) for k, v in gedges.items()} != m.b or any(not isinstance(v, BondType) for v in gedges.values()):
        bad.append(("as_graph", sorted(m.b.items()), sorted((k, repr(v)) for k, v in gedges.items())))
    for i in range(n):
        for j in range(n):
            if i == j:
                continue
            exp = (min(i, j), max(i, j)) in m.b
            if ((i, j) in bl) != exp:
                bad.append(("contains(%d,%d)" % (i, j), exp, not exp))
    # equality
    twin = build_impl(n, [(j, i, t) for (i, j), t in sorted(m.b.items(), reverse=True)])
    if not (bl == twin) or (bl != twin):
        bad.append(("eq(model-built)", True, False))
    if n >= 2:
        k = (0, 1)
        pert = dict(m.b)
        if k in pert:
            del pert[k]
        else:
            pert[k] = 1
        other = build_impl(n, [(i, j, t) for (i, j), t in pert.items()])
        if bl == other or not (bl != other):
            bad.append(("eq(perturbed)", False, True))
        if m.b:
            p0 = sorted(m.b)[0]
            pert = dict(m.b)
            pert[p0] = (pert[p0] + 1) % 10
            other = build_impl(n, [(i, j, t) for (i, j), t in pert.items()])
            if bl == other:
                bad.append(("eq(type-perturbed)", False, True))
    if bl == build_impl(n + 1, [(i, j, t) for (i, j), t in m.b.items()]):
        bad.append(("eq(other atom count)", False, True))
    # hidden invariant named by the anchor
    mb = getattr(bl, "_max_bonds_per_atom", None)
    if mb is not None and mb < maxdeg:
        bad.append(("_max_bonds_per_atom>=max degree", maxdeg, int(mb)))
    # copy independence
    c = bl.copy()
    if not (c == bl) or c.get_atom_count() != n:
        bad.append(("copy()==original", True, False))
    if n >= 2:
        c.add_bond(0, 1, 4)
        c.remove_bond_order()
        c.offset_indices(1)
        got2 = {tuple(int(x) for x in t) for t in bl.as_set()}
        if got2 != exp_set or bl.get_atom_count() != n:
            bad.append(("copy independence", sorted(exp_set), sorted(got2)))
    return bad


def canon(bl, m):
    return (m.n, bl.as_array().tobytes(), int(getattr(bl, "_max_bonds_per_atom", -1)))


# ---------------------------------------------------------------------------
# out-of-range leaves (E4)
# ---------------------------------------------------------------------------
def oor_values(n):
    vals = list(range(-n - 3, -n)) + list(range(n, n + 3)) + [2**31 - 1, -(2**31) + 1, -(2**31)]
    return vals


def oor_calls(n, pal):
    calls = []
    ok = 0 if n else None
    for v in oor_values(n):
        calls.append(["get_bonds", v])
        calls.append(["getitem_int", v])
        calls.append(["remove_to", v])
        calls.append(["index", ["arr", [v], "int64"]])
        if ok is not None:
            calls.append(["add", v, ok, pal[0]])
            calls.append(["add", ok, v, pal[0]])
            calls.append(["remove", v, ok])
            calls.append(["remove", ok, v])
            calls.append(["index", ["arr", [ok, v], "int64"]])
        else:
            calls.append(["add", v, v + 1 if v < 2**31 - 1 else v - 1, pal[0]])
    for bt in (-1, 10, 255):
        if n >= 2:
            calls.append(["add_type", 0, 1, bt])
    calls.append(["offset", -1])
    return calls


def run_oor(n, rows, hist, call):
    """Executed in a forked child: replay, do the dangerous call, re-observe."""
    bl = build_impl(n, rows)
    for op in hist:
        bl = apply_impl(bl, op)
    return run_oor_on(bl, call)


def run_oor_on(bl, call):
    before = (bl.get_atom_count(), sorted(map(tuple, bl.as_array().tolist())))
    k = call[0]
    try:
        if k == "get_bonds":
            r = bl.get_bonds(call[1])
        elif k == "getitem_int":
            r = bl[call[1]]
        elif k == "remove_to":
            r = bl.remove_bonds_to(call[1])
        elif k == "add":
            r = bl.add_bond(call[1], call[2], call[3])
        elif k == "add_type":
            r = bl.add_bond(call[1], call[2], call[3])
        elif k == "remove":
            r = bl.remove_bond(call[1], call[2])
        elif k == "index":
            r = bl[dec_index(call[1])]
        elif k == "offset":
            r = bl.offset_indices(call[1])
        else:
            raise ValueError(call)
        res = ("returned", repr(r)[:200])
    except BaseException as e:  # noqa: BLE001
        res = ("raised", type(e).__name__)
    # re-observe everything; an out-of-bounds write may show up here
    after = (bl.get_atom_count(), sorted(map(tuple, bl.as_array().tolist())))
    bl.get_all_bonds()
    bl.adjacency_matrix()
    bl.copy()
    return res, before == after, after


def oor_class(call, n):
    v = None
    for x in call[1:]:
        if isinstance(x, int) and not isinstance(x, bool) and not (-n <= x < n):
            v = x
            break
        if isinstance(x, list) and x and x[0] == "arr":
            for y in x[1]:
                if not (-n <= y < n):
                    v = y
    if call[0] == "add_type":
        return "bond_type"
    if call[0] == "offset":
        return "negative_offset"
    if v is None:
        return "?"
    if abs(v) >= 2**31 - 1:
        return "extreme_neg" if v < 0 else "extreme_pos"
    return "below_-n" if v < 0 else "above_n-1"


def check_oor_many(ctx, init, pal, n0, rows0, states):
    """Out-of-range leaves for many states with as few forks as possible: one child handles
    the whole list; on a crash the list of states is bisected, and a state that still
    crashes alone is handled call by call."""
    if not states:
        return

    def one_state(st):
        hist, m = st
        out = []
        bl = None
        for c in oor_calls(m.n, pal):
            if bl is None:
                bl = rebuild(n0, rows0, hist)
            res = run_oor_on(bl, c)
            if not res[1]:
                bl = None
            out.append(res)
        return out

    if not ctx.journal(json.dumps({"k": "oor", "init": init, "pal": list(pal), "hist": states[0][0],
                                   "nstates": len(states)})):
        return
    raw = ctx.isolated_batch(one_state, states, timeout=120, per_item_timeout=60)
    for (hist, m), r in zip(states, raw):
        if r[0] == "ok":
            judge_oor(ctx, init, pal, hist, m, oor_calls(m.n, pal), r[1])
        else:
            check_oor(ctx, init, pal, n0, rows0, hist, m)


def check_oor(ctx, init, pal, n0, rows0, hist, m):
    n = m.n
    calls = oor_calls(n, pal)

    if not ctx.journal(json.dumps({"k": "oor", "init": init, "pal": list(pal), "hist": hist})):
        return
    shared = {}

    def one(c):
        # rejected calls must leave the list unchanged, so one object serves the whole batch;
        # it is rebuilt whenever a call did change it
        if "bl" not in shared:
            shared["bl"] = rebuild(n0, rows0, hist)
        res = run_oor_on(shared["bl"], c)
        if not res[1]:
            del shared["bl"]
        return res

    raw = ctx.isolated_batch(one, calls, timeout=60, per_item_timeout=30)
    results = [r[1] if r[0] == "ok" else r for r in raw]
    judge_oor(ctx, init, pal, hist, m, calls, results)


def judge_oor(ctx, init, pal, hist, m, calls, results):
    n = m.n
    case = {"kind": "history", "init": init, "pal": list(pal), "hist": hist}
    for c, res in zip(calls, results):
        ctx.ev(1, 1)
        ctx.transition()
        cls = oor_class(c, n)
        want = "any error" if c[0] in ("add_type", "offset") else "IndexError"
        if res and res[0] in ("signal", "timeout", "exit", "exc"):
            ctx.violation("oor|%s|%s|process_%s" % (c[0], cls, res[0]),
                          "out-of-range call terminated the process (%r)" % (res,), {**case, "call": c},
                          expected=want, observed=list(res))
            ctx.outcome(("oor", c[0], cls, res[0]))
            continue
        (what, name), unchanged, after = res
        ctx.outcome(("oor", c[0], cls, what, name, unchanged))
        if what != "raised" or (name != want and want != "any error"):
            ctx.violation("oor|%s|%s|%s" % (c[0], cls, "no_error" if what == "returned" else "wrong_error_" + name),
                          "out-of-range argument not rejected with %s" % want, {**case, "call": c},
                          expected=want, observed=[what, name])
        elif not unchanged:
            ctx.violation("oor|%s|%s|state_changed" % (c[0], cls), "rejected call changed the bond list",
                          {**case, "call": c}, expected="unchanged", observed=after)


# ---------------------------------------------------------------------------
# shards
# ---------------------------------------------------------------------------
NRES = 6


def shards(tier, seed):
    pals = [PALETTES[seed % len(PALETTES)]] if tier == "quick" else PALETTES
    out = []
    for init in INITS:
        for pal in pals:
            for r in range(NRES):
                out.append({"kind": "history", "init": init, "pal": list(pal), "res": r, "depth": 3})
    if tier == "thorough":
        # depth 4 from the 3-atom initial lists for one seed-selected palette (the full depth-4
        # product over all palettes and initial lists is ~10^8 transitions)
        pal4 = PALETTES[seed % len(PALETTES)]
        for init in ("i_empty3", "i_chain3", "i_tri3"):
            for r in range(NRES):
                out.append({"kind": "history", "init": init, "pal": list(pal4), "res": r, "depth": 4})
    # every other pair of bond-type values: the type-mapping operations (remove_aromaticity,
    # remove_bond_order, merge precedence) depend on the VALUE of the type, so each palette the
    # deep search above does not use is still walked at depth 2 (the five standard ones) or
    # depth 1 (all 55 - 5 remaining unordered pairs, equal types included)
    deep = {tuple(p) for p in pals}
    for pal in PALETTES:
        if tuple(pal) not in deep:
            for init in INITS:
                out.append({"kind": "history", "init": init, "pal": list(pal), "res": 0, "nres": 1, "depth": 2,
                            "oor": False})
    std = {tuple(p) for p in PALETTES}
    for a in range(10):
        for b in range(a, 10):
            if (a, b) not in std:
                for init in INITS:
                    out.append({"kind": "history", "init": init, "pal": [a, b], "res": 0, "nres": 1, "depth": 1,
                                "oor": False})
    for pal in pals:
        if tier == "quick":
            specs = [(n, k) for n in range(0, 5) for k in (0, 1, 2)] + [(2, 3)]
        else:
            specs = [(n, k) for n in range(0, 4) for k in (0, 1, 2, 3)] + [(4, 0), (4, 1), (4, 2)]
        for n, k in specs:
            if n == 0 and k > 0:
                continue
            nsh = 4 if k >= 3 or (k == 2 and n >= 4) else 1
            for s in range(nsh):
                out.append({"kind": "construct", "n": n, "rows": k, "pal": list(pal), "part": s, "parts": nsh})
    # widest shards first
    out.sort(key=lambda s: 0 if s["kind"] == "history" else 1)
    return out


def run_shard(shard, ctx):
    if shard["kind"] == "history":
        run_history(shard, ctx)
    else:
        run_construct(shard, ctx)


def rebuild(n0, rows0, hist):
    bl = build_impl(n0, rows0)
    for op in hist:
        bl = apply_impl(bl, op)
    return bl


INPLACE = {"add", "remove", "remove_to", "remove_bonds", "offset", "dearom", "deorder"}


def step_check(ctx, init, pal, n0, rows0, hist, m, op, do_observe=True, base=None):
    """Apply op at (hist, m) to impl and model, compare. Returns (new model, impl, ok).
    `base`: a live object for state `hist`, used (and afterwards verified unchanged) for
    operations that return a new object; in-place operations always get a fresh replay."""
    case = {"kind": "history", "init": init, "pal": list(pal), "hist": hist + [op]}
    shared_base = base is not None and op[0] not in INPLACE
    bl = base if shared_base else rebuild(n0, rows0, hist)
    ctx.transition()
    try:
        m2 = apply_model(m, op)
        want_exc = None
    except NotImplementedError:
        m2, want_exc = None, "NotImplementedError"
    try:
        bl2 = apply_impl(bl, op)
        got_exc = None
    except Exception as e:  # noqa: BLE001
        bl2, got_exc = None, type(e).__name__
    if got_exc is not None:
        ctx.violation("history|%s|unexpected_%s" % (op_class(op, m.n), got_exc),
                      "legal operation raised %s" % got_exc, case, expected="success", observed=got_exc)
        return None, None, False
    if shared_base:
        still = {tuple(int(x) for x in t) for t in base.as_set()}
        if still != {(i, j, t) for (i, j), t in m.b.items()} or base.get_atom_count() != m.n:
            ctx.violation("history|%s|operand_mutated" % op_class(op, m.n),
                          "an operation that returns a new list changed its operand", case,
                          expected=sorted(m.b.items()), observed=sorted(still))
            return None, None, False
    # cheap check on every transition; the complete observation is a function of the
    # implementation state (rows, atom count, _max_bonds_per_atom) and is therefore made
    # once per canonical state
    got = {tuple(int(x) for x in t) for t in bl2.as_set()}
    exp = {(i, j, t) for (i, j), t in m2.b.items()}
    if got != exp or bl2.get_atom_count() != m2.n:
        ctx.violation("history|%s|as_set" % op_class(op, m.n),
                      "bond set disagrees with the reference mapping after %s" % op[0], case,
                      expected=[m2.n, sorted(exp)], observed=[bl2.get_atom_count(), sorted(got)])
        return None, None, False
    if shared_base:
        # an operation that returns a list returns a NEW list (the reference mapping of the result is
        # a new dict): whatever is done to the result afterwards must not reach the operand - checked
        # by identity on every transition and by editing a second result once per (operation, state)
        how = "is_operand" if bl2 is base else None
        lk = ("distinct", op[0], canon(bl2, m2))
        if how is None and lk not in ctx._observed:
            ctx._observed.add(lk)
            r2 = apply_impl(base, op)
            if r2 is base:
                how = "is_operand"
            else:
                r2.remove_bond_order()
                if r2.get_atom_count() >= 2:
                    r2.add_bond(0, r2.get_atom_count() - 1, 3)
                    r2.remove_bonds_to(0)
                r2.offset_indices(1)
                still = {tuple(int(x) for x in t) for t in base.as_set()}
                if still != {(i, j, t) for (i, j), t in m.b.items()} or base.get_atom_count() != m.n:
                    how = "edit_reaches_operand"
        if how:
            ctx.violation("history|%s|result_not_distinct|%s" % (op_class(op, m.n), how),
                          "%s returned a list that is, or shares state with, its operand: editing the result "
                          "changed the operand" % op[0], case, expected="operand unchanged", observed=how)
            return None, None, False
    if do_observe and (canon(bl2, m2) not in ctx._observed):
        ctx._observed.add(canon(bl2, m2))
        bad = observe(bl2, m2)
        if bad:
            view, exp, got = bad[0]
            ctx.violation("history|%s|%s" % (op_class(op, m.n), view.split("(")[0].split("[")[0]),
                          "view %s disagrees with the reference mapping after %s" % (view, op[0]), case,
                          expected=exp, observed=got)
            return None, None, False
    return m2, bl2, True


def op_class(op, n):
    k = op[0]
    if k == "index":
        e = op[1]
        if e[0] in ("mask", "smask", "romask"):
            return "index_" + e[0]
        if e[0] == "slice":
            st = e[1][2]
            return "index_slice" + ("_negstep" if (st or 1) < 0 else "")
        if e[0] in ("arr", "list", "roarr"):
            neg = any(x < 0 for x in e[1])
            srt = list(e[1]) == sorted(e[1])
            return "index_%s%s%s" % (e[0], "_neg" if neg else "", "" if srt else "_unsorted")
    if k in ("add", "remove", "remove_to"):
        neg = any(isinstance(x, int) and x < 0 for x in op[1:3])
        return k + ("_neg" if neg else "")
    return k


def run_history(shard, ctx):
    init, pal, res = shard["init"], tuple(shard["pal"]), shard["res"]
    depth = shard.get("depth", 3)
    n0, rows0 = INITS[init]
    rows0 = [list(r) for r in _rows(rows0, pal)]
    m0 = Model.construct(n0, rows0)
    bl0 = build_impl(n0, rows0)
    ctx._observed = set()
    if res == 0:
        ctx.ev(1)
        bad = observe(bl0, m0)
        if bad:
            ctx.violation("construct|init|%s" % bad[0][0], "initial list disagrees with model",
                          {"kind": "history", "init": init, "pal": list(pal), "hist": []}, bad[0][1], bad[0][2])
        if shard.get("oor", True):
            check_oor(ctx, init, pal, n0, rows0, [], m0)
    ctx.state(canon(bl0, m0))
    frontier = [([], m0)]
    for d in range(1, depth + 1):
        nxt = []
        for hist, m in frontier:
            ops = [resolve(o, pal) for o in gen_ops(m, pal, ctx.tier)]
            base = rebuild(n0, rows0, hist)
            pend = []
            pre = json.dumps({"k": "h", "init": init, "pal": list(pal), "hist": hist})
            for oi, op in enumerate(ops):
                if d == 1 and oi % shard.get("nres", NRES) != res:
                    continue
                if not ctx.journal(pre + "#" + json.dumps(op)):
                    continue
                m2, bl2, ok = step_check(ctx, init, pal, n0, rows0, hist, m, op, base=base)
                if not ok and op[0] not in INPLACE:
                    base = rebuild(n0, rows0, hist)
                changed = ok and (m2.key() != m.key())
                ctx.ev(1, 1 if (ok and (m2.b or m.b) and op[0] != "copy") else 0)
                ctx.trace()
                if not ok:
                    continue
                ctx.outcome((op[0], m2.key()))
                if ctx.state(canon(bl2, m2)):
                    if len(ctx.samples) < 3 and d >= 2 and changed:
                        ctx.sample({"init": init, "pal": list(pal), "hist": hist + [op],
                                    "reached": sorted([list(k) + [t] for k, t in m2.b.items()])})
                    pend.append((hist + [op], m2))
                    if d < depth:
                        nxt.append((hist + [op], m2))
            if shard.get("oor", True):
                check_oor_many(ctx, init, pal, n0, rows0, pend)
        frontier = nxt


def run_construct(shard, ctx):
    n, k, pal = shard["n"], shard["rows"], tuple(shard["pal"])
    part, parts = shard["part"], shard["parts"]
    single = []
    for i in range(-n, n):
        for j in range(-n, n):
            if (i % n) == (j % n):
                continue
            for t in pal:
                single.append((i, j, t))
    idx = 0
    for rows in itertools.product(single, repeat=k):
        idx += 1
        if idx % parts != part:
            continue
        for form in ("n3", "n2") if k and idx % 7 == 0 else ("n3",):
            for dt in ("int64",) if idx % 5 else ("int64", "int32", "uint8" if all(x >= 0 for r in rows for x in r[:2]) else "int16"):
                r = [list(x) for x in rows]
                if form == "n2":
                    r = [x[:2] for x in r]
                case = {"kind": "construct", "n": n, "rows": r, "dtype": dt}
                if not ctx.journal(case):
                    continue
                pairs = [tuple(sorted((a % n, b % n))) for a, b, *_ in r]
                nontriv = len(set(pairs)) < len(pairs) or any(a < 0 or b < 0 for a, b, *_ in r)
                ctx.ev(1, 1 if nontriv else 0)
                check_construct(ctx, case)
    if k == 0:
        case = {"kind": "construct", "n": n, "rows": [], "dtype": "int64"}
        ctx.ev(1)
        check_construct(ctx, case)


def check_construct(ctx, case):
    from biotite.structure import BondList

    n, r, dt = case["n"], case["rows"], case["dtype"]
    m = Model.construct(n, r)
    inp = np.array(r, dtype=dt) if r else np.zeros((0, 3), dtype=dt)
    inp_before = inp.copy()
    try:
        bl = BondList(n, inp)
    except Exception as e:  # noqa: BLE001
        ctx.violation("construct|unexpected_%s" % type(e).__name__, "legal construction input raised", case,
                      "success", type(e).__name__)
        return
    # input aliasing: construction must not modify the caller's array, and changing the caller's
    # array (or an array handed out by as_array / get_bonds / get_all_bonds) afterwards must not
    # change the list
    if not np.array_equal(inp, inp_before):
        ctx.violation("construct|input_modified", "the constructor changed the caller's bond array", case,
                      inp_before.tolist(), inp.tolist())
    if inp.size:
        inp[...] = 0
    handed = bl.as_array()
    if handed.size:
        handed[...] = 7
    if n:
        gb = bl.get_bonds(0)
        for a in gb:
            if a.size:
                a[...] = 3
        ab = bl.get_all_bonds()
        for a in ab:
            if a.size:
                a[...] = 5
    bad = observe(bl, m)
    ctx.outcome(m.key())
    if bad:
        dup = len({tuple(sorted((a % n, b % n))) for a, b, *_ in r}) < len(r)
        ctx.violation("construct|%s|%s" % ("dup" if dup else "nodup", bad[0][0].split("(")[0].split("[")[0]),
                      "constructed list disagrees with model in view %s" % bad[0][0], case, bad[0][1], bad[0][2])
    if len(ctx.samples) < 2 and len(r) >= 2:
        ctx.sample(case)


def crash_class(case):
    if isinstance(case, str) and "#" in case:
        try:
            return "history|" + json.loads(case.split("#", 1)[1])[0]
        except ValueError:
            return "unclassified"
    if isinstance(case, dict):
        if case.get("k") == "oor":
            return "oor_batch"
        if case.get("kind") == "construct":
            return "construct"
        h = case.get("hist") or []
        if h:
            return "history|" + h[-1][0]
    return "unclassified"


def replay(case, ctx):
    if isinstance(case, str) and "#" in case:
        a, b = case.split("#", 1)
        case = json.loads(a)
        case["hist"] = case["hist"] + [json.loads(b)]
    if case.get("k") in ("h", "oor"):
        case = {**case, "kind": "history"}
    if case["kind"] == "construct":
        check_construct(ctx, case)
        return
    init, pal, hist = case["init"], tuple(case["pal"]), case["hist"]
    n0, rows0 = INITS[init]
    rows0 = [list(r) for r in _rows(rows0, pal)]
    m = Model.construct(n0, rows0)
    ctx._observed = set()
    for i, op in enumerate(hist):
        m2, bl2, ok = step_check(ctx, init, pal, n0, rows0, hist[:i], m, op)
        if not ok:
            return
        m = m2
    if "call" in case:
        c = case["call"]
        r1 = ctx.isolated(run_oor, n0, rows0, hist, c, timeout=30)
        cls = oor_class(c, m.n)
        want = "any error" if c[0] in ("add_type", "offset") else "IndexError"
        if r1[0] != "ok":
            ctx.violation("oor|%s|%s|process_%s" % (c[0], cls, r1[0]), "process terminated", case, want, list(r1))
            return
        (what, name), unchanged, after = r1[1]
        if what != "raised" or (name != want and want != "any error"):
            ctx.violation("oor|%s|%s|%s" % (c[0], cls, "no_error" if what == "returned" else "wrong_error_" + name),
                          "out-of-range argument not rejected", case, want, [what, name])
        elif not unchanged:
            ctx.violation("oor|%s|%s|state_changed" % (c[0], cls), "rejected call changed the list", case,
                          "unchanged", after)
    elif case.get("k") == "oor":
        check_oor(ctx, init, pal, n0, rows0, hist, m)
