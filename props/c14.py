"""C14 - cell-list neighbour search is exact.

E2: bounded exhaustive enumeration of coordinate sets on a half-integer lattice
(exact in float32), cell sizes, radii, query points (inside and far outside the
bounding box), result forms, selections and periodic boxes; every query result
of the real CellList is compared with float64 brute force (minimum over 5^3
lattice images when periodic).
"""

import itertools
import json
import math
import os

import numpy as np

from mc.models import geom

ID = "C14"
LEVEL = "model_checking"
RULE = (
    "one evaluation = one (cell list, query point, radius/cell radius, result form) comparison; cell lists are "
    "enumerated as (coordinate set x cell size x box x selection x input form) without repeats: 'ms' shards take "
    "every multiset of k lattice points (combinations_with_replacement, each once), 'st' shards every listed "
    "structured set x every cell size x every box, 'sel' shards every selection mask with <= 2 cleared bits, "
    "'assign' shards every assignment of 3 radii to <= 3 queries. Non-trivial = the brute-force answer for that "
    "query is non-empty and (not 'all stored atoms', or the query point lies outside the bounding box of the atoms, "
    "or the cell list is periodic / has a selection)."
)
ASSUMPTIONS = [
    "coordinates, cell sizes, radii and query points are dyadic rationals (multiples of 0.5, |x| < 2^20), so float32 "
    "squared distances and r^2 are exact and 'distance <= radius' has no rounding band in non-periodic mode",
    "periodic mode: biotite moves atoms and queries into the box through a floating-point matrix inverse, so for boxes "
    "whose inverse is not exact (all but the power-of-two orthorhombic ones) atoms whose minimum-image distance equals "
    "the radius EXACTLY are class EITHER (counted as 'periodic_tie_either'); every other atom is demanded exactly",
    "periodic results are compared as sets per query (an index may occur once per periodic copy within the radius - "
    "documented); in non-periodic mode duplicates are a violation",
    "get_atoms_in_cells is only required to be a superset of the atoms within cell_radius*cell_size (statement) that "
    "contains only stored (selected) atoms; no upper bound is demanded",
    "periodic mode with an inexact box: a query point farther than 5000 from the origin is class EITHER (its low "
    "bits are lost when it is wrapped into the box in float32)",
    "EITHER (exception or exact model value): all-False selection, negative radius, empty query batch; "
    "REFUSE (documented): cell_size <= 0, AtomArrayStack input",
    "cell radius is limited to <= 20 in the main families (biotite allocates (2c+1)^3 * max_cell_length slots per "
    "query); the 'cap' family probes cell radii 645 ... 1625, where that product leaves the int range, in forked "
    "children with a capped address space: class EITHER (clean exception or the exact answer), a dead process is a violation",
    "audit families: 'cap' 63..1025 atoms in one cell; 'reuse' one cell list answering its program three times in "
    "different orders with refused calls in between, earlier results must keep their values; 'alias' arguments are not "
    "modified and results are private, a later change of the caller's coordinate array is class unspecified where the "
    "unchanged tree keeps a reference (float32 ndarray / AtomArray, counted as unspecified_shared_coordinates); "
    "'flavour' float32/float64/Fortran/strided/transposed/read-only/integer/list coordinates, queries, radii, "
    "selections and boxes (lists for query/selection/box and 0-d radius arrays are class EITHER); 'orient' reversed / "
    "rolled atom order, permuted box rows, cube rotations of atoms + box + queries; 'edge' one selected atom, 10^6-cell "
    "grids, atoms at the 8- and 16-bit cell index borders, documented constructor refusals",
]
EXHAUSTIVE = True
SHARD_TIMEOUT = {"quick": 600, "thorough": 2400}

LATT = [0.0, 0.5, 1.0, 1.5, 2.0]
SUB27 = [0.0, 0.5, 2.0]
CELL_SIZES = [0.5, 1.0, 1.5, 3.0, 10.0]
RADII = [0.0, 0.5, 1.0, 1.5, 2.0, 2.5, 5.0]
CELL_RADII = [0, 1, 2, 3]
# lattice-exact translations of the whole system (atoms and queries); VERIF_SEED picks one of 1..4,
# offset 0 is always used for the structured sets
OFFSETS = [
    [0.0, 0.0, 0.0],
    [-7.5, 3.0, 100.0],
    [16.0, -32.5, 0.5],
    [-1.0, -1.5, -2.0],
    [1000.0, 0.5, -250.0],
]
BOXES = {
    "o2.5": [[2.5, 0, 0], [0, 2.5, 0], [0, 0, 2.5]],
    "o3": [[3, 0, 0], [0, 3, 0], [0, 0, 3]],
    "o345": [[3, 0, 0], [0, 4, 0], [0, 0, 5]],
    "o2": [[2, 0, 0], [0, 2, 0], [0, 0, 2]],
    "o4": [[4, 0, 0], [0, 4, 0], [0, 0, 4]],
    "o248": [[2, 0, 0], [0, 4, 0], [0, 0, 8]],
    "t1": [[3, 0, 0], [1, 3, 0], [0, 1, 3]],
    "t2": [[4, 0, 0], [2, 3, 0], [1, 1, 3]],
}
DYADIC = {"o2", "o4", "o248"}
BOX_KIND = {"o2.5": "ortho", "o3": "ortho", "o345": "ortho", "o2": "ortho_dyadic", "o4": "ortho_dyadic",
            "o248": "ortho_dyadic", "t1": "tric", "t2": "tric"}

# cap for rows x (2c+1)^3 x max_cell_length of one call (biotite allocates that worst-case buffer per call)
MAX_SLOTS = {"full": 2_500_000, "mid": 1_000_000, "lite": 300_000, "mini": 300_000, "tiny": 300_000, "micro": 300_000}

SUB64 = [0.0, 0.5, 1.0, 2.0]
CUBE_ROTS = geom.cube_rotations()
L125 = geom.lattice(LATT)
L27 = geom.lattice(SUB27)
L64 = geom.lattice(SUB64)
IN64 = [bool(np.isin(p, SUB64).all()) for p in L125]


def _structured():
    s = {}
    s["g222"] = geom.lattice([0.0, 2.0])
    s["g333"] = geom.lattice([0.0, 1.0, 2.0])
    s["g333h"] = geom.lattice([0.0, 0.5, 1.0])
    s["g322"] = np.array(list(itertools.product([0.0, 1.0, 2.0], [0.0, 2.0], [0.0, 0.5])))
    c = [1.0, 1.0, 1.0]
    pts = [c, c]
    for ax in range(3):
        for d in (-0.5, 0.5):
            p = list(c)
            p[ax] += d
            pts.append(p)
    pts.append([2.0, 2.0, 2.0])
    s["border"] = np.array(pts)                                   # 9 points on the borders of the 1.0 / 0.5 cells
    s["dups"] = np.array([[1.0, 0.5, 2.0]] * 8)                   # one cell holding 8 atoms
    s["colx"] = np.array([[t, 0.0, 0.0] for t in LATT] * 2)       # collinear + duplicated
    s["coldiag"] = np.array([[t, t, t] for t in LATT] + [[t, 2.0 - t, 0.0] for t in LATT])
    s["planar"] = np.array([[x, y, 1.0] for x in LATT for y in LATT])
    s["twoclus"] = np.concatenate([geom.lattice([0.0, 0.5]), geom.lattice([1.5, 2.0])])
    s["shell"] = np.array([p for p in geom.lattice([0.0, 1.0, 2.0]) if (p == 0).any() or (p == 2).any()])
    s["sparse"] = np.array([[0, 0, 0], [2, 2, 2], [0, 2, 0], [2, 0, 2], [1, 1, 1], [0.5, 1.5, 2], [1.5, 0, 0.5],
                            [2, 1, 0]], dtype=float)
    return s


STRUCT = _structured()
STRUCT_SMALL = ["g222", "border", "dups", "sparse", "colx", "coldiag", "g322"]   # n <= 12

QV_LITE = [-3.0, -0.5, 0.0, 0.5, 1.0, 1.5, 2.0, 2.5, 5.0]
EXTRA_Q = [[1e6, 0, 0], [-1e6, 1, 1], [0.5, 1e9, 0], [-1024.5, -1024.5, -1024.5],
           [float("nan"), 0, 0], [0, float("inf"), 0], [float("-inf")] * 3,
           [float("nan"), float("inf"), float("-inf")], [1e6, float("nan"), -1e6]]      # two features in one point


def _perm(n, mult):
    return (np.arange(n) * mult) % n


def _qset(name):
    if name == "lite":
        q = geom.lattice(QV_LITE)
        q = q[_perm(len(q), 367)]
    elif name == "full":
        q = geom.lattice(list(np.arange(-3.0, 5.01, 0.5)))
        q = q[_perm(len(q), 1201)]
    elif name == "mini":
        q = geom.lattice([-3.0, 0.0, 0.5, 2.0, 2.5])
        q = q[_perm(len(q), 47)]
    else:
        raise ValueError(name)
    # the extras go first so that capped prefixes keep them
    return np.concatenate([np.array(EXTRA_Q, dtype=float), q])


QSETS = {k: _qset(k) for k in ("lite", "full", "mini")}


def bounds(tier):
    b = {
        "lattice": LATT, "sublattice27": SUB27, "sublattice64": SUB64, "cell_sizes": CELL_SIZES, "radii": RADII, "cell_radii": CELL_RADII,
        "query_sets": {k: int(len(v)) for k, v in QSETS.items()},
        "query_range": "[-3,5]^3 step 0.5 (full: all 4913; lite: 9^3 axis values %s) + 4 far points (1e6, 1e9, -1024.5) "
                       "+ 3 non-finite" % QV_LITE,
        "structured_sets": {k: int(len(v)) for k, v in STRUCT.items()},
        "boxes": BOXES, "offset_palette": OFFSETS,
        "selections": "every mask with <= 2 cleared bits + strided view + all-False",
        "radius_assignments": "all 3^k assignments from 3 radii to k <= 3 queries, 4 radius triples x 10 query triples",
        "audit_families": {"cap_atoms_per_cell": CAP_N, "cap_overflow_cell_radii": [645, 813, 1625],
                           "coordinate_flavours": COORD_FLAVOURS, "query_flavours": FLAV_Q,
                           "radius_flavours": FLAV_R_SCALAR + FLAV_R_ARRAY,
                           "orient": "atom order rev/roll; 6 box row orders; %s cube rotations" % (3 if tier == "quick" else 24)},
    }
    if tier == "quick":
        b["multisets"] = "k<=2 over 125 lattice points (8000), k=3 over 27-point sublattice (3654)"
        b["periodic_multisets"] = "k=1 over the 27-point sublattice x 8 boxes, k=2 (378) x boxes o2.5, o4, t1, t2"
    else:
        b["multisets"] = ("k<=2 over 125 lattice points (8000); k=3 over the 64-point sublattice {0,0.5,1,2}^3 (45760) and "
                          "over 125 points with one point at the corner (0,0,0) and not all in the sublattice (5795); "
                          "k=4 over the 27-point sublattice (27405)")
        b["periodic_multisets"] = ("k<=3 over the 27-point sublattice (4059) x 8 boxes, k=2 over 125 points (7875) x "
                                   "boxes o3, t1")
    return b


# ---------------------------------------------------------------------------
# configuration -> real objects
# ---------------------------------------------------------------------------
def cfg_coords(cfg):
    """float64 coordinates of a configuration (before the float32 cast biotite makes)."""
    cs = cfg["set"]
    if cs[0] == "ms":
        base = L125[list(cs[1])]
    elif cs[0] == "ms27":
        base = L27[list(cs[1])]
    elif cs[0] == "ms64":
        base = L64[list(cs[1])]
    elif cs[0] == "st":
        base = STRUCT[cs[1]]
    elif cs[0] == "raw":
        base = np.array(cs[1], dtype=float)
    elif cs[0] == "same":        # n atoms at one point: one cell holds them all
        base = np.tile([1.0, 0.5, 2.0], (cs[1], 1))
    elif cs[0] == "two":         # n atoms shared by two neighbouring points + one atom at the corner
        n = cs[1]
        base = np.array([[1.0, 0.5, 2.0]] * (n // 2) + [[1.5, 0.5, 2.0]] * (n - n // 2) + [[0.0, 0.0, 0.0]])
    else:
        raise ValueError(cs)
    out = base.reshape(-1, 3) + np.array(OFFSETS[cfg.get("off", 0)])
    perm = cfg.get("perm")
    if perm == "rev":
        out = out[::-1].copy()
    elif perm == "roll":
        out = np.roll(out, 5, axis=0)
    if cfg.get("rot") is not None:
        out = out @ np.asarray(CUBE_ROTS[cfg["rot"]], dtype=float).T
    return out


def cfg_box(cfg):
    """float64 box of a configuration: optionally rotated with the system and with permuted rows (same lattice)"""
    if cfg.get("box") is None:
        return None
    box = np.array(BOXES[cfg["box"]], dtype=float)
    if cfg.get("rot") is not None:
        box = box @ np.asarray(CUBE_ROTS[cfg["rot"]], dtype=float).T
    if cfg.get("bperm") is not None:
        box = box[list(cfg["bperm"])]
    return box


def cfg_selection(cfg, n):
    s = cfg.get("sel")
    if s is None:
        return None, None
    if s[0] == "clear":
        m = np.ones(n, dtype=bool)
        m[list(s[1])] = False
        return m, m.copy()
    if s[0] == "strided":      # non-contiguous view of a boolean array
        big = np.zeros(2 * n, dtype=bool)
        big[::2] = [i % 3 != 1 for i in range(n)]
        return big[::2], np.array(big[::2])
    if s[0] == "none":
        m = np.zeros(n, dtype=bool)
        return m, m.copy()
    if s[0] == "flav":          # every third atom cleared, handed over in another array flavour
        m = np.array([i % 3 != 1 for i in range(n)])
        f = s[1]
        if f == "ro":
            a = m.copy()
            a.flags.writeable = False
        elif f == "col":        # a column of a 2-D mask
            a = np.stack([m, ~m], axis=1)[:, 0]
        elif f == "u8":
            a = m.astype(np.uint8)
        elif f == "list":
            a = [bool(x) for x in m]
        else:
            raise ValueError(s)
        return a, m
    if s[0] == "only":          # exactly one selected atom
        m = np.zeros(n, dtype=bool)
        m[s[1]] = True
        return m, m.copy()
    raise ValueError(s)


COORD_FLAVOURS = ["f32", "f64", "atoms", "f32F", "f64F", "f32strided", "f32T", "f32ro", "f64ro", "i64", "i32", "list",
                  "tuple"]


def flavour_array(x, form):
    """the float64 array x in another array flavour (same values)"""
    if form in ("f32", "f64"):
        return x.astype(np.float32 if form == "f32" else np.float64)
    if form == "f32F":
        return np.asfortranarray(x.astype(np.float32))
    if form == "f64F":
        return np.asfortranarray(x.astype(np.float64))
    if form == "f32strided":
        big = np.full((2 * len(x),) + x.shape[1:], 77.0, dtype=np.float32)
        big[::2] = x
        return big[::2]
    if form == "f32T":          # C-contiguous (3,n) buffer seen as (n,3)
        return np.ascontiguousarray(x.astype(np.float32).T).T
    if form in ("f32ro", "f64ro"):
        a = x.astype(np.float32 if form == "f32ro" else np.float64)
        a.flags.writeable = False
        return a
    if form in ("i64", "i32"):
        return np.rint(x).astype(np.int64 if form == "i64" else np.int32)
    if form == "f32ro_strided":          # two features: read-only AND non-contiguous
        big = np.full((2 * len(x),) + x.shape[1:], 77.0, dtype=np.float32)
        big[::2] = x
        big.flags.writeable = False
        return big[::2]
    if form == "f64F_ro":                # float64 AND Fortran order AND read-only
        a = np.asfortranarray(x.astype(np.float64))
        a.flags.writeable = False
        return a
    if form == "f32T_ro":
        a = np.ascontiguousarray(x.astype(np.float32).T)
        a.flags.writeable = False
        return a.T
    if form == "i32F":
        return np.asfortranarray(np.rint(x).astype(np.int32))
    if form == "list":
        return x.tolist()
    if form == "tuple":
        return tuple(tuple(r) for r in x.tolist())
    raise ValueError(form)


def build_celllist(cfg, keep=None):
    """-> (CellList, coords float64, model selection mask or None, box float64 or None).
    keep: optional dict that receives the very objects handed to the constructor (aliasing checks)."""
    import biotite.structure as struc

    coords = cfg_coords(cfg)
    n = len(coords)
    sel, msel = cfg_selection(cfg, n)
    box = cfg_box(cfg)
    form = cfg.get("form", "f32")
    kw = {}
    if sel is not None:
        kw["selection"] = sel
    if cfg.get("prec"):
        # option precedence: own box attribute / box argument / periodic flag given independently; cfg["box"] names the
        # box that the documentation says is used (None: non-periodic)
        own, arg, periodic = cfg["prec"]
        if form == "atoms":
            c = struc.AtomArray(n)
            c.coord = coords
            if own is not None:
                c.box = np.array(BOXES[own], dtype=np.float32)
        else:
            c = flavour_array(coords, form)
        if arg is not None:
            kw["box"] = np.array(BOXES[arg], dtype=np.float32)
        if keep is not None:
            keep.update({"coord": c, "sel": sel, "box": kw.get("box")})
        cl = struc.CellList(c, cfg["cs"], periodic=periodic, **kw)
        return cl, coords, msel, box
    if form == "atoms":
        arr = struc.AtomArray(n)
        arr.coord = coords
        if box is not None:
            arr.box = box
            kw["periodic"] = True
        c = arr
    else:
        c = flavour_array(coords, form)
        if box is not None:
            kw["periodic"] = True
            bf = cfg.get("boxflav")
            kw["box"] = flavour_array(box, bf) if bf else (box if form == "f64" else box.astype(np.float32))
    if keep is not None:
        keep.update({"coord": c, "sel": sel, "box": kw.get("box")})
    cl = struc.CellList(c, cfg["cs"], **kw)
    return cl, coords, msel, box


def query_points(cfg, qname):
    q = QSETS[qname] + np.array(OFFSETS[cfg.get("off", 0)])
    if cfg.get("rot") is not None:
        with np.errstate(invalid="ignore"):
            q = q @ np.asarray(CUBE_ROTS[cfg["rot"]], dtype=float).T
    return q


class Oracle:
    """Brute-force squared (minimum-image) distances for one configuration."""

    def __init__(self, cfg, coords, msel, box):
        self.cfg, self.coords, self.box = cfg, coords, box
        self.n = len(coords)
        self.sel = np.ones(self.n, dtype=bool) if msel is None else msel
        self.per = "np" if box is None else BOX_KIND[cfg["box"]]
        self.ties_either = box is not None and cfg["box"] not in DYADIC
        self._d2 = {}
        self._q = {}
        self._red = None
        self.lo = self.hi = None
        if self.sel.any():
            self.lo, self.hi = coords[self.sel].min(axis=0), coords[self.sel].max(axis=0)

    def queries(self, qname):
        if qname not in self._q:
            if qname == "atoms":       # the atom positions themselves and points half a lattice step next to them
                q = np.concatenate([self.coords, self.coords + 0.5, self.coords - np.array([0.0, 0.5, 0.5])])
            else:
                q = query_points(self.cfg, qname)
            self._q[qname] = (q, self.outside(q))
        return self._q[qname]

    def reduce(self, x):
        """an exact periodic image of every point inside (or one box next to) the primary cell; points and box
        vectors are dyadic, so x - n@box is exact in float64"""
        x = np.asarray(x, dtype=float).reshape(-1, 3)
        fin = np.isfinite(x).all(axis=1)
        out = x.copy()
        f = geom.lattice_coefficients(x[fin], self.box)
        out[fin] = x[fin] - np.floor(f) @ self.box
        return out

    def d2(self, qname, q, f32=False):
        key = (qname, f32)
        if key not in self._d2:
            if f32:     # the point biotite receives
                with np.errstate(over="ignore", invalid="ignore"):
                    q = q.astype(np.float32).astype(np.float64)
            with np.errstate(invalid="ignore"):
                if self.box is None:
                    d = geom.sq_dist_matrix(q, self.coords)
                else:
                    if self._red is None:
                        self._red = self.reduce(self.coords)
                    d = geom.sq_min_image_matrix(self.reduce(q), self._red, self.box, k=2)
            d = np.where(np.isfinite(d), d, np.inf)      # non-finite query: nothing is within any radius
            self._d2[key] = d
        return self._d2[key]

    def outside(self, q):
        """query point outside the bounding box of the stored atoms (non-periodic) / outside the box (periodic)"""
        q = np.asarray(q, dtype=float).reshape(-1, 3)
        if self.box is not None:
            with np.errstate(invalid="ignore"):
                f = geom.lattice_coefficients(np.where(np.isfinite(q), q, 1e30), self.box)
            return ((f < 0) | (f >= 1)).any(axis=1)
        if self.lo is None:
            return np.ones(len(q), dtype=bool)
        with np.errstate(invalid="ignore"):
            return ~((q >= self.lo) & (q <= self.hi)).all(axis=1)


# ---------------------------------------------------------------------------
# result checks (vectorised over the rows of a batch)
# ---------------------------------------------------------------------------
def rows_to_mask(res, n):
    got = np.zeros((res.shape[0], n), dtype=bool)
    r, c = np.nonzero(res != -1)
    got[r, res[r, c]] = True
    return got


def check_index_array(res, nq, n, within, tie, periodic):
    """res: what biotite returned for a batch.  within/tie: (nq, n) bool.
    Returns None or (mode, row, detail)."""
    if not isinstance(res, np.ndarray) or res.ndim != 2 or res.shape[0] != nq:
        return ("bad_shape", 0, "type %s shape %s" % (type(res).__name__, getattr(res, "shape", None)))
    if res.dtype.kind != "i":
        return ("bad_dtype", 0, str(res.dtype))
    if res.size and (res.min() < -1 or res.max() >= n):
        r = int(np.nonzero(((res < -1) | (res >= n)).any(axis=1))[0][0])
        return ("index_out_of_range", r, res[r].tolist())
    if res.shape[1] > 1:
        badpad = ((res[:, :-1] == -1) & (res[:, 1:] != -1)).any(axis=1)
        if badpad.any():
            r = int(np.nonzero(badpad)[0][0])
            return ("padding_not_trailing", r, res[r].tolist())
    got = rows_to_mask(res, n)
    miss = within & ~got & ~tie
    if miss.any():
        r = int(np.nonzero(miss.any(axis=1))[0][0])
        return ("missing_atom", r, {"row": res[r].tolist(), "missing": np.nonzero(miss[r])[0].tolist()})
    extra = got & ~within & ~tie
    if extra.any():
        r = int(np.nonzero(extra.any(axis=1))[0][0])
        return ("extra_atom", r, {"row": res[r].tolist(), "extra": np.nonzero(extra[r])[0].tolist()})
    if not periodic:
        dup = (res != -1).sum(axis=1) != got.sum(axis=1)
        if dup.any():
            r = int(np.nonzero(dup)[0][0])
            return ("duplicate_index", r, res[r].tolist())
    return None


def check_mask_array(res, nq, n, within, tie):
    if not isinstance(res, np.ndarray) or res.shape != (nq, n):
        return ("bad_shape", 0, "type %s shape %s" % (type(res).__name__, getattr(res, "shape", None)))
    if res.dtype != bool:
        return ("bad_dtype", 0, str(res.dtype))
    miss = within & ~res & ~tie
    if miss.any():
        r = int(np.nonzero(miss.any(axis=1))[0][0])
        return ("missing_atom", r, {"missing": np.nonzero(miss[r])[0].tolist()})
    extra = res & ~within & ~tie
    if extra.any():
        r = int(np.nonzero(extra.any(axis=1))[0][0])
        return ("extra_atom", r, {"extra": np.nonzero(extra[r])[0].tolist()})
    return None


def check_superset_index(res, nq, n, must, tie, sel):
    if not isinstance(res, np.ndarray) or res.ndim != 2 or res.shape[0] != nq:
        return ("bad_shape", 0, "type %s shape %s" % (type(res).__name__, getattr(res, "shape", None)))
    if res.dtype.kind != "i":
        return ("bad_dtype", 0, str(res.dtype))
    if res.size and (res.min() < -1 or res.max() >= n):
        r = int(np.nonzero(((res < -1) | (res >= n)).any(axis=1))[0][0])
        return ("index_out_of_range", r, res[r].tolist())
    if res.shape[1] > 1:
        badpad = ((res[:, :-1] == -1) & (res[:, 1:] != -1)).any(axis=1)
        if badpad.any():
            r = int(np.nonzero(badpad)[0][0])
            return ("padding_not_trailing", r, res[r].tolist())
    got = rows_to_mask(res, n)
    return _superset(got, must, tie, sel, res)


def _superset(got, must, tie, sel, res=None):
    miss = must & ~got & ~tie
    if miss.any():
        r = int(np.nonzero(miss.any(axis=1))[0][0])
        return ("missing_atom", r, {"missing": np.nonzero(miss[r])[0].tolist(),
                                    "row": None if res is None else res[r].tolist()})
    unsel = got & ~sel[None, :]
    if unsel.any():
        r = int(np.nonzero(unsel.any(axis=1))[0][0])
        return ("unselected_atom", r, {"extra": np.nonzero(unsel[r])[0].tolist()})
    return None


def check_superset_mask(res, nq, n, must, tie, sel):
    if not isinstance(res, np.ndarray) or res.shape != (nq, n):
        return ("bad_shape", 0, "type %s shape %s" % (type(res).__name__, getattr(res, "shape", None)))
    if res.dtype != bool:
        return ("bad_dtype", 0, str(res.dtype))
    return _superset(res, must, tie, sel)


# ---------------------------------------------------------------------------
# one operation on one cell list
# ---------------------------------------------------------------------------
# op = {"m": "get"|"cells"|"adj", "q": qset name, "rows": k (prefix of the query set) | [i,...] explicit rows,
#       "r": value | ["cyc", [values], shift], "mask": bool, "single": bool, "qdt": "f64"|"f32"}
def op_rows(op, nq_total):
    rows = op.get("rows")
    if rows is None:
        return np.arange(nq_total)
    if isinstance(rows, int):
        return np.arange(min(rows, nq_total))
    return np.array(rows, dtype=int)


def op_radius(op, nrows):
    r = op["r"]
    if isinstance(r, list):
        vals, shift = r[1], r[2]
        arr = np.asarray(vals)[(np.arange(nrows) + shift) % len(vals)]
        return arr, True
    return r, False


def radius_flavour(r, f, is_arr):
    if is_arr:
        if f == "strided":
            big = np.zeros(2 * len(r), dtype=r.dtype)
            big[::2] = r
            return big[::2]
        if f == "ro":
            a = r.copy()
            a.flags.writeable = False
            return a
        if f in ("f32", "f64", "i64", "i32"):
            return r.astype({"f32": np.float32, "f64": np.float64, "i64": np.int64, "i32": np.int32}[f])
        if f == "ro32":
            a = r.astype(np.float32 if r.dtype.kind == "f" else np.int32)
            a.flags.writeable = False
            return a
        raise ValueError(f)
    if f == "npf32":
        return np.float32(r)
    if f == "npf64":
        return np.float64(r)
    if f == "npi64":
        return np.int64(r)
    if f == "pyint":
        return int(r)
    if f == "zerod":
        return np.array(float(r))
    raise ValueError(f)


def run_op(ctx, cfg, cl, orc, op, count=True, hold=None):
    """Execute one operation, compare, report.  Returns True if clean.
    hold: optional list that receives (op, raw result) for reuse / aliasing checks."""
    m = op["m"]
    n = orc.n
    if m == "adj":
        return run_adj(ctx, cfg, cl, orc, op, count)
    qall, out_all = orc.queries(op["q"])
    rows = op_rows(op, len(qall))
    q = qall[rows]
    d2 = orc.d2(op["q"], qall, op.get("qdt") == "f32")[rows]
    nq = len(q)
    rad, is_arr = op_radius(op, nq)
    qarg = q.astype(np.float32) if op.get("qdt") == "f32" else q
    if op.get("qflav"):
        with np.errstate(invalid="ignore"):
            qarg = flavour_array(q, op["qflav"])
    if m == "get":
        rr = np.asarray(rad, dtype=float)
        r2 = (rr * rr)[:, None] if is_arr else float(rr * rr)
        rarg = rad.astype(np.float32 if op.get("qdt") == "f32" else np.float64) if is_arr else rad
    else:
        cr = np.asarray(rad, dtype=float) * cfg["cs"]
        r2 = (cr * cr)[:, None] if is_arr else float(cr * cr)
        rarg = rad.astype(np.int32 if op.get("qdt") == "f32" else np.int64) if is_arr else int(rad)
    if op.get("rflav"):
        rarg = radius_flavour(rarg, op["rflav"], is_arr)
    within = (d2 <= r2) & orc.sel[None, :]
    tie = ((d2 == r2) & orc.sel[None, :]) if orc.ties_either else np.zeros_like(within)
    if orc.ties_either:
        # a query > 1000 away from an inexact box loses its low bits when it is wrapped in float32: class EITHER
        with np.errstate(invalid="ignore"):
            far = (np.abs(q) > 5000).any(axis=1)
        tie = tie | far[:, None]
    single = bool(op.get("single"))
    as_mask = bool(op.get("mask"))
    fn = cl.get_atoms if m == "get" else cl.get_atoms_in_cells
    try:
        if single:
            outs = []
            for i in range(nq):
                outs.append(fn(qarg[i], rarg, as_mask=as_mask))
        else:
            res = fn(qarg, rarg, as_mask=as_mask)
    except Exception as e:  # noqa: BLE001
        if op.get("either"):            # flavour outside the documented argument types: exception or exact value
            ctx.count("unspecified")
            ctx.count("unspecified_refused")
            return True
        if op.get("qflav") or op.get("rflav"):
            fl = "query_%s" % op["qflav"] if op.get("qflav") else "radius_%s" % op["rflav"]
            ctx.violation("%s|raises_%s|%s" % (SITE[m], type(e).__name__, fl),
                          "a legal array flavour raised %s: %s" % (type(e).__name__, str(e)[:200]),
                          {"kind": "op", "cfg": cfg, "op": dict(op)}, expected="result", observed=type(e).__name__)
            return False
        report(ctx, cfg, op, orc, "raises_%s" % type(e).__name__, q, rows, 0,
               "legal query raised %s: %s" % (type(e).__name__, str(e)[:200]), "result", type(e).__name__)
        return False
    if op.get("either"):
        ctx.count("unspecified")
    if hold is not None:
        hold.append((op, outs if single else res))
    if single:
        # normalise the per-call results into the batch form, checking the single-call shapes
        for i, o in enumerate(outs):
            ok = isinstance(o, np.ndarray) and o.ndim == 1 and (o.shape == (n,) if as_mask else True)
            if not ok:
                report(ctx, cfg, op, orc, "bad_shape", q, rows, i, "single query result has the wrong shape",
                       "(n,) mask / (p,) indices", "type %s shape %s" % (type(o).__name__, getattr(o, "shape", None)))
                return False
        if as_mask:
            res = np.array(outs, dtype=outs[0].dtype).reshape(nq, n)
        else:
            w = max([len(o) for o in outs] + [1])
            if any(o.dtype.kind != "i" for o in outs):
                report(ctx, cfg, op, orc, "bad_dtype", q, rows, 0, "index result is not an integer array", "int32",
                       str([str(o.dtype) for o in outs][:3]))
                return False
            res = np.full((nq, w), -1, dtype=np.int64)
            for i, o in enumerate(outs):
                res[i, :len(o)] = o
    if m == "get":
        bad = check_mask_array(res, nq, n, within, tie) if as_mask else \
            check_index_array(res, nq, n, within, tie, orc.box is not None)
    else:
        bad = check_superset_mask(res, nq, n, within, tie, orc.sel) if as_mask else \
            check_superset_index(res, nq, n, within, tie, orc.sel)
    if count:
        nsel = int(orc.sel.sum())
        cnt = within.sum(axis=1)
        nontriv = (cnt > 0) & (cnt < nsel)
        nontriv = nontriv | ((cnt > 0) & out_all[rows])
        if orc.box is not None or nsel < n:
            nontriv = nontriv | (cnt > 0)
        ctx.ev(nq, int(nontriv.sum()))
        ctx.count("accepted", nq)
        if tie.any():
            ctx.count("periodic_tie_either", int(tie.sum()))
        if m == "cells" and bad is None:
            got = res if as_mask else rows_to_mask(res, n)
            ctx.count("cells_strict_superset_rows", int((got & ~within).any(axis=1).sum()))
        if bad is None:
            ctx.outcome(within.tobytes() + repr((m, op["q"], op["r"], as_mask, single)).encode())
    if bad is not None:
        mode, r, detail = bad
        report(ctx, cfg, op, orc, mode, q, rows, r,
               "%s result disagrees with brute force" % ("get_atoms" if m == "get" else "get_atoms_in_cells"),
               {"atoms_within": np.nonzero(within[r])[0].tolist()}, detail)
        return False
    return True


def run_adj(ctx, cfg, cl, orc, op, count=True):
    n = orc.n
    r = op["r"]
    key = "__adj__"
    if key not in orc._d2:
        if orc.box is None:
            orc._d2[key] = geom.sq_dist_matrix(orc.coords, orc.coords)
        else:
            red = orc.reduce(orc.coords)
            orc._d2[key] = geom.sq_min_image_matrix(red, red, orc.box, k=2)
    d2 = orc._d2[key]
    pair_sel = orc.sel[:, None] & orc.sel[None, :]
    exp = (d2 <= r * r) & pair_sel
    tie = ((d2 == r * r) & pair_sel) if orc.ties_either else np.zeros_like(exp)
    try:
        res = cl.create_adjacency_matrix(r)
    except Exception as e:  # noqa: BLE001
        report(ctx, cfg, op, orc, "raises_%s" % type(e).__name__, None, None, 0,
               "create_adjacency_matrix raised %s: %s" % (type(e).__name__, str(e)[:200]), "matrix", type(e).__name__)
        return False
    if count:
        ctx.ev(n * n, int((exp.sum(axis=1) > 1).sum()) * n if n > 1 else 0)
        ctx.count("accepted", n * n)
    bad = None
    if not isinstance(res, np.ndarray) or res.shape != (n, n):
        bad = ("bad_shape", "type %s shape %s" % (type(res).__name__, getattr(res, "shape", None)))
    elif res.dtype != bool:
        bad = ("bad_dtype", str(res.dtype))
    elif ((res != exp) & ~tie).any():
        i, j = (int(x[0]) for x in np.nonzero((res != exp) & ~tie))
        bad = ("missing_pair" if exp[i, j] else "extra_pair", {"i": i, "j": j, "d2": float(d2[i, j])})
    elif (res != res.T).any() and not tie.any():
        i, j = (int(x[0]) for x in np.nonzero(res != res.T))
        bad = ("asymmetric", {"i": i, "j": j})
    if bad is not None:
        report(ctx, cfg, op, orc, bad[0], None, None, 0, "adjacency matrix disagrees with the thresholded distance matrix",
               exp.astype(int).tolist() if n <= 10 else "thresholded matrix", bad[1])
        return False
    if count:
        ctx.outcome(("adj", r, exp.tobytes()))
    return True


def input_class(cfg, op, orc, q, r):
    parts = [orc.per, "sel" if cfg.get("sel") else "nosel"]
    if "inplace" in op:
        parts.append("after_in_place_edit:" + op["inplace"].split(",")[0] + ":" + op["inplace"].split("/")[-1])
    if cfg.get("prec"):
        parts.append(build_class(cfg) + (",boxes_differ" if cfg["prec"][0] and cfg["prec"][1] and cfg["prec"][0] != cfg["prec"][1] else ""))
    if op["m"] != "adj":
        qq = q[r] if q is not None and len(q) else None
        if qq is not None and not np.isfinite(qq).all():
            parts.append("q_nonfinite")
        elif qq is not None:
            parts.append("q_outside" if orc.outside(qq)[0] else "q_inside")
        parts.append("r_array" if isinstance(op["r"], list) else "r_scalar")
        parts.append("single" if op.get("single") else "batch")
        parts.append("mask" if op.get("mask") else "idx")
    return ",".join(parts)


SITE = {"get": "get_atoms", "cells": "get_atoms_in_cells", "adj": "create_adjacency_matrix"}


def report(ctx, cfg, op, orc, mode, q, rows, r, what, expected, observed):
    case = {"kind": "reuse" if "reuse" in op else "inplace" if "inplace" in op else "op", "cfg": cfg, "op": dict(op)}
    if q is not None:
        case["row"] = int(r)
        case["query"] = [float(x) if np.isfinite(x) else repr(float(x)) for x in q[r]]
    sig = "%s|%s|%s" % (SITE[op["m"]], mode, input_class(cfg, op, orc, q, r))
    ctx.violation(sig, what, case, expected=expected, observed=observed)


# ---------------------------------------------------------------------------
# programs
# ---------------------------------------------------------------------------
def capped(cs, r, maxlen, qname, is_cells=False, level="full"):
    """number of query rows so that rows x (2c+1)^3 x maxlen stays below MAX_SLOTS"""
    c = r if is_cells else int(math.ceil(r / cs))
    per = (2 * c + 1) ** 3 * max(1, maxlen)
    return max(8, min(len(QSETS[qname]), MAX_SLOTS[level] // per))


def max_cell_len(coords, box):
    # upper bound for the worst-case buffer: every atom (and periodic copy) in one cell
    return len(coords) * (27 if box is not None else 1)


_PROGRAMS = {}


def program(cfg, coords, box, level):
    """cached: the program only depends on cell size, worst-case cell length and level"""
    key = (cfg["cs"], max_cell_len(coords, box), level)
    if key not in _PROGRAMS:
        ops = _program(cfg, coords, box, level)
        _PROGRAMS[key] = [(op, json.dumps(op, separators=(",", ":"))) for op in ops]
    return _PROGRAMS[key]


def _program(cfg, coords, box, level):
    """The list of operations for one cell list.
    level 'full' (structured sets, 4920 queries), 'mid' (736 queries), 'lite' (736 queries, fewer result-form
    repeats), 'mini' (132 queries), 'tiny' / 'micro' (132 queries, fewest repeats; micro = k=3 over the full lattice).  Every level issues every method, every
    radius (scalar), per-query radii, index and mask forms, batched and single queries."""
    cs = cfg["cs"]
    ml = max_cell_len(coords, box)
    qn = {"lite": "lite", "mid": "lite", "full": "full", "mini": "mini", "tiny": "mini", "micro": "mini"}[level]
    rich = level in ("mid", "full")
    micro = level == "micro"
    ops = []
    for i, r in enumerate(RADII):
        k = capped(cs, r, ml, qn, False, level)
        ops.append({"m": "get", "q": qn, "rows": k, "r": r})
        if rich or (level in ("lite", "mini") and r in (0.0, 1.5, 5.0)) or (level in ("tiny", "micro") and r == 1.5):
            ops.append({"m": "get", "q": qn, "rows": k, "r": r, "mask": True})
        if level not in ("tiny", "micro") or r in ((0.0, 1.0, 2.5) if level == "tiny" else (1.0, 2.5)):
            ops.append({"m": "adj", "r": r})
    # per-query radii: every query paired with the radii of a cycling triple
    cyc = (([0.0, 1.0, 2.5], 0), ([0.5, 1.5, 2.0], 1), ([5.0, 0.0, 0.5], 2))
    for ci, (vals, shift) in enumerate(cyc):
        k = capped(cs, max(vals), ml, qn, False, level)
        if rich or (ci != 1 and not (micro and ci == 2)):
            ops.append({"m": "get", "q": qn, "rows": k, "r": ["cyc", vals, shift]})
        if rich or ci == 1:
            ops.append({"m": "get", "q": qn, "rows": k, "r": ["cyc", vals, shift], "mask": True, "qdt": "f32"})
    for c in CELL_RADII:
        k = capped(cs, c, ml, qn, True, level)
        ops.append({"m": "cells", "q": qn, "rows": k, "r": c})
        if rich or (c == 1 and not micro):
            ops.append({"m": "cells", "q": qn, "rows": k, "r": c, "mask": True})
    k = capped(cs, 3, ml, qn, True, level)
    ops.append({"m": "cells", "q": qn, "rows": k, "r": ["cyc", [0, 3, 1, 2], 0]})
    if level not in ("tiny", "micro"):
        ops.append({"m": "cells", "q": qn, "rows": k, "r": ["cyc", [2, 0, 1], 1], "mask": True, "qdt": "f32"})
    # single (3,) queries: one far point, one non-finite point and the first lattice points of the query set
    nsingle = {"micro": 4, "tiny": 5, "lite": 10, "mini": 10, "mid": 60, "full": 400}[level]
    srows = [0, 4] + list(range(len(EXTRA_Q), len(EXTRA_Q) + nsingle - 2))
    if rich:
        for r in (0.0, 1.0, 2.5, 5.0):
            ops.append({"m": "get", "q": qn, "rows": srows, "r": r, "single": True})
            ops.append({"m": "get", "q": qn, "rows": srows, "r": r, "single": True, "mask": True})
        ops.append({"m": "cells", "q": qn, "rows": srows, "r": 1, "single": True})
        ops.append({"m": "cells", "q": qn, "rows": srows, "r": 2, "single": True, "mask": True})
    else:
        ops.append({"m": "get", "q": qn, "rows": srows, "r": 0.5, "single": True})
        ops.append({"m": "get", "q": qn, "rows": srows, "r": 2.0, "single": True, "mask": True})
        if not micro:
            ops.append({"m": "cells", "q": qn, "rows": srows, "r": 1, "single": True, "mask": level == "tiny"})
    return ops


def cfg_tag(cfg):
    return json.dumps(cfg, separators=(",", ":"))


def run_config(ctx, cfg, level):
    """Build one cell list and run its program.  Returns False if construction failed unexpectedly."""
    tag = cfg_tag(cfg)
    if not ctx.journal(tag + "#build"):
        return False
    try:
        cl, coords, msel, box = build_celllist(cfg)
    except Exception as e:  # noqa: BLE001
        ctx.ev(1, 1)
        ctx.violation("CellList|raises_%s|%s" % (type(e).__name__, build_class(cfg)),
                      "legal constructor input raised %s: %s" % (type(e).__name__, str(e)[:200]),
                      {"kind": "build", "cfg": cfg}, expected="cell list", observed=type(e).__name__)
        return False
    orc = Oracle(cfg, coords, msel, box)
    for op, opjson in program(cfg, coords, box, level):
        if not ctx.journal(tag + "#" + opjson):
            continue
        run_op(ctx, cfg, cl, orc, op)
    return True


def build_class(cfg):
    if cfg.get("prec"):
        own, arg, periodic = cfg["prec"]
        return "own_%s,arg_%s,periodic_%s" % ("box" if own else "none", "box" if arg else "none", periodic)
    s = cfg.get("sel")
    if s is not None and s[0] == "strided":
        return "selection_noncontiguous"
    if s is not None and s[0] == "flav":
        return "selection_%s" % s[1]
    if cfg.get("boxflav"):
        return "box_%s" % cfg["boxflav"]
    if cfg.get("form", "f32") not in ("f32", "f64", "atoms"):
        return "coord_%s" % cfg["form"]
    parts = ["np" if cfg.get("box") is None else BOX_KIND[cfg["box"]]]
    parts.append("nosel" if s is None else "sel_" + s[0])
    parts.append(cfg.get("form", "f32"))
    return ",".join(parts)


# ---------------------------------------------------------------------------
# shards
# ---------------------------------------------------------------------------
def shards(tier, seed):
    off = 1 + seed % (len(OFFSETS) - 1)
    out = []
    allb = list(BOXES)
    if tier == "quick":
        ms = [("ms", 1, 1, "lite"), ("ms", 2, 16, "tiny"), ("ms27", 3, 8, "tiny")]
        pms = [("ms27", 1, 1, "mini", allb), ("ms27", 2, 4, "tiny", ["o2.5", "o4", "t1", "t2"])]
    else:
        ms = [("ms", 1, 1, "mid"), ("ms", 2, 16, "lite"), ("ms64", 3, 48, "tiny"), ("msc", 3, 8, "tiny"),
              ("ms27", 4, 24, "tiny")]
        pms = [("ms27", 1, 1, "mini", allb), ("ms27", 2, 4, "mini", allb), ("ms27", 3, 8, "tiny", allb),
               ("ms", 2, 8, "tiny", ["o3", "t1"])]
    for fam, k, parts, level in ms:
        for p in range(parts):
            out.append({"kind": "ms", "fam": fam, "k": k, "part": p, "parts": parts, "off": off, "level": level})
    for fam, k, parts, level, boxes in pms:
        for bname in boxes:
            for p in range(parts):
                out.append({"kind": "pms", "fam": fam, "k": k, "part": p, "parts": parts, "box": bname, "off": off,
                            "level": level})
    for name in STRUCT:
        for cs in CELL_SIZES:
            out.append({"kind": "st", "set": name, "cs": cs, "off": 0})
        out.append({"kind": "st", "set": name, "cs": None, "off": off})     # all cell sizes, 'mid' program
    for bname in BOXES:
        for name in STRUCT:
            out.append({"kind": "pst", "set": name, "box": bname, "off": 0 if tier == "quick" else off})
    for name in (STRUCT_SMALL if tier == "quick" else list(STRUCT)):
        out.append({"kind": "sel", "set": name, "box": None, "off": off})
    for name in ("g222", "border", "sparse") if tier == "quick" else STRUCT_SMALL:
        for bname in ("o3", "o4", "t1") if tier == "quick" else list(BOXES):
            out.append({"kind": "sel", "set": name, "box": bname, "off": 0})
    out.append({"kind": "assign", "off": off})
    out.append({"kind": "misc", "off": off})
    # dimension audit families
    for n in CAP_N:
        out.append({"kind": "cap", "n": n, "part": "atoms", "off": off})
    out.append({"kind": "cap", "part": "overflow", "off": 0})
    out.append({"kind": "reuse", "off": off})
    out.append({"kind": "alias", "off": off})
    out.append({"kind": "flavour", "off": 0})
    out.append({"kind": "flavour_pairs", "off": 0})
    out.append({"kind": "derived", "off": 0})
    out.append({"kind": "derived", "off": off})
    out.append({"kind": "precedence", "off": 0})
    out.append({"kind": "boundary", "off": 0})
    out.append({"kind": "inplace", "off": 0})
    out.append({"kind": "orient", "what": "order", "off": off})
    out.append({"kind": "orient", "what": "boxrows", "off": off})
    for r in (range(24) if tier == "thorough" else [(5 * seed + k) % 24 for k in (1, 10, 19)]):
        out.append({"kind": "orient", "what": "rot", "rot": r, "off": off})
    out.append({"kind": "edge", "off": off})
    # heavy shards first
    weight = {"st": 0, "pst": 0, "ms": 1, "pms": 1, "sel": 2, "assign": 3, "misc": 3, "cap": 0, "reuse": 2, "alias": 2,
              "flavour": 2, "orient": 2, "edge": 3, "flavour_pairs": 2, "derived": 2, "precedence": 2, "boundary": 2, "inplace": 2}
    out.sort(key=lambda s: weight[s["kind"]])
    return out


def run_shard(shard, ctx):
    # non-finite query points make biotite's box helpers emit RuntimeWarnings; they are part of the alphabet
    with np.errstate(invalid="ignore", over="ignore"):
        _run_shard(shard, ctx)


def _run_shard(shard, ctx):
    k = shard["kind"]
    if k == "ms":
        run_ms(shard, ctx, None)
    elif k == "pms":
        run_ms(shard, ctx, shard["box"])
    elif k == "st":
        run_st(shard, ctx)
    elif k == "pst":
        run_pst(shard, ctx)
    elif k == "sel":
        run_sel(shard, ctx)
    elif k == "assign":
        run_assign(shard, ctx)
    elif k == "misc":
        run_misc(shard, ctx)
    elif k in AUDIT_RUNNERS:
        AUDIT_RUNNERS[k](shard, ctx)
    else:
        raise ValueError(shard)


def run_ms(shard, ctx, bname):
    fam, k, part, parts = shard["fam"], shard["k"], shard["part"], shard["parts"]
    npts = {"ms": 125, "msc": 125, "ms64": 64, "ms27": 27}[fam]
    level = shard.get("level", "lite")
    if fam == "msc":
        # k points of the full lattice, one of them the corner (0,0,0), not all inside the 64-point sub-lattice
        # (those are enumerated by the ms64 family): no case is repeated
        gen = ((0,) + t for t in geom.multisets(125, k - 1) if not all(IN64[i] for i in t))
        fam = "ms"
    else:
        gen = geom.multisets(npts, k)
    for idx, tup in enumerate(gen):
        if idx % parts != part:
            continue
        for cs in CELL_SIZES:
            cfg = {"set": [fam, list(tup)], "cs": cs, "off": shard["off"]}
            if bname is not None:
                cfg["box"] = bname
            # input forms rotate with the case index (every form meets every cell size)
            cfg["form"] = ("f32", "f64", "atoms")[(idx + CELL_SIZES.index(cs)) % 3]
            run_config(ctx, cfg, level)
        if len(ctx.samples) < 2 and k >= 2 and idx % 97 == 5:
            ctx.sample({"set": [fam, list(tup)], "box": bname, "cell_sizes": CELL_SIZES})


def run_st(shard, ctx):
    if shard["cs"] is not None:
        for form in ("f32", "atoms"):
            cfg = {"set": ["st", shard["set"]], "cs": shard["cs"], "off": shard["off"], "form": form}
            run_config(ctx, cfg, "full" if form == "f32" else "mid")
        ctx.sample({"set": shard["set"], "cs": shard["cs"], "queries": "full"})
    else:
        for cs in CELL_SIZES:
            cfg = {"set": ["st", shard["set"]], "cs": cs, "off": shard["off"], "form": "f64"}
            run_config(ctx, cfg, "mid")


def run_pst(shard, ctx):
    for i, cs in enumerate(CELL_SIZES):
        cfg = {"set": ["st", shard["set"]], "cs": cs, "off": shard["off"], "box": shard["box"],
               "form": ("f32", "atoms", "f64")[i % 3]}
        run_config(ctx, cfg, "mid")


def selections(n):
    yield ["clear", []]
    for i in range(n):
        yield ["clear", [i]]
    for i, j in itertools.combinations(range(n), 2):
        yield ["clear", [i, j]]


def run_sel(shard, ctx):
    n = len(STRUCT[shard["set"]])
    for si, s in enumerate(selections(n)):
        for ci, cs in enumerate(CELL_SIZES):
            cfg = {"set": ["st", shard["set"]], "cs": cs, "off": shard["off"], "sel": s,
                   "form": ("f32", "atoms")[(si + ci) % 2]}
            if shard["box"] is not None:
                cfg["box"] = shard["box"]
            run_config(ctx, cfg, "mini")
    # non-contiguous selection view: a legal boolean mask
    for cs in (0.5, 3.0):
        cfg = {"set": ["st", shard["set"]], "cs": cs, "off": shard["off"], "sel": ["strided"]}
        if shard["box"] is not None:
            cfg["box"] = shard["box"]
        run_config(ctx, cfg, "mini")
    # all-False selection: statement silent -> exception or empty results
    cfg = {"set": ["st", shard["set"]], "cs": 1.0, "off": shard["off"], "sel": ["none"]}
    if shard["box"] is not None:
        cfg["box"] = shard["box"]
    either_build(ctx, cfg)


def either_build(ctx, cfg):
    ctx.count("unspecified")
    ctx.ev(1)
    if not ctx.journal(cfg_tag(cfg) + "#either_build"):
        return
    try:
        cl, coords, msel, box = build_celllist(cfg)
    except Exception:  # noqa: BLE001
        ctx.count("unspecified_refused")
        return
    orc = Oracle(cfg, coords, msel, box)
    for op in ({"m": "get", "q": "mini", "rows": 40, "r": 5.0}, {"m": "get", "q": "mini", "rows": 40, "r": 1.0, "mask": True},
               {"m": "cells", "q": "mini", "rows": 40, "r": 2}, {"m": "adj", "r": 2.0}):
        run_op(ctx, cfg, cl, orc, op)


ASSIGN_RADII = [[0.0, 1.0, 2.5], [0.5, 1.5, 5.0], [2.0, 0.0, 0.5], [1.0, 1.0, 2.0]]


def run_assign(shard, ctx):
    """every assignment from a radius triple to k <= 3 queries, as literal small calls"""
    qall = query_points({"off": shard["off"]}, "mini")
    # ten query triples: consecutive rows of the permuted 'mini' set (finite rows only)
    finite = [i for i in range(len(qall)) if np.isfinite(qall[i]).all()]
    triples = [finite[3 * t: 3 * t + 3] for t in range(10)]
    for name in ("border", "sparse", "g333h"):
        for cs in (0.5, 1.5, 10.0):
            for bname in (None, "o3", "t2"):
                cfg = {"set": ["st", name], "cs": cs, "off": shard["off"]}
                if bname:
                    cfg["box"] = bname
                tag = cfg_tag(cfg)
                if not ctx.journal(tag + "#build"):
                    continue
                cl, coords, msel, box = build_celllist(cfg)
                orc = Oracle(cfg, coords, msel, box)
                for radii in ASSIGN_RADII:
                    for tr in triples:
                        for k in (1, 2, 3):
                            for asg in itertools.product(range(3), repeat=k):
                                vals = [radii[a] for a in asg]
                                op = {"m": "get", "q": "mini", "rows": tr[:k], "r": ["cyc", vals, 0],
                                      "mask": bool(sum(asg) % 2)}
                                ctx.journal(tag + "#assign")
                                run_op(ctx, cfg, cl, orc, op)
                        asg_c = [[0, 1, 2], [2, 0, 0], [1, 3, 1]]
                        for vals in asg_c:
                            op = {"m": "cells", "q": "mini", "rows": tr, "r": ["cyc", vals, 0]}
                            run_op(ctx, cfg, cl, orc, op)


def run_misc(shard, ctx):
    """documented refusals and silent corners"""
    import biotite.structure as struc

    coords = (STRUCT["sparse"] + np.array(OFFSETS[shard["off"]])).astype(np.float32)
    # REFUSE: cell size <= 0, AtomArrayStack
    for cs in (0.0, -1.0):
        ctx.ev(1, 1)
        ctx.count("refused")
        ctx.journal(json.dumps({"misc": "cell_size", "cs": cs}))
        try:
            struc.CellList(coords, cs)
            ctx.violation("CellList|accepted|cell_size_not_positive", "cell_size <= 0 was not refused",
                          {"kind": "misc", "what": "cell_size", "cs": cs, "off": shard["off"]}, "exception", "returned")
        except Exception:  # noqa: BLE001
            pass
    ctx.ev(1, 1)
    ctx.count("refused")
    ctx.journal(json.dumps({"misc": "stack"}))
    st = struc.AtomArrayStack(2, len(coords))
    st.coord[:] = coords
    try:
        struc.CellList(st, 1.0)
        ctx.violation("CellList|accepted|atom_array_stack", "AtomArrayStack was not refused",
                      {"kind": "misc", "what": "stack", "off": shard["off"]}, "TypeError", "returned")
    except Exception:  # noqa: BLE001
        pass
    # EITHER: negative radius, empty batch
    cl = struc.CellList(coords, 1.0)
    q = coords[:2].astype(np.float64)
    for what, call in (
        ("neg_radius", lambda: cl.get_atoms(q, -0.5)),
        ("neg_radius_array", lambda: cl.get_atoms(q, np.array([1.0, -0.5]))),
        ("neg_cell_radius", lambda: cl.get_atoms_in_cells(q, -1)),
        ("empty_batch", lambda: cl.get_atoms(np.zeros((0, 3)), 1.0)),
        ("empty_batch_mask", lambda: cl.get_atoms(np.zeros((0, 3)), 1.0, as_mask=True)),
        ("empty_batch_cells", lambda: cl.get_atoms_in_cells(np.zeros((0, 3)), 1)),
        ("neg_threshold", lambda: cl.create_adjacency_matrix(-1.0)),
    ):
        ctx.ev(1)
        ctx.count("unspecified")
        if not ctx.journal(json.dumps({"misc": what})):
            continue
        try:
            res = call()
        except Exception:  # noqa: BLE001
            ctx.count("unspecified_refused")
            continue
        res = np.asarray(res)
        empty = res.size == 0 or (res.dtype == bool and not res.any()) or (res.dtype.kind == "i" and (res == -1).all())
        if not empty:
            ctx.violation("CellList|nonempty_result|%s" % what, "a query that can match nothing returned atoms",
                          {"kind": "misc", "what": what, "off": shard["off"]}, "exception or empty", res.tolist())


# ---------------------------------------------------------------------------
# dimension audit families (capacity, reuse, aliasing, array flavours, orientation, edges)
# ---------------------------------------------------------------------------
CAP_N = [63, 64, 65, 127, 128, 129, 255, 256, 257, 1000, 1025]


def run_cap(shard, ctx):
    """many atoms in one cell (cell capacity / result buffer sizes) and cell radii whose worst-case buffer length
    (2c+1)^3 * max_cell_length leaves the int range"""
    if shard["part"] == "overflow":
        run_overflow(shard, ctx)
        return
    n = shard["n"]
    for kind in ("same", "two"):
        for cs in (1.5, 10.0):
            for bname in (None, "o4") if n <= 257 else (None,):
                cfg = {"set": [kind, n], "cs": cs, "off": shard["off"], "form": ("f32", "atoms", "f64")[n % 3]}
                if bname:
                    cfg["box"] = bname
                run_cap_config(ctx, cfg, n)


def run_cap_config(ctx, cfg, n):
    """own short program: biotite's worst-case buffers grow with (2c+1)^3 * atoms per cell (* n rows for the adjacency
    matrix), so cell radii stay <= 2 and the adjacency matrix with a non-zero radius is only asked for n <= 257"""
    tag = cfg_tag(cfg)
    if not ctx.journal(tag + "#build"):
        return
    cl, coords, msel, box = build_celllist(cfg)
    orc = Oracle(cfg, coords, msel, box)
    ml = max_cell_len(coords, box)
    cs = cfg["cs"]
    ops = []
    for r in (0.0, 0.5, 1.5):
        ops.append({"m": "get", "q": "mini", "rows": capped(cs, r, ml, "mini", False, "mini"), "r": r})
    ops.append({"m": "get", "q": "mini", "rows": capped(cs, 0.5, ml, "mini", False, "mini"), "r": 0.5, "mask": True})
    ops.append({"m": "get", "q": "mini", "rows": capped(cs, 1.5, ml, "mini", False, "mini"), "r": ["cyc", [0.0, 0.5, 1.5], 1]})
    for c in (0, 1, 2):
        ops.append({"m": "cells", "q": "mini", "rows": capped(cs, c, ml, "mini", True, "mini"), "r": c})
    ops.append({"m": "cells", "q": "mini", "rows": capped(cs, 1, ml, "mini", True, "mini"), "r": 1, "mask": True})
    ops.append({"m": "cells", "q": "mini", "rows": capped(cs, 2, ml, "mini", True, "mini"), "r": ["cyc", [0, 2, 1], 0]})
    ops.append({"m": "adj", "r": 0.0})
    if n <= 257:
        ops.append({"m": "adj", "r": 1.5})
    ops.append({"m": "get", "q": "mini", "rows": [0, 4, 7, 8], "r": 0.5, "single": True})
    for op in ops:
        if ctx.journal(tag + "#" + json.dumps(op, separators=(",", ":"))):
            run_op(ctx, cfg, cl, orc, op)


def _overflow_probe(args):
    """runs in a forked child with a capped address space"""
    import itertools as it
    import resource

    import biotite.structure as struc

    kind, cs, crad, method = args
    with open("/proc/self/statm") as f:
        vm = int(f.read().split()[0]) * os.sysconf("SC_PAGE_SIZE")
    lim = vm + 3 * 2 ** 30
    resource.setrlimit(resource.RLIMIT_AS, (lim, lim))
    if kind == "grid44":          # 85184 atoms, one per cell
        g = np.arange(44, dtype=np.float32) * cs
        coords = np.array(list(it.product(g, g, g)), dtype=np.float32)
        q = np.array([[20.0 * cs] * 3])
    else:
        L = int(kind[1:])
        coords = np.array([[0.0, 0, 0]] * L + [[2.0, 2, 2]], dtype=np.float32)
        q = np.array([[0.0, 0, 0], [1.0, 1, 1]])
    cl = struc.CellList(coords, cs)
    try:
        if method == "cells":
            r = cl.get_atoms_in_cells(q, crad, as_mask=True)
        else:
            r = cl.get_atoms(q, crad * cs, as_mask=True)
    except Exception as e:  # noqa: BLE001
        return ("exc", type(e).__name__)
    return ("ok", bool(r.all()), r.shape == (len(q), len(coords)))


def run_overflow(shard, ctx):
    probes = [("grid44", 1.0, 1625, "cells"), ("grid44", 1.0, 1625, "get"), ("grid44", 0.5, 1625, "cells")]
    # few atoms: (2c+1)^3 * L wraps to a negative int (645), to a positive one that is too large to matter (813: 11.9 M
    # slots) or to a small positive one (1625: 83 883 * L slots)
    for kind, crad in (("L3", 645), ("L1", 813), ("L1", 1625), ("L3", 1625)):
        for method in ("cells", "get"):
            probes.append((kind, 0.5, crad, method))
    for pr in probes:
        case = {"kind": "overflow", "probe": list(pr)}
        if not ctx.journal(case):
            continue
        ctx.ev(1, 1)
        ctx.count("unspecified")
        r = ctx.isolated(_overflow_probe, pr, timeout=120)
        ctx.outcome(("overflow", pr, r[:2]))
        judge_overflow(ctx, case, pr, r)


def judge_overflow(ctx, case, pr, r):
    site = "get_atoms_in_cells" if pr[3] == "cells" else "get_atoms"
    cls = "buffer_length_overflow_%s" % ("grid" if pr[0] == "grid44" else "few_atoms")
    if r[0] in ("signal", "timeout", "exit"):
        ctx.violation("%s|process_%s|%s" % (site, r[0], cls),
                      "a query whose worst-case result length (2c+1)^3 * max_cell_length exceeds the int range "
                      "terminated the process (%r)" % (r,), case, expected="exact result or exception", observed=list(r))
    elif r[0] == "exc":
        ctx.count("unspecified_refused")
    elif r[0] == "ok" and r[1][0] != "exc" and not (r[1][1] and r[1][2]):
        ctx.violation("%s|wrong_result|%s" % (site, cls), "a radius covering every atom did not return every atom",
                      case, expected="all atoms", observed=list(r[1]))
    elif r[0] == "ok" and r[1][0] == "exc":
        ctx.count("unspecified_refused")


REFUSED_CALLS = [
    ("neg_radius", lambda cl, q: cl.get_atoms(q, -1.0)),
    ("bad_query_shape", lambda cl, q: cl.get_atoms(q[:, :2], 1.0)),
    ("radii_length_mismatch", lambda cl, q: cl.get_atoms(q, np.array([1.0]))),
    ("neg_cell_radius_array", lambda cl, q: cl.get_atoms_in_cells(q, np.array([-1] * len(q)))),
    ("neg_threshold", lambda cl, q: cl.create_adjacency_matrix(-1.0)),
]


def run_reuse(shard, ctx):
    """ONE cell list answers the whole program three times in different orders, with refused calls in between; every
    answer is compared with brute force, and the arrays handed out earlier must still hold their values at the end"""
    for name in ("border", "sparse"):
        for bname in (None, "o3", "t2"):
            for cs in (0.5, 1.5):
                cfg = {"set": ["st", name], "cs": cs, "off": shard["off"]}
                if bname:
                    cfg["box"] = bname
                run_reuse_cfg(ctx, cfg)


def run_reuse_cfg(ctx, cfg):
    tag = cfg_tag(cfg)
    if not ctx.journal(tag + "#reuse"):
        return
    cl, coords, msel, box = build_celllist(cfg)
    orc = Oracle(cfg, coords, msel, box)
    ops = [op for op, _ in program(cfg, coords, box, "mini")]
    # batches of identical shape but different points, alternating (a stale per-shape cache would show)
    ra, rb = list(range(7, 47)), list(range(47, 87))
    for r in (1.0, 2.5):
        ops += [{"m": "get", "q": "mini", "rows": ra, "r": r}, {"m": "get", "q": "mini", "rows": rb, "r": r},
                {"m": "get", "q": "mini", "rows": ra, "r": r, "mask": True},
                {"m": "cells", "q": "mini", "rows": rb, "r": 1}, {"m": "cells", "q": "mini", "rows": ra, "r": 1}]
    held = []
    orders = [ops, ops[::-1], ops[::2] + ops[1::2]]
    q3 = query_points(cfg, "mini")[7:10]
    for oi, order in enumerate(orders):
        for k, op in enumerate(order):
            if k % 7 == 3:      # a refused call in between must not disturb the next answers
                nm, fn = REFUSED_CALLS[(k // 7 + oi) % len(REFUSED_CALLS)]
                ctx.count("refused")
                try:
                    fn(cl, q3)
                except Exception:  # noqa: BLE001
                    pass
            hold = []
            # 'reuse' marks the operation as history dependent: the violation case then names the whole sequence
            run_op(ctx, cfg, cl, orc, dict(op, reuse=[oi, k]), hold=hold)
            for o, res in hold:
                arrs = res if isinstance(res, list) else [res]
                held.append((o, arrs, [np.array(a, copy=True) for a in arrs]))
    bad = [o for o, arrs, copies in held if any(not np.array_equal(a, c) for a, c in zip(arrs, copies))]
    ctx.ev(len(held), len(held))
    if bad:
        ctx.violation("%s|earlier_result_changed|%s" % (SITE[bad[0]["m"]], orc.per),
                      "an array returned by an earlier query changed during later queries on the same cell list",
                      {"kind": "reuse", "cfg": cfg, "op": bad[0]}, expected="unchanged", observed="changed")


def _snap(x):
    """value snapshot of a constructor / query argument"""
    if x is None:
        return None
    if hasattr(x, "coord"):
        return (x.coord.tobytes(), None if x.box is None else x.box.tobytes())
    if isinstance(x, np.ndarray):
        return (x.tobytes(), str(x.dtype), x.shape)
    return repr(x)


def run_alias(shard, ctx):
    """arguments are not modified; arrays handed out are private; a later change of the caller's arrays: either no
    effect (private copy) or class unspecified (the unchanged tree shares float32 / AtomArray coordinates)"""
    for name in ("border", "sparse", "g333h"):
        for bname in (None, "o3", "t1"):
            for form in ("f32", "f64", "atoms", "f32F", "f32strided"):
                for selk in (None, ["clear", [0, 3]]):
                    cfg = {"set": ["st", name], "cs": 1.0, "off": shard["off"], "form": form}
                    if bname:
                        cfg["box"] = bname
                    if selk:
                        cfg["sel"] = selk
                    run_alias_cfg(ctx, cfg)


def run_alias_cfg(ctx, cfg):
    tag = cfg_tag(cfg)
    if not ctx.journal(tag + "#alias"):
        return
    keep = {}
    cl, coords, msel, box = build_celllist(cfg, keep)
    before = {k: _snap(v) for k, v in keep.items()}
    orc = Oracle(cfg, coords, msel, box)
    q = query_points(cfg, "mini")[5:45].copy()       # 4 non-finite rows + lattice points
    q32 = q.astype(np.float32)
    rad = np.array([0.5, 1.0, 2.5, 5.0] * 10)
    rad32 = rad.astype(np.float32)
    crad = np.array([0, 1, 2, 3] * 10, dtype=np.int32)
    snaps = [x.copy() for x in (q, q32, rad, rad32, crad)]
    calls = [
        ("get", lambda: cl.get_atoms(q, 2.0)), ("get", lambda: cl.get_atoms(q32, rad32)),
        ("get", lambda: cl.get_atoms(q, rad, as_mask=True)), ("cells", lambda: cl.get_atoms_in_cells(q32, crad)),
        ("cells", lambda: cl.get_atoms_in_cells(q, 2, as_mask=True)), ("adj", lambda: cl.create_adjacency_matrix(1.5)),
        ("get", lambda: cl.get_atoms(q32[3], 2.5)),
    ]
    first = [fn() for _, fn in calls]
    ctx.ev(len(calls), len(calls))
    # 1. arguments untouched
    changed = [k for k, v in keep.items() if _snap(v) != before[k]]
    changed += [nm for nm, x, c in zip(("query_f64", "query_f32", "radii_f64", "radii_f32", "cell_radii"),
                                       (q, q32, rad, rad32, crad), snaps) if not np.array_equal(x, c, equal_nan=True)]
    if changed:
        ctx.violation("CellList|argument_modified|%s" % changed[0],
                      "a constructor / query argument was modified", {"kind": "alias", "cfg": cfg},
                      expected="unchanged", observed=changed)
        return
    # 2. results are private: overwrite them, ask again
    firstc = [np.array(r, copy=True) for r in first]
    for r in first:
        if r.size and r.flags.writeable:
            r[...] = 0 if r.dtype != bool else ~r
    second = [fn() for _, fn in calls]
    ctx.ev(len(calls), len(calls))
    for (site, _), a, b in zip(calls, firstc, second):
        if a.shape != b.shape or not np.array_equal(a, b):
            ctx.violation("%s|result_aliases_internal_state|%s" % (SITE[site], orc.per),
                          "overwriting a returned array changed the answer of the next identical query",
                          {"kind": "alias", "cfg": cfg}, expected=a.tolist()[:3], observed=b.tolist()[:3])
            break
    # 3. the caller changes its arrays afterwards
    c = keep["coord"]
    target = c.coord if hasattr(c, "coord") else c
    if isinstance(target, np.ndarray) and target.flags.writeable:
        target[...] = target[::-1].copy() + 1
        if keep["sel"] is not None and isinstance(keep["sel"], np.ndarray):
            keep["sel"][...] = ~keep["sel"]
        ctx.journal(tag + "#alias_after_mutation")
        third = [fn() for _, fn in calls]
        ctx.ev(len(calls), len(calls))
        same = all(a.shape == b.shape and np.array_equal(a, b) for a, b in zip(firstc, third))
        if same:
            ctx.count("caller_mutation_no_effect")
        else:
            # statement silent; the unchanged tree keeps a reference to float32 / AtomArray
            # coordinates (astype(copy=False)).  Still required: well-formed answers.
            ctx.count("unspecified")
            ctx.count("unspecified_shared_coordinates")
            for (site, _), b in zip(calls, third):
                ok = (b.dtype == bool) or (b.size == 0) or (b.min() >= -1 and b.max() < len(coords))
                if not ok:
                    ctx.violation("%s|malformed_after_caller_mutation|%s" % (SITE[site], orc.per),
                                  "index out of range after the caller changed its coordinate array",
                                  {"kind": "alias", "cfg": cfg}, expected="indices in range",
                                  observed=[int(b.min()), int(b.max())])
                    break
    ctx.outcome(("alias", tag))


FLAV_Q = ["f64", "f32", "f32F", "f64F", "f32strided", "f32T", "f32ro", "f64ro", "i64", "i32", "list"]
FLAV_R_SCALAR = ["npf32", "npf64", "npi64", "pyint", "zerod"]
FLAV_R_ARRAY = ["f32", "f64", "i64", "i32", "strided", "ro", "ro32"]


def run_flavour(shard, ctx):
    """the same values in every array flavour: dtypes, memory layouts, read-only, lists"""
    cases = []
    for name in ("g222", "g333"):               # integer coordinates: integer dtypes are possible
        for form in COORD_FLAVOURS:
            for bname in (None, "o3"):
                cases.append(({"set": ["st", name], "cs": 1.0, "off": 0, "form": form, **({"box": bname} if bname else {})},
                              form in ("list", "tuple")))
        for sf in ("ro", "col", "u8", "list"):
            cases.append(({"set": ["st", name], "cs": 1.5, "off": 0, "sel": ["flav", sf]}, sf in ("u8", "list")))
        for bf in ("f32F", "f64F", "f32ro", "f64ro", "f32strided", "i64", "list"):
            cases.append(({"set": ["st", name], "cs": 1.5, "off": 0, "box": "o345", "boxflav": bf, "form": "f64"},
                          bf == "list"))
    for cfg, either in cases:
        tag = cfg_tag(cfg)
        if not ctx.journal(tag + "#build"):
            continue
        ctx.ev(1, 1)
        try:
            cl, coords, msel, box = build_celllist(cfg)
        except Exception as e:  # noqa: BLE001
            if either:
                ctx.count("unspecified")
                ctx.count("unspecified_refused")
            else:
                ctx.violation("CellList|raises_%s|%s" % (type(e).__name__, build_class(cfg)),
                              "a legal array flavour raised %s: %s" % (type(e).__name__, str(e)[:200]),
                              {"kind": "build", "cfg": cfg}, expected="cell list", observed=type(e).__name__)
            continue
        if either:
            ctx.count("unspecified")
        orc = Oracle(cfg, coords, msel, box)
        for op in ({"m": "get", "q": "mini", "rows": 60, "r": 1.0}, {"m": "get", "q": "mini", "rows": 60, "r": 2.5, "mask": True},
                   {"m": "cells", "q": "mini", "rows": 60, "r": 1}, {"m": "adj", "r": 2.0},
                   {"m": "get", "q": "mini", "rows": [0, 4, 8, 9], "r": 1.5, "single": True}):
            run_op(ctx, cfg, cl, orc, op)
    # query / radius flavours on ordinary cell lists (finite integer-valued query rows so that integer dtypes work)
    for name, bname in (("g333", None), ("g222", "o3"), ("sparse", "t1")):
        cfg = {"set": ["st", name], "cs": 1.0, "off": 0}
        if bname:
            cfg["box"] = bname
        tag = cfg_tag(cfg)
        if not ctx.journal(tag + "#build"):
            continue
        cl, coords, msel, box = build_celllist(cfg)
        orc = Oracle(cfg, coords, msel, box)
        qall = query_points(cfg, "mini")
        introws = [i for i in range(len(qall)) if np.isfinite(qall[i]).all() and (qall[i] == np.rint(qall[i])).all()
                   and np.abs(qall[i]).max() < 1e5][:24]
        for qf in FLAV_Q:
            rows = introws if qf in ("i64", "i32") else list(range(4, 44))
            for base in ({"m": "get", "r": 1.0}, {"m": "get", "r": ["cyc", [0.0, 1.0, 2.0], 0], "mask": True},
                         {"m": "cells", "r": 1}, {"m": "cells", "r": ["cyc", [0, 2, 1], 1], "mask": True},
                         {"m": "get", "r": 2.0, "single": True, "short": True}):
                op = dict(base, q="mini", rows=rows[:6] if base.get("short") else rows, qflav=qf)
                op.pop("short", None)
                if qf == "list":
                    op["either"] = True          # documented type: ndarray
                ctx.journal(tag + "#flav")
                run_op(ctx, cfg, cl, orc, op)
        for rf in FLAV_R_SCALAR:
            for m, r in (("get", 2.0), ("cells", 2)):
                if m == "cells" and rf in ("npf32", "npf64"):
                    continue
                op = {"m": m, "q": "mini", "rows": 40, "r": r, "rflav": rf}
                if rf == "zerod":
                    op["either"] = True          # a 0-d array is neither a scalar nor a (n,) array of radii
                ctx.journal(tag + "#flav")
                run_op(ctx, cfg, cl, orc, op)
        for rf in FLAV_R_ARRAY:
            for m, vals in (("get", [0.0, 1.0, 2.0, 5.0]), ("cells", [0, 3, 1, 2])):
                if m == "cells" and rf in ("f32", "f64"):
                    continue
                op = {"m": m, "q": "mini", "rows": 40, "r": ["cyc", vals, 0], "rflav": rf, "mask": rf == "ro"}
                ctx.journal(tag + "#flav")
                run_op(ctx, cfg, cl, orc, op)


TWO_FEATURE = ["f32ro_strided", "f64F_ro", "f32T_ro", "i32F"]
PAIR_COORD = ["f32F", "f32strided", "f32ro", "f64ro", "i64", "f32ro_strided", "f64F_ro"]
PAIR_QUERY = ["f32F", "f32strided", "f32ro", "f64ro", "f32T", "f32ro_strided", "f64F_ro", "f32T_ro"]


def run_flavour_pairs(shard, ctx):
    """C - two awkward features at once: (a) in one array (read-only + strided, float64 + Fortran + read-only, transposed +
    read-only, int32 + Fortran) for coordinates, queries, boxes; (b) in two arguments of one call: every listed coordinate
    flavour x every listed query flavour x {selection flavour, radius array flavour}, non-periodic and periodic"""
    for name, bname in (("g222", None), ("g333", "o3"), ("g222", "t1")):
        for cform in PAIR_COORD + ["i32F", "f32T_ro"]:
            for sel in (None, ["flav", "ro"], ["flav", "col"]):
                cfg = {"set": ["st", name], "cs": 1.0, "off": 0, "form": cform}
                if bname:
                    cfg["box"] = bname
                    cfg["boxflav"] = ("f64F_ro", "f32ro_strided", "i32F")[len(cform) % 3] if cform != "f32F" else None
                    if cfg["boxflav"] is None:
                        del cfg["boxflav"]
                if sel:
                    cfg["sel"] = sel
                tag = cfg_tag(cfg)
                if not ctx.journal(tag + "#build"):
                    continue
                ctx.ev(1, 1)
                try:
                    cl, coords, msel, box = build_celllist(cfg)
                except Exception as e:  # noqa: BLE001
                    ctx.violation("CellList|raises_%s|two_flavours" % type(e).__name__,
                                  "legal array flavours raised %s: %s" % (type(e).__name__, str(e)[:200]),
                                  {"kind": "build", "cfg": cfg}, expected="cell list", observed=type(e).__name__)
                    continue
                orc = Oracle(cfg, coords, msel, box)
                for qi, qf in enumerate(PAIR_QUERY):
                    rf = ("strided", "ro", "ro32", "i32")[qi % 4]
                    for base in ({"m": "get", "r": ["cyc", [0.0, 1.0, 2.0, 5.0], qi], "rflav": rf if rf != "i32" else "f32"},
                                 {"m": "cells", "r": ["cyc", [0, 2, 1], qi], "rflav": rf if rf in ("strided", "ro", "i32") else "ro32",
                                  "mask": True},
                                 {"m": "get", "r": 1.0, "single": True, "short": True}):
                        op = dict(base, q="mini", rows=list(range(4, 10)) if base.get("short") else list(range(4, 44)), qflav=qf)
                        op.pop("short", None)
                        ctx.journal(tag + "#flav")
                        run_op(ctx, cfg, cl, orc, op)


def run_derived(shard, ctx):
    """E - derived inputs: coordinates, selections, query points, radii and boxes as the library itself hands them out
    (sliced / masked / fancy-indexed AtomArrays, models of a stack, coordinate views, outputs of the box helpers and
    transformations, masks and index rows returned by a CellList, distances as radii); every answer against brute force
    computed from the VALUES of the derived objects"""
    import biotite.structure as struc

    g = STRUCT["g333h"] * 2.0 + np.array(OFFSETS[shard["off"]])          # 27 atoms, spacing 1.0 / exact in float32
    arr = struc.AtomArray(len(g))
    arr.coord = g
    arr.res_id[:] = np.arange(len(g)) // 4
    stk = struc.stack([arr, arr, arr])
    stk.coord[1] = (g[::-1] + 0.5)
    stk.coord[2] = g * 0.5
    box_uc = struc.vectors_from_unitcell(4.0, 4.0, 4.0, math.pi / 2, math.pi / 2, math.pi / 2)       # float32, exact
    stk.box = np.stack([box_uc, box_uc * 2, box_uc * 0.5])
    arr.box = box_uc
    mask = np.array([i % 3 != 1 for i in range(len(g))])
    base_cl = struc.CellList(arr, 1.0)
    near = base_cl.get_atoms(arr.coord[13], 1.5)                       # index array handed out by a cell list
    near_mask = base_cl.get_atoms(arr.coord[13], 2.0, as_mask=True)    # mask handed out by a cell list
    adj = base_cl.create_adjacency_matrix(1.0)
    coords_src = [
        ("arr_mask", arr[mask], None), ("arr_step2", arr[::2], None), ("arr_tail", arr[5:], None),
        ("arr_fancy_unsorted", arr[[20, 3, 11, 7, 26, 0, 15, 9]], None), ("arr_by_celllist_indices", arr[near], None),
        ("arr_by_celllist_mask", arr[near_mask], None), ("stack_model1", stk[1], None), ("stack_model_last", stk[-1], None),
        ("stack_atoms_model", stk[:, 1::2][2], None), ("translated", struc.translate(arr, [1.0, -2.0, 0.5]), None),
        ("rotated_quarter", struc.rotate(arr, [0.0, 0.0, math.pi]), 1e-4), ("coord_view_step", arr.coord[::2], None),
        ("coord_view_model", stk.coord[1], None), ("coord_view_cols", stk.coord[:, 3][None][0], None),
        ("coord_fancy", arr.coord[[20, 3, 11, 7, 26, 0, 15, 9]], None),
        ("moved_inside_f64", struc.move_inside_box(g.astype(np.float64) * 3, box_uc.astype(np.float64)), None),
        ("repeat_box_coord", struc.repeat_box_coord(arr.coord[:4], box_uc)[0], None),
        ("removed_pbc", struc.remove_pbc_from_coord(arr.coord, box_uc), 1e-4),
    ]
    sel_src = [("none", None), ("celllist_mask", near_mask), ("adjacency_column", adj[:, 13]), ("adjacency_row", adj[13])]
    box_src = [("none", None), ("unitcell_box", box_uc), ("stack_box_view", stk.box[1]), ("atomarray_box", arr.box)]
    for cname, cobj, tol in coords_src:
        cvals = np.asarray(cobj.coord if hasattr(cobj, "coord") else cobj, dtype=np.float64)
        n = len(cvals)
        for sname, sel in sel_src:
            if sel is not None and len(sel) != n:
                continue
            for bname, bx in box_src:
                for cs in (0.5, 1.5):
                    case = {"kind": "derived", "coords": cname, "sel": sname, "box": bname, "cs": cs, "off": shard["off"]}
                    if not ctx.journal(case):
                        continue
                    kw = {}
                    if sel is not None:
                        kw["selection"] = sel
                    if bx is not None:
                        kw["periodic"] = True
                        kw["box"] = bx
                    ctx.ev(1, 1)
                    try:
                        cl = struc.CellList(cobj, cs, **kw)
                    except Exception as e:  # noqa: BLE001
                        ctx.violation("CellList|raises_%s|derived_%s" % (type(e).__name__, cname),
                                      "a coordinate object handed out by the library was refused: %s" % str(e)[:200], case,
                                      expected="cell list", observed=type(e).__name__)
                        continue
                    msel = np.ones(n, dtype=bool) if sel is None else np.asarray(sel, dtype=bool)
                    bx64 = None if bx is None else np.asarray(bx, dtype=np.float64)
                    # derived queries and radii
                    queries = [("coord_row_view", arr.coord[13]), ("coord_rows_step", arr.coord[::3]), ("model_view", stk.coord[2]),
                               ("centroid", struc.centroid(stk)), ("own_coord", cl_coord(cobj)[: min(n, 9)])]
                    radii_arr = struc.distance(arr.coord[0], arr.coord[1:10])           # float32 distances as radii
                    for qname, q in queries:
                        q64 = np.asarray(q, dtype=np.float64).reshape(-1, 3)
                        if bx64 is None:
                            d2 = geom.sq_dist_matrix(q64, cvals)
                        else:
                            inv = np.linalg.inv(bx64)
                            red = lambda x: x - np.floor(x @ inv) @ bx64      # noqa: E731
                            d2 = geom.sq_min_image_matrix(red(q64), red(cvals), bx64, k=2)
                        for rname, r in (("1.0", 1.0), ("float32_scalar", radii_arr[3]), ("distance_array", None)):
                            if rname == "distance_array":
                                if np.ndim(q) != 2 or len(q) > len(radii_arr):
                                    continue
                                r = radii_arr[: len(q)]
                                r2 = (np.asarray(r, dtype=np.float64) ** 2)[:, None]
                            else:
                                r2 = float(r) ** 2
                            band = 1e-3 if (tol or bx is not None or rname != "1.0") else 0.0
                            within = (d2 <= r2) & msel[None, :]
                            tie = (np.abs(np.sqrt(d2) - np.sqrt(r2)) <= band) & msel[None, :] if band else np.zeros_like(within)
                            for as_mask in (False, True):
                                ctx.ev(len(q64), len(q64))
                                ctx.count("accepted", len(q64))
                                try:
                                    res = cl.get_atoms(q, r, as_mask=as_mask)
                                except Exception as e:  # noqa: BLE001
                                    ctx.violation("get_atoms|raises_%s|derived_query_%s" % (type(e).__name__, qname),
                                                  "a derived query / radius object was refused: %s" % str(e)[:200],
                                                  dict(case, query=qname, radius=rname), expected="result",
                                                  observed=type(e).__name__)
                                    continue
                                res2 = np.asarray(res)
                                if np.ndim(q) == 1:
                                    res2 = res2[None]
                                bad = check_mask_array(res2, len(q64), n, within, tie) if as_mask else \
                                    check_index_array(res2, len(q64), n, within, tie, bx is not None)
                                if bad is not None:
                                    ctx.violation("get_atoms|%s|derived_input" % bad[0],
                                                  "get_atoms on derived inputs disagrees with brute force over their values",
                                                  dict(case, query=qname, radius=rname, mask=as_mask),
                                                  expected=np.nonzero(within[bad[1]])[0].tolist(), observed=bad[2])
                                else:
                                    ctx.outcome(("derived", cname, sname, bname, cs, qname, rname, as_mask, within.tobytes()))


def cl_coord(x):
    return np.asarray(x.coord if hasattr(x, "coord") else x)


PREC_PAIRS = [("o3", "o345"), ("t1", "t2"), ("o4", "t1")]


def run_precedence(shard, ctx):
    """OPTION PRECEDENCE - the box of a periodic cell list can come from the `box` argument or from the box attribute of
    the AtomArray.  Complete product {AtomArray, ndarray} x {own box: none, box1, box2} x {box argument: none, box1,
    box2} x {periodic False, True} x 3 box pairs x 2 sets x 2 cell sizes.  Documented: periodic=False ignores every
    box; periodic=True uses the box argument 'instead of the box attribute', the attribute only without an argument;
    no box at all is refused."""
    import biotite.structure as struc

    for b1, b2 in PREC_PAIRS:
        names = {"none": None, "box1": b1, "box2": b2}
        for name in ("sparse", "border"):
            for cs in (0.5, 1.5):
                for form in ("atoms", "f32"):
                    for own in (("none", "box1", "box2") if form == "atoms" else ("none",)):
                        for arg in ("none", "box1", "box2"):
                            for periodic in (False, True):
                                eff = None if not periodic else (names[arg] if names[arg] else names[own])
                                cfg = {"set": ["st", name], "cs": cs, "off": shard["off"], "form": form,
                                       "prec": [names[own], names[arg], periodic]}
                                if eff:
                                    cfg["box"] = eff
                                if periodic and eff is None:
                                    ctx.ev(1, 1)
                                    ctx.count("refused")
                                    if not ctx.journal(cfg_tag(cfg) + "#build"):
                                        continue
                                    try:
                                        build_celllist(cfg)
                                        ctx.violation("CellList|accepted|periodic_without_any_box",
                                                      "periodic=True without box argument and box attribute was not refused",
                                                      {"kind": "build", "cfg": cfg}, "exception", "returned")
                                    except Exception:  # noqa: BLE001
                                        pass
                                    continue
                                run_config(ctx, cfg, "mini")
    del struc


def _boundary_probe(args):
    """forked child: non-finite / extreme values of the quantities that are compared"""
    import biotite.structure as struc

    what, val = args
    coords = np.array([[0, 0, 0], [0.5, 0, 0], [2, 2, 2], [2, 2, 2]], dtype=np.float32)
    q = np.array([[0.0, 0, 0], [2, 2, 2]])
    try:
        if what == "cell_size":
            cl = struc.CellList(coords, val)
            return ("ok", cl.get_atoms(q, 0.5, as_mask=True).tolist())
        cl = struc.CellList(coords, 1.0)
        if what == "radius":
            return ("ok", cl.get_atoms(q, val, as_mask=True).tolist())
        if what == "radius_in_array":
            return ("ok", cl.get_atoms(q, np.array([0.5, val]), as_mask=True).tolist())
        if what == "threshold":
            return ("ok", cl.create_adjacency_matrix(val).tolist())
        if what == "cell_radius":
            return ("ok", cl.get_atoms_in_cells(q, val, as_mask=True).tolist())
    except Exception as e:  # noqa: BLE001
        return ("exc", type(e).__name__)
    return ("exc", "unknown probe")


def run_boundary(shard, ctx):
    """third audit, I: boundary values of the compared quantities that the lattice alphabet lacks - NaN / inf / huge / tiny
    radius, threshold, cell size (class EITHER: a clean exception or the brute-force value: NaN matches nothing, inf matches
    every stored atom; a dead process or another answer is a violation); G: numpy error state and the warnings filter as
    ambient state (finite queries: identical answers)"""
    import warnings

    import biotite.structure as struc

    big, nan, inf = 1e30, float("nan"), float("inf")
    all_q = [[True, True, False, False], [False, False, True, True]]        # radius 0.5 around the two query points
    every = [[True] * 4, [True] * 4]
    adj_all = [[True] * 4] * 4
    probes = [("cell_size", nan, None), ("cell_size", inf, None), ("cell_size", big, all_q), ("cell_size", 1e-30, None),
              ("cell_size", 5e-4, all_q),
              # non-finite radii / thresholds: statement silent -> any well-formed answer or exception, only a dead process
              # counts (observed: scalar inf -> OverflowError, inf inside a radius array -> silently no atoms)
              ("radius", nan, None), ("radius", inf, None), ("radius", big, every),
              ("radius", 1e-30, [[True, False, False, False], [False, False, True, True]]),
              ("radius_in_array", nan, None), ("radius_in_array", inf, None), ("radius_in_array", 1e-30, [all_q[0], [False, False, True, True]]),
              ("threshold", nan, None), ("threshold", inf, None), ("threshold", big, adj_all),
              ("cell_radius", 10 ** 6, every)]
    for what, val, model in probes:
        case = {"kind": "boundary", "probe": [what, repr(val)]}
        if not ctx.journal(case):
            continue
        ctx.ev(1, 1)
        ctx.count("unspecified")
        r = ctx.isolated(_boundary_probe, (what, val), timeout=120)
        ctx.outcome(("boundary", what, repr(val), str(r)[:80]))
        cls = "%s_%s" % (what, "nan" if val != val else "inf" if val == inf else "huge" if val >= 1e6 else "tiny")
        if r[0] in ("signal", "timeout", "exit"):
            ctx.violation("CellList|process_%s|%s" % (r[0], cls), "an extreme %s terminated the process (%r)" % (what, r), case,
                          expected="exception or exact answer", observed=list(r))
        elif r[0] == "exc" or r[1][0] == "exc":
            ctx.count("unspecified_refused")
        elif model is not None and r[1][1] != model:
            ctx.violation("CellList|wrong_result|%s" % cls, "an extreme %s gave an answer that brute force does not give" % what,
                          case, expected=model, observed=r[1][1])
    # G: ambient numpy error state / warnings filter; finite query rows only (non-finite queries are allowed to warn)
    for name, bname in (("sparse", None), ("border", "o3"), ("sparse", "t1")):
        cfg = {"set": ["st", name], "cs": 1.0, "off": shard["off"]}
        if bname:
            cfg["box"] = bname
        tag = cfg_tag(cfg)
        if not ctx.journal(tag + "#build"):
            continue
        finite = list(range(len(EXTRA_Q), len(EXTRA_Q) + 60))
        ops = [{"m": "get", "q": "mini", "rows": finite, "r": 1.0}, {"m": "get", "q": "mini", "rows": finite, "r": ["cyc", [0.0, 1.5, 5.0], 0], "mask": True},
               {"m": "cells", "q": "mini", "rows": finite, "r": 2}, {"m": "adj", "r": 1.5},
               {"m": "get", "q": "mini", "rows": finite[:6], "r": 2.0, "single": True}]
        for amb in ("errstate_raise", "warnings_error"):
            try:
                if amb == "errstate_raise":
                    with np.errstate(all="raise"):
                        cl, coords, msel, box = build_celllist(cfg)
                        orc = Oracle(cfg, coords, msel, box)
                        for op in ops:
                            with np.errstate(all="ignore"):
                                orc.queries(op["q"]) if op["m"] != "adj" else None      # the oracle's own arithmetic
                            run_op(ctx, cfg, cl, orc, dict(op, ambient=amb))
                else:
                    with warnings.catch_warnings():
                        warnings.simplefilter("error")
                        with np.errstate(all="warn"):
                            cl, coords, msel, box = build_celllist(cfg)
                            orc = Oracle(cfg, coords, msel, box)
                            for op in ops:
                                run_op(ctx, cfg, cl, orc, dict(op, ambient=amb))
            except (FloatingPointError, Warning) as e:
                ctx.violation("CellList|raises_%s|ambient_%s" % (type(e).__name__, amb),
                              "finite input fails when the caller has set %s: %s" % (amb, str(e)[:150]),
                              {"kind": "boundary", "cfg": cfg, "ambient": amb}, expected="same answers", observed=type(e).__name__)
    del struc


BOX_EDITS = ["scale_half", "one_element", "one_row", "swap_rows"]
COORD_EDITS = ["scale_double", "one_element", "one_row", "swap_rows", "shift_all"]


def _edit_box(b, how):
    """edit the box array IN PLACE (same object, new values; stays non-singular and dyadic)"""
    if how == "scale_half":
        b *= 0.5
    elif how == "one_element":
        b[1, 1] += 1.0
    elif how == "one_row":
        b[2] = b[2] + b[0]
    elif how == "swap_rows":
        b[[0, 1]] = b[[1, 0]]
    else:
        raise ValueError(how)


def _edit_coord(c, how):
    if how == "scale_double":
        c *= 2
    elif how == "one_element":
        c[0, 2] += 0.5
    elif how == "one_row":
        c[1] = c[-1] + 0.5
    elif how == "swap_rows":
        c[[0, -1]] = c[[-1, 0]]
    elif how == "shift_all":
        c += np.array([0.5, -1.0, 1.5], dtype=c.dtype)
    else:
        raise ValueError(how)


def run_inplace(shard, ctx):
    """round-5 seed: AN ARGUMENT ARRAY EDITED IN PLACE BETWEEN TWO CALLS (same object, new values).
    call(x) -> edit x in place -> call(x) again; the second answer is compared with brute force over the NEW values (the
    oracle uses mc/models/geom.py only, never biotite's box helpers).  Arguments: the box array given as `box=`, the box
    attribute of an AtomArray, the coordinate array (ndarray float32 / float64, AtomArray.coord), the selection mask, the
    query array and the radius array of get_atoms; edits: scale, one element, one row, swap rows (, shift); boxes
    orthorhombic (4,4,4) and triclinic t1, plus non-periodic for the non-box arguments.  A cell list built BEFORE the
    edit keeps references to a float32 coordinate array and to the box (documented nowhere as a copy): its later answers
    are class unspecified and only have to be well-formed."""
    import biotite.structure as struc

    ops = [{"m": "get", "q": "mini", "rows": 70, "r": 1.0}, {"m": "get", "q": "mini", "rows": 70, "r": ["cyc", [0.5, 1.5, 2.5], 0], "mask": True},
           {"m": "cells", "q": "mini", "rows": 70, "r": 1}, {"m": "adj", "r": 1.5}, {"m": "get", "q": "mini", "rows": [9, 10, 11], "r": 2.0, "single": True}]

    def ask(cl, coords, sel, box, step, label):
        """all ops on cl against brute force over the given VALUES"""
        cfg = {"set": ["raw", np.asarray(coords, dtype=float).tolist()], "cs": 1.0, "off": 0}
        if box is not None:
            cfg["box"] = "t1"              # label only: ties are class EITHER for every edited box
        orc = Oracle(cfg, np.asarray(coords, dtype=np.float64).copy(), None if sel is None else np.array(sel, dtype=bool),
                     None if box is None else np.asarray(box, dtype=np.float64).copy())
        for op in ops:
            ctx.journal(json.dumps({"kind": "inplace", "label": label, "step": step}))
            run_op(ctx, cfg, cl, orc, dict(op, inplace="%s/%s" % (label, step)))

    base = STRUCT["sparse"]
    for bname in ("o4", "t1"):
        # ---- A / B: the box array (argument) and the box attribute edited in place
        for holder in ("box_argument_f32", "box_argument_f64", "atomarray_box_attribute"):
            for how in BOX_EDITS:
                label = "%s,%s,%s" % (holder, how, bname)
                b = np.array(BOXES[bname], dtype=np.float64 if holder.endswith("f64") else np.float32)
                c = base.astype(np.float32)
                if holder == "atomarray_box_attribute":
                    arr = struc.AtomArray(len(c))
                    arr.coord = c
                    arr.box = b
                    b = arr.box                      # the array the structure really holds

                    def build():
                        return struc.CellList(arr, 1.0, periodic=True)
                else:
                    def build():
                        return struc.CellList(c, 1.0, periodic=True, box=b)
                ctx.ev(1, 1)
                cl1 = build()
                ask(cl1, c, None, b, "first", label)
                _edit_box(b, how)
                cl2 = build()                        # same objects, new values
                ask(cl2, c, None, b, "after_edit_new_celllist", label)
                ctx.count("unspecified")             # the OLD cell list holds a reference to the edited box
                try:
                    r = cl1.get_atoms(c.astype(np.float64), 1.0)
                    if r.size and (r.min() < -1 or r.max() >= len(c)):
                        ctx.violation("get_atoms|index_out_of_range|old_celllist_after_box_edit", "malformed answer",
                                      {"kind": "inplace", "label": label}, "indices in range", [int(r.min()), int(r.max())])
                except Exception:  # noqa: BLE001
                    ctx.count("unspecified_refused")
    for bname in (None, "o4", "t1"):
        box = None if bname is None else np.array(BOXES[bname], dtype=np.float32)
        kw = {} if box is None else {"periodic": True, "box": box}
        # ---- C / D: the coordinate array edited in place
        for holder in ("coord_f32", "coord_f64", "atomarray_coord"):
            for how in COORD_EDITS:
                label = "%s,%s,%s" % (holder, how, bname)
                c = base.astype(np.float64 if holder == "coord_f64" else np.float32)
                if holder == "atomarray_coord":
                    obj = struc.AtomArray(len(c))
                    obj.coord = c
                    c = obj.coord
                    if box is not None:
                        obj.box = box
                else:
                    obj = c
                ctx.ev(1, 1)
                cl1 = struc.CellList(obj, 1.0, **kw)
                ask(cl1, c, None, box, "first", label)
                _edit_coord(c, how)
                cl2 = struc.CellList(obj, 1.0, **kw)
                ask(cl2, c, None, box, "after_edit_new_celllist", label)
        # ---- E: the selection mask edited in place
        for how in ("flip_one", "swap", "invert"):
            label = "selection,%s,%s" % (how, bname)
            c = base.astype(np.float32)
            sel = np.array([i % 3 != 1 for i in range(len(c))])
            ctx.ev(1, 1)
            cl1 = struc.CellList(c, 1.0, selection=sel, **kw)
            ask(cl1, c, sel, box, "first", label)
            before = sel.copy()
            if how == "flip_one":
                sel[0] = not sel[0]
            elif how == "swap":
                sel[[0, 1]] = sel[[1, 0]]
            else:
                sel[...] = ~sel
            cl2 = struc.CellList(c, 1.0, selection=sel, **kw)
            ask(cl2, c, sel, box, "after_edit_new_celllist", label)
            ask(cl1, c, before, box, "old_celllist_after_selection_edit", label)     # the selection is copied by the fix b8968348
        # ---- F: query and radius arrays edited in place between two calls on ONE cell list
        c = base.astype(np.float32)
        cl = struc.CellList(c, 1.0, **kw)
        n = len(c)
        for qdt in (np.float64, np.float32):
            q = (QSETS["mini"][len(EXTRA_Q): len(EXTRA_Q) + 40]).astype(qdt)
            r = np.array([0.5, 1.0, 2.5, 5.0] * 10, dtype=qdt)
            for step, edit in enumerate((None, "q_scale", "q_one_row", "q_swap", "r_scale", "r_one", "r_swap")):
                label = "query_radius_arrays,%s,%s,%s" % (edit, np.dtype(qdt).name, bname)
                if edit == "q_scale":
                    q *= 0.5
                elif edit == "q_one_row":
                    q[3] = [2.0, 2.0, 2.0]
                elif edit == "q_swap":
                    q[[0, -1]] = q[[-1, 0]]
                elif edit == "r_scale":
                    r *= 0.5
                elif edit == "r_one":
                    r[1] = 0.0
                elif edit == "r_swap":
                    r[[0, 3]] = r[[3, 0]]
                ctx.ev(len(q), len(q))
                ctx.journal(json.dumps({"kind": "inplace", "label": label}))
                q64 = q.astype(np.float64)
                if box is None:
                    d2 = geom.sq_dist_matrix(q64, c.astype(np.float64))
                else:
                    b64 = box.astype(np.float64)
                    inv = np.linalg.inv(b64)
                    d2 = geom.sq_min_image_matrix(q64 - np.floor(q64 @ inv) @ b64,
                                                  c.astype(np.float64) - np.floor(c.astype(np.float64) @ inv) @ b64, b64, k=2)
                r2 = (r.astype(np.float64) ** 2)[:, None]
                within = d2 <= r2
                tie = (d2 == r2) if box is not None else np.zeros_like(within)
                for as_mask in (False, True):
                    res = cl.get_atoms(q, r, as_mask=as_mask)
                    bad = check_mask_array(res, len(q), n, within, tie) if as_mask else \
                        check_index_array(res, len(q), n, within, tie, box is not None)
                    if bad is not None:
                        ctx.violation("get_atoms|%s|argument_edited_in_place" % bad[0],
                                      "after the query / radius array was edited in place the answer is not the one for its "
                                      "new values", {"kind": "inplace", "label": label}, expected=np.nonzero(within[bad[1]])[0].tolist(),
                                      observed=bad[2])
                    else:
                        ctx.outcome(("inplace", label, as_mask, within.tobytes()))
    del struc


def run_orient(shard, ctx):
    """the answer sets do not depend on the order of the atoms, on which rows of the box carry which lattice vector,
    or on a rigid rotation of atoms + box + queries (all 24 cube rotations keep the lattice dyadic)"""
    what = shard["what"]
    if what == "order":
        for name in ("border", "sparse", "g333h", "twoclus"):
            for perm in ("rev", "roll"):
                for bname in (None, "o3", "t1"):
                    for cs in CELL_SIZES:
                        cfg = {"set": ["st", name], "cs": cs, "off": shard["off"], "perm": perm}
                        if bname:
                            cfg["box"] = bname
                        run_config(ctx, cfg, "mini")
        return
    if what == "boxrows":
        for name in ("border", "sparse"):
            for bname in ("o345", "o248", "t1", "t2"):
                for bperm in itertools.permutations(range(3)):
                    for cs in (0.5, 1.5):
                        cfg = {"set": ["st", name], "cs": cs, "off": shard["off"], "box": bname, "bperm": list(bperm)}
                        run_config(ctx, cfg, "mini")
        return
    ri = shard["rot"]
    for name in ("border", "sparse"):
        for bname in (None, "o345", "t1", "t2"):
            for cs in (0.5, 1.5):
                cfg = {"set": ["st", name], "cs": cs, "off": shard["off"], "rot": ri}
                if bname:
                    cfg["box"] = bname
                run_config(ctx, cfg, "mini")


def run_edge(shard, ctx):
    """empty / singleton pieces and extreme grid sizes"""
    import biotite.structure as struc

    off = shard["off"]
    # a single atom with a selection; exactly one selected atom out of 8 / 9
    for cfg in ([{"set": ["ms", [62]], "cs": cs, "off": off, "sel": ["clear", []]} for cs in CELL_SIZES] +
                [{"set": ["st", nm], "cs": cs, "off": off, "sel": ["only", i]} for nm in ("g222", "border")
                 for i in range(8) for cs in (0.5, 3.0)] +
                [{"set": ["st", nm], "cs": cs, "off": off, "sel": ["only", i], "box": "o3"} for nm in ("g222",)
                 for i in (0, 7) for cs in (0.5, 3.0)]):
        run_config(ctx, cfg, "mini")
    # extreme grids: 2 atoms 50 apart with 0.5 cells (10^6 cells), one huge cell, 0.125 cells
    for raw, cs in (([[0, 0, 0], [50, 50, 50]], 0.5), ([[0, 0, 0], [2, 2, 2], [1, 0.5, 2]], 1e6),
                    ([[0, 0, 0], [2, 2, 2], [1, 0.5, 2]], 0.125),
                    # a 1-D grid of 65537 cells with atoms next to the 8-bit and 16-bit cell index borders
                    ([[0, 0, 0], [0, 0, 127.5], [0, 0, 128], [0, 0, 300], [0, 0, 32767.5], [0, 0, 32768]], 0.5),
                    ([[0, 0, 0], [127.5, 1, 0], [128, 1, 0], [129, 0, 0]], 0.5)):
        cfg = {"set": ["raw", raw], "cs": cs, "off": off}
        tag = cfg_tag(cfg)
        if not ctx.journal(tag + "#build"):
            continue
        cl, coords, msel, box = build_celllist(cfg)
        orc = Oracle(cfg, coords, msel, box)
        for op in ({"m": "get", "q": "mini", "rows": 60, "r": 0.5}, {"m": "get", "q": "mini", "rows": 60, "r": 2.5, "mask": True},
                   {"m": "cells", "q": "mini", "rows": 60, "r": 2}, {"m": "adj", "r": 5.0},
                   {"m": "get", "q": "mini", "rows": [7, 8, 9], "r": 1.0, "single": True},
                   {"m": "get", "q": "atoms", "r": 0.5}, {"m": "get", "q": "atoms", "r": 2.5, "mask": True},
                   {"m": "cells", "q": "atoms", "r": 1}, {"m": "get", "q": "atoms", "r": 1.0, "single": True}):
            ctx.journal(tag + "#edge")
            run_op(ctx, cfg, cl, orc, op)
    # documented refusals: no atoms, wrong coordinate shapes, non-finite coordinates, selection of the wrong length
    refusals = [
        ("empty_coord", lambda: struc.CellList(np.zeros((0, 3), dtype=np.float32), 1.0)),
        ("coord_n2", lambda: struc.CellList(np.zeros((4, 2), dtype=np.float32), 1.0)),
        ("coord_1d", lambda: struc.CellList(np.zeros(3, dtype=np.float32), 1.0)),
        ("coord_nan", lambda: struc.CellList(np.array([[0, 0, np.nan], [1, 1, 1]], dtype=np.float32), 1.0)),
        ("selection_too_short", lambda: struc.CellList(np.zeros((4, 3), dtype=np.float32), 1.0,
                                                       selection=np.ones(3, dtype=bool))),
        # F: the second operand is LARGER than the first
        ("selection_too_long", lambda: struc.CellList(np.zeros((4, 3), dtype=np.float32), 1.0,
                                                      selection=np.ones(5, dtype=bool))),
        ("selection_much_too_long", lambda: struc.CellList(np.zeros((4, 3), dtype=np.float32), 1.0,
                                                           selection=np.ones(4000, dtype=bool))),
        ("more_radii_than_queries", lambda: struc.CellList(np.zeros((4, 3), dtype=np.float32), 1.0).get_atoms(
            np.zeros((2, 3)), np.array([1.0, 1.0, 1.0]))),
        ("more_cell_radii_than_queries", lambda: struc.CellList(np.zeros((4, 3), dtype=np.float32), 1.0).get_atoms_in_cells(
            np.zeros((2, 3)), np.array([1, 1, 1, 1, 1]))),
        ("radii_for_single_query", lambda: struc.CellList(np.zeros((4, 3), dtype=np.float32), 1.0).get_atoms(
            np.zeros(3), np.array([1.0]))),
        ("periodic_without_box", lambda: struc.CellList(np.zeros((4, 3), dtype=np.float32), 1.0, periodic=True)),
        ("box_nan", lambda: struc.CellList(np.zeros((4, 3), dtype=np.float32), 1.0, periodic=True,
                                           box=np.full((3, 3), np.nan))),
    ]
    for nm, fn in refusals:
        ctx.ev(1, 1)
        ctx.count("refused")
        if not ctx.journal(json.dumps({"misc": "edge_" + nm})):
            continue
        try:
            fn()
            ctx.violation("CellList|accepted|%s" % nm, "a documented refusal did not happen",
                          {"kind": "misc", "what": nm, "off": off}, "exception", "returned")
        except Exception:  # noqa: BLE001
            pass


AUDIT_RUNNERS = {"inplace": run_inplace, "boundary": run_boundary, "precedence": run_precedence, "flavour_pairs": run_flavour_pairs, "derived": run_derived, "cap": run_cap, "reuse": run_reuse, "alias": run_alias, "flavour": run_flavour, "orient": run_orient,
                 "edge": run_edge}


# ---------------------------------------------------------------------------
# replay / crash classes
# ---------------------------------------------------------------------------
def crash_class(case):
    try:
        if isinstance(case, str):
            a, _, b = case.partition("#")
            cfg = json.loads(a)
            if "misc" in cfg:
                return "misc|" + str(cfg["misc"])
            if cfg.get("kind") == "overflow":
                return "overflow|" + "|".join(str(x) for x in cfg["probe"])
            if cfg.get("kind") == "derived":
                return "derived|%s" % cfg.get("coords")
            if cfg.get("kind") == "inplace":
                return "inplace|%s" % cfg.get("label")
            if cfg.get("kind") == "boundary":
                return "boundary|%s" % "|".join(str(x) for x in cfg.get("probe", []))
            known = ("build", "assign", "either_build", "reuse", "alias", "alias_after_mutation", "flav", "edge")
            what = b if b in known else SITE.get(json.loads(b)["m"], "?")
            return "%s|%s" % (what, build_class(cfg))
    except Exception:  # noqa: BLE001
        pass
    return "unclassified"


def replay(case, ctx):
    if isinstance(case, str):
        a, _, b = case.partition("#")
        cfg = json.loads(a)
        if cfg.get("kind") in ("overflow", "derived", "boundary", "inplace"):
            case = cfg
        elif "misc" in cfg:
            case = {"kind": "misc", "what": str(cfg["misc"]).replace("edge_", ""), "off": 0}
        elif b == "reuse":
            case = {"kind": "reuse", "cfg": cfg}
        elif b.startswith("alias"):
            case = {"kind": "alias", "cfg": cfg}
        elif b in ("build", "either_build", "assign", "flav", "edge"):
            case = {"kind": "build", "cfg": cfg}
        else:
            case = {"kind": "op", "cfg": cfg, "op": json.loads(b)}
    if case["kind"] == "misc":
        if str(case.get("what", "")) in ("empty_coord", "coord_n2", "coord_1d", "coord_nan", "selection_too_short",
                                         "periodic_without_box", "box_nan", "selection_too_long", "selection_much_too_long",
                                         "more_radii_than_queries", "more_cell_radii_than_queries", "radii_for_single_query"):
            run_edge({"off": case.get("off", 0)}, ctx)
        else:
            run_misc({"off": case.get("off", 0)}, ctx)
        return
    if case["kind"] == "reuse":
        with np.errstate(invalid="ignore", over="ignore"):
            run_reuse_cfg(ctx, case["cfg"])
        return
    if case["kind"] == "inplace":
        with np.errstate(invalid="ignore", over="ignore"):
            run_inplace({"off": 0}, ctx)
        return
    if case["kind"] == "boundary":
        with np.errstate(invalid="ignore", over="ignore"):
            run_boundary({"off": 0}, ctx)
        return
    if case["kind"] == "derived":
        with np.errstate(invalid="ignore", over="ignore"):
            run_derived({"off": case.get("off", 0)}, ctx)
        return
    if case["kind"] == "alias":
        with np.errstate(invalid="ignore", over="ignore"):
            run_alias_cfg(ctx, case["cfg"])
        return
    if case["kind"] == "overflow":
        pr = tuple(case["probe"])
        judge_overflow(ctx, case, pr, ctx.isolated(_overflow_probe, pr, timeout=120))
        return
    cfg = case["cfg"]
    if case["kind"] == "build":
        if cfg.get("sel") and cfg["sel"][0] == "none":
            either_build(ctx, cfg)
        else:
            run_config(ctx, cfg, "mini")
        return
    try:
        cl, coords, msel, box = build_celllist(cfg)
    except Exception as e:  # noqa: BLE001
        ctx.violation("CellList|raises_%s|%s" % (type(e).__name__, build_class(cfg)),
                      "legal constructor input raised %s" % type(e).__name__, {"kind": "build", "cfg": cfg},
                      expected="cell list", observed=type(e).__name__)
        return
    orc = Oracle(cfg, coords, msel, box)
    with np.errstate(invalid="ignore", over="ignore"):
        run_op(ctx, cfg, cl, orc, case["op"])
