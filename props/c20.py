"""C20 - application wrappers follow their life cycle and always clean up.

E3: tla/AppLifecycle.tla is explored completely by TLC; the dumped state graph
is parsed, and every sequence of core calls (start / join / join(timeout) /
cancel / get_app_state / environment 'release') up to the depth bound that the
model enables is replayed on the real wrapper classes against a deterministic
fake executable.  After every step the implementation's observation must match
at least one model successor (simulation over the nondeterministic model), and
every probe transition of the model (getters / setters) is checked at every
state visited.  A second family of shards checks the results of successful
runs for every small input sequence set.
"""

import itertools
import json
import os
import re
import shutil
import signal
import subprocess
import sys
import tempfile
import time

from mc import loader

ID = "C20"
LEVEL = "model_checking"
EXHAUSTIVE = True
RULE = (
    "model: complete TLC exploration of tla/AppLifecycle.tla (all tool behaviours). conformance: every "
    "sequence of core operations of length <= depth enabled in the model, for every wrapper class and every "
    "tool behaviour, executed on the real class with the fake tool; every probe (getter/setter) transition "
    "checked at every visited state. results: every multiset of input sequences in the bound x sequence type "
    "x {OK, REORDER}. A case is non-trivial when the path contains a successful start (a child process "
    "exists) or a launch failure; distinct = distinct (wrapper, tool, operation sequence)."
)
ASSUMPTIONS = [
    "the external program is a deterministic fake (fixtures/bin/faketool) gated by a file; OS-level races are not explored",
    "the harness reads the private attributes _state and _process for observation only",
    "a killed but not yet reaped child (zombie) counts as 'no child left behind'; a running one does not",
    "a refused call may refresh the stored flag RUNNING->FINISHED (the error message queries the state); nothing else",
    "the flag after a failed launch is undocumented: CREATED and CANCELLED are both admitted, clean-up is required",
]
SHARD_TIMEOUT = {"quick": 900, "thorough": 3000}

CORE_OPS = ["start", "join", "join_t", "cancel", "get_app_state", "release"]
TLA = loader.VERIF / "tla"
TLCDIR = loader.BUILD / "tlc"
GRAPH = TLCDIR / "graph.json"
FAKETOOL = str(loader.VERIF / "fixtures" / "bin" / "faketool")
JOIN_TIMEOUT = 0.05

WRAPPERS = ["mini_local", "mini_msa", "clustalo", "muscle3", "muscle5", "mafft"]
TOOLS_FOR = {
    "mini_local": ["OK", "NONZERO", "KILLED", "HANG", "MISSING"],
    "mini_msa": ["OK", "REORDER", "NONZERO", "KILLED", "GARBAGE", "EMPTY", "HANG", "MISSING"],
    "clustalo": ["OK", "REORDER", "NONZERO", "KILLED", "GARBAGE", "EMPTY", "HANG", "MISSING"],
    # the Muscle wrappers run `<bin> -version` in the constructor: a missing binary never yields an object
    "muscle3": ["OK", "REORDER", "NONZERO", "KILLED", "GARBAGE", "EMPTY", "HANG"],
    "muscle5": ["OK", "REORDER", "NONZERO", "KILLED", "GARBAGE", "EMPTY", "HANG"],
    "mafft": ["OK", "REORDER", "NONZERO", "KILLED", "GARBAGE", "EMPTY", "HANG", "MISSING"],
}
VERSION = {"muscle3": "MUSCLE v3.8.31 by Robert C. Edgar", "muscle5": "muscle 5.1.linux64 []"}


# join(timeout=0): the time-out has already run out when the call is made - for the life-cycle model this
# is join(timeout): immediately JOINED from a finished run, TimeoutError + CANCELLED from a running one
MODEL_OP = {"join_0": "join_t"}


def model_tool(tool):
    """KILLED (the program writes its complete, parseable output and is then killed by a signal: negative
    return code) is a run that does not end well - in the life-cycle model it is the NONZERO behaviour"""
    return "NONZERO" if tool == "KILLED" else tool


def depth_for(wrapper, tier):
    if tier == "quick":
        return 4
    return 6 if wrapper in ("mini_local", "mini_msa") else 5


def bounds(tier):
    return {
        "core_path_depth": {w: depth_for(w, tier) for w in WRAPPERS},
        "wrappers": WRAPPERS,
        "tool_behaviours": sorted({t for v in TOOLS_FOR.values() for t in v}),
        "result_inputs": "multisets of 2 sequences of length 1-3 and of 3 sequences of length 1-2 over 2 letters"
        if tier == "quick" else "multisets of 2-3 sequences of length 1-3 over 2 letters",
        "join_timeout_s": JOIN_TIMEOUT,
        "generic_application": "all sequences of %d operations (%s) of length <= %d on a pure-Python Application "
                               "with harness-owned job and virtual clock (tick = %.0f s, join time-out %.0f s), "
                               "evaluate() succeeding / failing" % (len(GEN_OPS), ", ".join(GEN_OPS),
                                                                     5 if tier == "quick" else 7, GEN_TICK, GEN_TIMEOUT),
    }


# ---------------------------------------------------------------------------
# model: TLC + dot parsing
# ---------------------------------------------------------------------------
VARS = ["flag", "tool", "child", "released", "cleanups", "files", "cwdmoved", "dead"]


def _parse_label(label):
    d = {}
    text = label.replace('\\"', '"').replace("\\\\", "\\")
    for part in text.split("\\n"):
        part = part.strip()
        if part.startswith("/\\"):
            part = part[2:].strip()
        if " = " not in part:
            continue
        k, v = part.split(" = ", 1)
        k, v = k.strip(), v.strip()
        if v.startswith("["):
            rec = {}
            for m in re.finditer(r'(\w+) \|-> ("[^"]*"|\w+)', v):
                rec[m.group(1)] = m.group(2).strip('"')
            d[k] = rec
        elif v in ("TRUE", "FALSE"):
            d[k] = v == "TRUE"
        elif v.startswith('"'):
            d[k] = v.strip('"')
        else:
            d[k] = int(v)
    return d


def run_tlc():
    TLCDIR.mkdir(parents=True, exist_ok=True)
    meta = tempfile.mkdtemp(prefix="meta", dir=str(TLCDIR))
    dump = os.path.join(meta, "graph")
    r = subprocess.run(
        ["tlc", "-workers", "1", "-noGenerateSpecTE", "-deadlock", "-metadir", meta, "-dump", "dot,actionlabels",
         dump, "AppLifecycle"], cwd=str(TLA), capture_output=True, text=True, timeout=600,
        # TLC unpacks its resources into java.io.tmpdir: keep that inside the (removed) metadir, not in /tmp
        env={**os.environ, "JAVA_TOOL_OPTIONS": "-Djava.io.tmpdir=" + meta})
    out = r.stdout + r.stderr
    if "Model checking completed. No error has been found." not in out:
        shutil.rmtree(meta, ignore_errors=True)
        raise RuntimeError("TLC did not complete cleanly:\n" + out[-3000:])
    m = re.search(r"(\d+) states generated, (\d+) distinct states found", out)
    dot = open(dump + ".dot").read()
    shutil.rmtree(meta, ignore_errors=True)
    nodes, edges = {}, []
    for mm in re.finditer(r'^(-?\d+) \[label="(.*?)"(?:,style = filled|,tooltip=".*")?\]\s*;?$', dot, re.M):
        nodes[mm.group(1)] = _parse_label(mm.group(2))
    for mm in re.finditer(r'^(-?\d+) -> (-?\d+) \[label="(\w+)"', dot, re.M):
        edges.append((mm.group(1), mm.group(2), mm.group(3)))
    if not nodes or not edges:
        raise RuntimeError("could not parse the TLC dump")

    def key(n):
        return [nodes[n][v] for v in VARS]

    trans = {}
    inits = []
    for n, d in nodes.items():
        if d["last"]["op"] == "init":
            inits.append(key(n))
    for u, v, act in edges:
        last = nodes[v]["last"]
        trans.setdefault(json.dumps(key(u)), set()).add((last["op"], last["out"], json.dumps(key(v)), act))
    g = {
        "inits": inits,
        "trans": {k: sorted(map(list, v)) for k, v in trans.items()},
        "tlc_states": int(m.group(2)) if m else len(nodes),
        "tlc_generated": int(m.group(1)) if m else len(edges),
        "dot_nodes": len(nodes),
        "dot_edges": len(edges),
    }
    tmp = str(GRAPH) + ".tmp%d" % os.getpid()
    with open(tmp, "w") as f:
        json.dump(g, f)
    os.replace(tmp, GRAPH)
    return g


_graph = None


def graph():
    global _graph
    if _graph is None:
        _graph = json.load(open(GRAPH))
    return _graph


def prepare(tier, seed):
    g = run_tlc()
    abstract = set(g["trans"].keys())
    for v in g["trans"].values():
        for t in v:
            abstract.add(t[2])
    return {
        "model_states_tlc": g["tlc_states"],
        "model_states_generated_tlc": g["tlc_generated"],
        "model_graph_edges": g["dot_edges"],
        "model_abstract_states": len(abstract),
        "checker_cmd": "tlc -workers 1 -noGenerateSpecTE -deadlock -dump dot,actionlabels <out> AppLifecycle (tla/AppLifecycle.cfg: 6 invariants)",
    }


def succ(state_key, op):
    return [(t[1], t[2]) for t in graph()["trans"].get(state_key, []) if t[0] == op]


def core_paths(tool, depth):
    """All sequences of core operations of length 1..depth enabled by the model
    (an operation is enabled when every model state the prefix may have reached
    has a transition for it)."""
    g = graph()
    init = [json.dumps(k) for k in g["inits"] if k[1] == model_tool(tool)]
    out = []

    def rec(cur, path):
        if path:
            out.append(list(path))
        if len(path) == depth:
            return
        for op in CORE_OPS:
            nxt = set()
            ok = True
            for s in cur:
                ss = succ(s, op)
                if not ss:
                    ok = False
                    break
                nxt.update(x[1] for x in ss)
            if ok and nxt:
                path.append(op)
                rec(frozenset(nxt), path)
                path.pop()

    rec(frozenset(init), [])
    # only maximal paths and paths that are not a prefix of a longer one need their own run;
    # every prefix is checked while the longer path runs
    longest = [p for p in out if len(p) == depth or not any(q[: len(p)] == p and len(q) > len(p) for q in out)]
    return longest


# ---------------------------------------------------------------------------
# wrappers under test
# ---------------------------------------------------------------------------
def make_classes():
    from biotite.application.clustalo import ClustalOmegaApp
    from biotite.application.localapp import LocalApp
    from biotite.application.mafft import MafftApp
    from biotite.application.msaapp import MSAApp
    from biotite.application.muscle import Muscle5App, MuscleApp

    def counted(base):
        class Counted(base):
            def clean_up(self):
                self.verif_cleanups = getattr(self, "verif_cleanups", 0) + 1
                super().clean_up()

        Counted.__name__ = "Counted" + base.__name__
        return Counted

    class MiniLocal(LocalApp):
        def __init__(self, bin_path):
            super().__init__(bin_path)
            self.result = None

        def run(self):
            self.set_arguments(["--local", "x"])
            super().run()

        def evaluate(self):
            super().evaluate()
            self.result = self.get_stdout()

    class MiniMSA(MSAApp):
        def run(self):
            self.set_arguments(["--in", self.get_input_file_path(), "--out", self.get_output_file_path()])
            super().run()

        @staticmethod
        def supports_nucleotide():
            return True

        @staticmethod
        def supports_protein():
            return True

        @staticmethod
        def supports_custom_nucleotide_matrix():
            return False

        @staticmethod
        def supports_custom_protein_matrix():
            return True

    return {
        "mini_local": counted(MiniLocal),
        "mini_msa": counted(MiniMSA),
        "clustalo": counted(ClustalOmegaApp),
        "muscle3": counted(MuscleApp),
        "muscle5": counted(Muscle5App),
        "mafft": counted(MafftApp),
    }


_classes = None


def classes():
    global _classes
    if _classes is None:
        _classes = make_classes()
    return _classes


def make_sequences(seqtype, strings):
    import biotite.sequence as seq

    if seqtype == "protein":
        letters = {"a": "A", "b": "W"}
        return [seq.ProteinSequence("".join(letters[c] for c in s)) for s in strings]
    if seqtype == "nucleotide":
        letters = {"a": "A", "b": "G"}
        return [seq.NucleotideSequence("".join(letters[c] for c in s)) for s in strings]
    # custom alphabet, mapped onto protein letters by the wrapper
    alph = seq.Alphabet(["foo", "bar", 42])
    sym = {"a": "foo", "b": 42}
    return [seq.GeneralSequence(alph, [sym[c] for c in s]) for s in strings]


def custom_matrix():
    import numpy as np

    import biotite.sequence as seq
    import biotite.sequence.align as align

    alph = seq.Alphabet(["foo", "bar", 42])
    return align.SubstitutionMatrix(alph, alph, np.eye(3, dtype=np.int32) * 5 - 2)


# ---------------------------------------------------------------------------
# one execution
# ---------------------------------------------------------------------------
class Run:
    """One wrapper object in a private sandbox (temp dir, exec dir, gate)."""

    def __init__(self, wrapper, tool, strings=("ab", "a"), seqtype="protein"):
        self.wrapper, self.tool = wrapper, tool
        base = loader.BUILD / "c20tmp"
        base.mkdir(parents=True, exist_ok=True)
        self.root = tempfile.mkdtemp(prefix="r%d_" % os.getpid(), dir=str(base))
        self.tmp = os.path.join(self.root, "tmp")
        self.execd = os.path.join(self.root, "exec")
        os.mkdir(self.tmp)
        os.mkdir(self.execd)
        self.gate = os.path.join(self.root, "gate")
        open(self.gate, "w").close()
        self.cwd0 = os.getcwd()
        self.old_tempdir = tempfile.tempdir
        tempfile.tempdir = self.tmp
        os.environ["FAKETOOL_MODE"] = tool if tool != "MISSING" else "OK"
        os.environ["FAKETOOL_GATE"] = self.gate
        os.environ["FAKETOOL_VERSION"] = VERSION.get(wrapper, "faketool 1.0")
        bin_path = FAKETOOL if tool != "MISSING" else os.path.join(self.root, "no_such_binary")
        cls = classes()[wrapper]
        self.strings = list(strings)
        self.seqtype = seqtype
        if wrapper == "mini_local":
            self.app = cls(bin_path)
            self.sequences = None
        else:
            self.sequences = make_sequences(seqtype, strings)
            kw = {}
            if seqtype == "custom":
                kw["matrix"] = custom_matrix()
            self.app = cls(self.sequences, bin_path, **kw)
        self.app.verif_cleanups = 0
        self.initial_files = sorted(os.listdir(self.tmp))
        self.app.set_exec_dir(self.execd)

    # -- observation ---------------------------------------------------
    def child(self, settle=False):
        p = self.app._process
        if p is None:
            return "NONE"
        deadline = time.monotonic() + (5.0 if settle else 0.0)
        while True:
            st = self._alive(p)
            if st == "EXITED" or time.monotonic() >= deadline:
                return st
            time.sleep(0.002)

    @staticmethod
    def _alive(p):
        if p.returncode is not None:
            return "EXITED"
        try:
            with open("/proc/%d/stat" % p.pid) as f:
                s = f.read()
            state = s[s.rindex(")") + 2]
            return "EXITED" if state in "ZX" else "ALIVE"
        except (FileNotFoundError, ProcessLookupError):
            return "EXITED"

    def files(self):
        cur = sorted(os.listdir(self.tmp))
        if not cur:
            return "REMOVED" if self.initial_files else "NONE"
        if all(f in cur for f in self.initial_files):
            return "PRESENT"
        return "PARTIAL:" + ",".join(f.rsplit(".", 1)[-1] for f in cur)

    def observe(self, expect_dead_child=False):
        return {
            "flag": self.app._state.name,
            "child": self.child(settle=expect_dead_child),
            "cleanups": self.app.verif_cleanups,
            "files": self.files(),
            "cwd_ok": os.getcwd() == self.cwd0,
        }

    # -- operations ----------------------------------------------------
    def do(self, op):
        """Returns the outcome class."""
        from biotite.application import AppStateError, TimeoutError as AppTimeout

        try:
            if op == "start":
                self.app.start()
            elif op == "join":
                self.app.join()
            elif op == "join_t":
                self.app.join(timeout=JOIN_TIMEOUT)
            elif op == "join_0":
                # must return at once; if it blocks on the gated child, the child is killed after 5 s
                # so that the call comes back, and the outcome is 'Blocked'
                import threading

                fired = []

                def rescue():
                    fired.append(1)
                    try:
                        self.app._process.kill()
                    except Exception:  # noqa: BLE001
                        pass

                timer = threading.Timer(5.0, rescue)
                timer.start()
                try:
                    try:
                        self.app.join(timeout=0)
                    finally:
                        timer.cancel()
                except BaseException:  # noqa: BLE001
                    if fired:
                        return "Blocked"
                    raise
                if fired:
                    return "Blocked"
            elif op == "cancel":
                self.app.cancel()
            elif op == "get_app_state":
                return self.app.get_app_state().name
            elif op == "release":
                os.unlink(self.gate)
                p = self.app._process
                deadline = time.monotonic() + 20
                while self._alive(p) == "ALIVE":
                    if time.monotonic() > deadline:
                        raise RuntimeError("harness: released fake tool did not exit")
                    time.sleep(0.001)
            else:
                return self.probe(op)
            return "ok"
        except AppStateError:
            return "AppStateError"
        except (AppTimeout, TimeoutError):
            # LocalApp.join() raises the builtin TimeoutError, Application.join() biotite's own
            # class; the property does not name the class, both count as the time-out outcome
            return "TimeoutError"
        except subprocess.SubprocessError:
            return "SubprocessError"
        except RuntimeError as e:
            if str(e).startswith("harness:"):
                raise
            return "Other:" + type(e).__name__
        except Exception as e:  # noqa: BLE001
            return "Other:" + type(e).__name__

    def probe(self, p):
        import numpy as np

        a = self.app
        if p == "get_alignment":
            a.get_alignment()
        elif p == "get_alignment_order":
            a.get_alignment_order()
        elif p == "get_exit_code":
            v = a.get_exit_code()
            want = {"NONZERO": 3, "KILLED": -9}.get(self.tool, 0)
            if v != want:
                return "WrongValue:exit_code=%r" % v
        elif p == "get_stdout":
            v = a.get_stdout()
            if not isinstance(v, str):
                return "WrongValue:stdout_type"
        elif p == "get_stderr":
            v = a.get_stderr()
            if not isinstance(v, str) or (self.tool == "NONZERO") != ("boom" in v):
                return "WrongValue:stderr"
        elif p == "get_command":
            v = a.get_command()
            if not isinstance(v, str) or not v.split(" ")[0].endswith(("faketool", "no_such_binary")):
                return "WrongValue:command"
        elif p == "get_process":
            v = a.get_process()
            if v is not a._process or v is None:
                return "WrongValue:process"
        elif p == "set_arguments":
            a.set_arguments(["--local", "x"] if self.wrapper == "mini_local" else [])
        elif p == "add_additional_options":
            a.add_additional_options([])
        elif p == "set_exec_dir":
            a.set_exec_dir(self.execd)
        elif p == "set_stdin":
            a.set_stdin(None)
        elif p == "app_option":
            if self.wrapper == "clustalo":
                n = len(self.strings)
                a.set_distance_matrix(np.ones((n, n)) - np.eye(n))
            elif self.wrapper == "muscle3":
                a.set_gap_penalty((-2.0, -1.0))
            elif self.wrapper == "muscle5":
                a.set_thread_number(1)
            else:
                a.add_additional_options([])
        else:
            raise ValueError(p)
        return "ok"

    def close(self):
        p = getattr(self.app, "_process", None) if hasattr(self, "app") else None
        if p is not None:
            try:
                if p.returncode is None:
                    p.kill()
                p.wait(timeout=10)
                for f in (p.stdout, p.stderr, p.stdin):
                    if f is not None:
                        f.close()
            except Exception:  # noqa: BLE001
                pass
        for name in ("_in_file", "_out_file", "_matrix_file", "_in_dist_matrix_file", "_out_dist_matrix_file",
                     "_in_tree_file", "_out_tree_file", "_out_tree1_file", "_out_tree2_file"):
            f = getattr(getattr(self, "app", None), name, None)
            try:
                if f is not None:
                    f.close()
            except Exception:  # noqa: BLE001
                pass
        tempfile.tempdir = self.old_tempdir
        try:
            os.chdir(self.cwd0)
        except OSError:
            pass
        shutil.rmtree(self.root, ignore_errors=True)


PROBES = ["get_alignment", "get_alignment_order", "get_exit_code", "get_stdout", "get_stderr", "get_command",
          "get_process", "set_arguments", "add_additional_options", "set_exec_dir", "set_stdin", "app_option"]
MSA_ONLY = {"get_alignment", "get_alignment_order"}


def out_matches(model_out, got):
    if model_out == got:
        return True
    if model_out in ("LaunchError", "EvalError"):
        return got.startswith("Other:")
    return False


def state_matches(skey, obs, has_files):
    s = dict(zip(VARS, json.loads(skey)))
    diffs = []
    if s["flag"] != obs["flag"]:
        diffs.append("flag")
    if s["child"] != obs["child"]:
        diffs.append("child")
    if s["cleanups"] != obs["cleanups"]:
        diffs.append("cleanups")
    if has_files and s["files"] != obs["files"]:
        diffs.append("files")
    if s["cwdmoved"] == obs["cwd_ok"]:
        diffs.append("cwd")
    return diffs


def simulate_step(cur, op, got_out, obs, has_files):
    """Returns (set of matching successor states, mismatch description or None)."""
    cands = []
    for s in cur:
        cands.extend(succ(s, MODEL_OP.get(op, op)))
    matching = set()
    best = None
    for mo, s2 in cands:
        if not out_matches(mo, got_out):
            continue
        diffs = state_matches(s2, obs, has_files)
        if not diffs:
            matching.add(s2)
        elif best is None or len(diffs) < len(best[0]):
            best = (diffs, mo, s2)
    if matching:
        return matching, None
    if best is not None:
        return set(), {"kind": "state:" + "+".join(best[0]), "expected_state": dict(zip(VARS, json.loads(best[2]))),
                       "expected_outcome": best[1]}
    exp = sorted({mo for mo, _ in cands})
    return set(), {"kind": "outcome:%s_instead_of_%s" % (got_out.split(":")[0], "/".join(exp)),
                   "expected_outcome": exp,
                   "expected_state": [dict(zip(VARS, json.loads(s2))) for _, s2 in cands][:2]}


def run_path(ctx, wrapper, tool, ops, strings=("ab", "a"), seqtype="protein", check_results=False):
    case = {"kind": "path", "wrapper": wrapper, "tool": tool, "ops": list(ops), "strings": list(strings),
            "seqtype": seqtype, "check_results": check_results}
    g = graph()
    cur = {json.dumps(k) for k in g["inits"] if k[1] == model_tool(tool)}
    run = None
    try:
        try:
            run = Run(wrapper, tool, strings, seqtype)
        except Exception as e:  # noqa: BLE001
            ctx.violation("%s|construct|%s" % (wrapper, type(e).__name__), "constructing the wrapper failed", case,
                          "object", repr(e)[:300])
            return
        has_files = bool(run.initial_files)
        obs = run.observe()
        ctx.transition()
        if any(state_matches(s, obs, has_files) for s in cur):
            ctx.violation("%s|init|%s" % (wrapper, "+".join(state_matches(next(iter(cur)), obs, has_files))),
                          "fresh wrapper does not match the initial model state", case,
                          dict(zip(VARS, json.loads(next(iter(cur))))), obs)
            return
        ok = check_probes(ctx, run, cur, case, has_files, 0)
        if ok is None:
            return
        cur = ok
        for i, op in enumerate(ops):
            for s in cur:
                ctx.state(s)
            got = run.do(op)
            ends = op in ("cancel", "join_t", "join_0", "join", "start")
            obs = run.observe(expect_dead_child=ends and got != "AppStateError" and run.app._state.name in
                              ("CANCELLED", "JOINED"))
            ctx.transition()
            nxt, mismatch = simulate_step(cur, op, got, obs, has_files)
            ctx.outcome((wrapper, tool, op, got, obs["flag"], obs["child"], obs["cleanups"], obs["files"]))
            if mismatch:
                frm = sorted({json.loads(s)[0] for s in cur})
                ctx.violation("%s|%s|tool=%s|from=%s|%s" % (wrapper, op, tool, "/".join(frm), mismatch["kind"]),
                              "after %s the wrapper matches no admissible model successor (step %d)" % (op, i),
                              case, expected=mismatch, observed={"outcome": got, **obs})
                return
            cur = nxt
            ok = check_probes(ctx, run, cur, case, has_files, i + 1)
            if ok is None:
                return
            cur = ok
            if check_results and obs["flag"] == "JOINED":
                check_result_values(ctx, run, case)
        for s in cur:
            ctx.state(s)
    finally:
        if run is not None:
            run.close()


def check_probes(ctx, run, cur, case, has_files, step):
    """Every probe transition of the model at the current state. Returns the new
    set of model states or None after a violation."""
    for p in PROBES:
        if run.wrapper == "mini_local" and p in MSA_ONLY:
            continue
        got = run.do(p)
        obs = run.observe()
        ctx.transition()
        nxt, mismatch = simulate_step(cur, p, got, obs, has_files)
        ctx.outcome((run.wrapper, "probe", p, got, obs["flag"]))
        if mismatch:
            frm = sorted({json.loads(s)[0] for s in cur})
            ctx.violation("%s|probe:%s|from=%s|%s" % (run.wrapper, p, "/".join(frm), mismatch["kind"]),
                          "probe %s at step %d matches no admissible model successor" % (p, step), case,
                          expected=mismatch, observed={"outcome": got, **obs})
            return None
        cur = nxt
    return cur


def expected_alignment(strings, reorder):
    """What the fake tool writes, recomputed independently: the width is the longest
    input + 1; odd entries are right-aligned, even ones left-aligned."""
    width = max(len(s) for s in strings) + 1
    trace = []
    for c in range(width):
        col = []
        for i, s in enumerate(strings):
            pad = width - len(s)
            if i % 2:
                col.append(c - pad if c >= pad else -1)
            else:
                col.append(c if c < len(s) else -1)
        trace.append(col)
    order = list(range(len(strings)))
    if reorder:
        order = order[::-1]
    return trace, order


def check_result_values(ctx, run, case):
    import numpy as np

    if run.wrapper == "mini_local":
        if not (isinstance(run.app.result, str) and run.app.result.startswith("local tool output")):
            ctx.violation("mini_local|result|stdout", "result differs from the tool output", case,
                          "local tool output ...", run.app.result)
        return
    try:
        ali = run.app.get_alignment()
        order = run.app.get_alignment_order()
    except Exception as e:  # noqa: BLE001
        ctx.violation("%s|result|getter_%s" % (run.wrapper, type(e).__name__), "result getter failed after join",
                      case, "alignment", repr(e)[:200])
        return
    trace, exp_order = expected_alignment(run.strings, run.tool == "REORDER")
    got_trace = np.asarray(ali.trace).tolist()
    if got_trace != trace:
        ctx.violation("%s|result|trace|%s" % (run.wrapper, run.seqtype),
                      "alignment differs from what the external program produced (input order)", case, trace,
                      got_trace)
    if [int(x) for x in order] != exp_order:
        ctx.violation("%s|result|order|%s" % (run.wrapper, run.tool), "alignment order differs from tool output order",
                      case, exp_order, [int(x) for x in order])
    seqs = ali.sequences
    if len(seqs) != len(run.sequences) or any(type(a) is not type(b) or list(a.code) != list(b.code)
                                              or a.get_alphabet() != b.get_alphabet()
                                              for a, b in zip(seqs, run.sequences)):
        ctx.violation("%s|result|sequences|%s" % (run.wrapper, run.seqtype),
                      "aligned sequences are not the inputs in input order and type", case,
                      [str(type(s).__name__) for s in run.sequences], [str(type(s).__name__) for s in seqs])
    ctx.outcome((run.wrapper, "result", json.dumps(got_trace), [int(x) for x in order]))


# ---------------------------------------------------------------------------
# shards
# ---------------------------------------------------------------------------
def all_strings(maxlen):
    out = []
    for n in range(1, maxlen + 1):
        out += ["".join(p) for p in itertools.product("ab", repeat=n)]
    return out


def result_sets(tier):
    s3 = all_strings(3)
    s2 = all_strings(2)
    sets = list(itertools.combinations_with_replacement(s3, 2))
    if tier == "quick":
        sets += list(itertools.combinations_with_replacement(s2, 3))
    else:
        sets += list(itertools.combinations_with_replacement(s3, 3))
    # many sequences: names "0".."N-1" have one and two digits, neighbouring rows differ in
    # length and therefore in gap pattern (N around the 10 boundary; thorough: up to 25 and 101)
    s_cycle = ["a", "ab", "bab", "ba", "b", "abb", "bb"]
    for n in ((9, 10, 11, 12) if tier == "quick" else (9, 10, 11, 12, 13, 20, 21, 25, 101)):
        sets.append(tuple(s_cycle[(k * 3 + k // 7) % 7] for k in range(n)))
    return sets


def seqtypes_for(wrapper):
    if wrapper in ("muscle3", "mafft", "mini_msa"):
        return ["protein", "nucleotide", "custom"]
    return ["protein", "nucleotide"]


def shards(tier, seed):
    out = []
    nchunk = 4 if tier == "quick" else 12
    for w in WRAPPERS:
        for t in TOOLS_FOR[w]:
            for c in range(nchunk):
                out.append({"kind": "paths", "wrapper": w, "tool": t, "chunk": c, "chunks": nchunk})
    nres = 4 if tier == "quick" else 16
    for w in WRAPPERS:
        if w == "mini_local":
            continue
        for st in seqtypes_for(w):
            for t in ("OK", "REORDER"):
                for c in range(nres):
                    out.append({"kind": "results", "wrapper": w, "tool": t, "seqtype": st, "chunk": c, "chunks": nres})
    for ev in ("OK", "FAIL"):
        for c in range(4):
            out.append({"kind": "generic", "wrapper": "mini_generic", "eval": ev, "chunk": c, "chunks": 4})
    k = seed % max(1, len(out))
    return out[k:] + out[:k]


def run_shard(shard, ctx):
    if shard["kind"] == "generic":
        run_generic(shard, ctx)
        return
    depth = depth_for(shard["wrapper"], ctx.tier)
    if shard["kind"] == "paths":
        paths = core_paths(shard["tool"], depth)
        for i, ops in enumerate(paths):
            if i % shard["chunks"] != shard["chunk"]:
                continue
            nontriv = "start" in ops
            ctx.ev(1, 1 if nontriv else 0)
            ctx.trace()
            if not ctx.journal(json.dumps({"kind": "path", "wrapper": shard["wrapper"], "tool": shard["tool"],
                                           "ops": ops})):
                continue
            run_path(ctx, shard["wrapper"], shard["tool"], ops)
            if "join_t" in ops:
                ops0 = ["join_0" if o == "join_t" else o for o in ops]
                if ctx.journal(json.dumps({"kind": "path", "wrapper": shard["wrapper"], "tool": shard["tool"],
                                           "ops": ops0})):
                    ctx.ev(1, 1 if nontriv else 0)
                    run_path(ctx, shard["wrapper"], shard["tool"], ops0)
            if len(ctx.samples) < 2 and len(ops) == depth and "release" in ops:
                ctx.sample({"wrapper": shard["wrapper"], "tool": shard["tool"], "ops": ops})
    else:
        sets = result_sets(ctx.tier)
        for i, strings in enumerate(sets):
            if i % shard["chunks"] != shard["chunk"]:
                continue
            ctx.ev(1, 1)
            ctx.trace()
            for ops in (["start", "release", "join"], ["start", "release", "get_app_state", "join_t"]):
                if ops[-1] == "join_t" and i % 4:
                    continue
                run_path(ctx, shard["wrapper"], shard["tool"], ops, strings=strings, seqtype=shard["seqtype"],
                         check_results=True)
            if len(ctx.samples) < 1:
                ctx.sample({"wrapper": shard["wrapper"], "tool": shard["tool"], "seqtype": shard["seqtype"],
                            "strings": list(strings), "ops": ["start", "release", "join"]})


# ---------------------------------------------------------------------------
# generic Application.join()/cancel()/get_app_state() (what WebApp and user-defined applications
# inherit; LocalApp overrides join): explicit-state exploration of a pure-Python application whose
# job and whose CLOCK are owned by the harness.  biotite.application.application.time is replaced
# by a virtual clock, so 'the job finishes' (release) and 'time passes' (tick: more than the join
# time-out elapses) are environment events of the alphabet like any other.
# ---------------------------------------------------------------------------
GEN_OPS = ["start", "release", "tick", "join", "join_t", "join_0", "cancel", "get_app_state", "get_result"]
GEN_TIMEOUT = 1.0
GEN_TICK = 5.0


class VClock:
    """stands in for the `time` module inside biotite.application.application"""

    def __init__(self):
        self.now = 1000.0
        self.sleeps = 0

    def time(self):
        return self.now

    def monotonic(self):
        return self.now

    def sleep(self, dt):
        self.sleeps += 1
        if self.sleeps > 100000:
            raise RuntimeError("harness: join() did not return on the virtual clock")
        self.now += max(float(dt), 1e-6)


_generic_cls = None


def generic_class():
    global _generic_cls
    if _generic_cls is None:
        from biotite.application.application import Application, AppState, requires_state

        class MiniGeneric(Application):
            def __init__(self, eval_mode):
                super().__init__()
                self.job_done = False
                self.eval_mode = eval_mode
                self.verif_cleanups = 0
                self.result = None

            def run(self):
                self.run_calls = getattr(self, "run_calls", 0) + 1

            def is_finished(self):
                return self.job_done

            def wait_interval(self):
                return 0.01

            def evaluate(self):
                if self.eval_mode == "FAIL":
                    raise ValueError("unreadable output")
                self.result = 42

            def clean_up(self):
                self.verif_cleanups += 1

            @requires_state(AppState.JOINED)
            def get_result(self):
                return self.result

        _generic_cls = MiniGeneric
    return _generic_cls


def gen_model(m, op):
    """reference model: m = (state, done, cleanups); state is the EFFECTIVE state (FINISHED as soon as
    the job is done).  Returns (outcome or None when the operation is not enabled, new m)."""
    st, done, cl, ev = m
    eff = "FINISHED" if (st == "RUNNING" and done) else st
    if op == "release":
        return "ok", (st, True, cl, ev)
    if op == "tick":
        return "ok", (st, done, cl, ev)
    if op == "start":
        if eff != "CREATED":
            return "AppStateError", (eff, done, cl, ev)
        return "ok", ("RUNNING", done, cl, ev)
    if op == "get_app_state":
        return eff, (eff, done, cl, ev)
    if op == "get_result":
        return ("value:42" if eff == "JOINED" else "AppStateError"), (eff, done, cl, ev)
    if op == "cancel":
        if eff not in ("RUNNING", "FINISHED"):
            return "AppStateError", (eff, done, cl, ev)
        return "ok", ("CANCELLED", done, cl + 1, ev)
    if op in ("join", "join_t", "join_0"):
        if eff not in ("RUNNING", "FINISHED"):
            return "AppStateError", (eff, done, cl, ev)
        if done:
            # 'If the application is FINISHED the joining process happens immediately' - however
            # much time has passed since start()
            if ev == "FAIL":
                return "Other:ValueError", ("CANCELLED", done, cl + 1, ev)
            return "ok", ("JOINED", done, cl + 1, ev)
        if op == "join":
            return None, m  # would wait forever
        return "TimeoutError", ("CANCELLED", done, cl + 1, ev)
    raise ValueError(op)


def gen_do(app, clock, op):
    from biotite.application import AppStateError, TimeoutError as AppTimeout

    try:
        if op == "release":
            app.job_done = True
        elif op == "tick":
            clock.now += GEN_TICK
        elif op == "start":
            app.start()
        elif op == "join":
            app.join()
        elif op == "join_t":
            app.join(timeout=GEN_TIMEOUT)
        elif op == "join_0":
            app.join(timeout=0)
        elif op == "cancel":
            app.cancel()
        elif op == "get_app_state":
            return app.get_app_state().name
        elif op == "get_result":
            return "value:%r" % (app.get_result(),)
        return "ok"
    except AppStateError:
        return "AppStateError"
    except (AppTimeout, TimeoutError):
        return "TimeoutError"
    except RuntimeError as e:
        if str(e).startswith("harness:"):
            raise
        return "Other:RuntimeError"
    except Exception as e:  # noqa: BLE001
        return "Other:" + type(e).__name__


def gen_step_ok(ctx, ev, hist, op, m, app, clock):
    want, m2 = gen_model(m, op)
    if want is None:
        return None, m
    ctx.transition()
    got = gen_do(app, clock, op)
    case = {"kind": "generic", "eval": ev, "ops": hist + [op]}
    frm = "FINISHED" if (m[0] == "RUNNING" and m[1]) else m[0]
    late = (clock.now - getattr(app, "_start_time", clock.now)) > GEN_TIMEOUT
    cls = "%s|from=%s%s" % (op, frm, "|late" if late and op in ("join", "join_t", "join_0") else "")
    if got != want:
        ctx.violation("mini_generic|%s|outcome:%s_instead_of_%s" % (cls, got, want),
                      "generic Application: %s returned/raised %s, the life cycle demands %s" % (op, got, want),
                      case, want, got)
        return False, m2
    eff = m2[0]
    admitted = {eff} | ({"RUNNING"} if eff == "FINISHED" else set())
    obs = (app._state.name, app.verif_cleanups)
    if obs[0] not in admitted or obs[1] != m2[2]:
        ctx.violation("mini_generic|%s|state:%s" % (cls, "flag" if obs[0] not in admitted else "cleanups"),
                      "generic Application: state after %s differs from the life cycle" % op, case,
                      [sorted(admitted), m2[2]], list(obs))
        return False, m2
    return True, m2


def run_generic(shard, ctx):
    import copy

    import biotite.application.application as appmod

    depth = 5 if ctx.tier == "quick" else 7
    ev = shard["eval"]
    real_time = appmod.time
    try:
        clock = VClock()
        appmod.time = clock
        app = generic_class()(ev)
        m0 = ("CREATED", False, 0, ev)
        ctx.state(("generic",) + m0)
        stack = [([], m0, app, clock)]
        while stack:
            hist, m, app, clock = stack.pop()
            for op in GEN_OPS:
                if len(hist) == 0 and GEN_OPS.index(op) % shard["chunks"] != shard["chunk"]:
                    continue
                if gen_model(m, op)[0] is None:
                    continue
                a2, c2 = copy.deepcopy((app, clock))
                appmod.time = c2
                ok, m2 = gen_step_ok(ctx, ev, hist, op, m, a2, c2)
                if ok is None:
                    continue
                ctx.ev(1, 1 if "start" in hist + [op] else 0)
                ctx.trace()
                late = (c2.now - getattr(a2, "_start_time", c2.now)) > GEN_TIMEOUT
                ctx.outcome(("generic", op, m2[0], m2[1], late))
                ctx.state(("generic",) + m2 + (late,))
                if ok and len(hist) + 1 < depth:
                    stack.append((hist + [op], m2, a2, c2))
    finally:
        appmod.time = real_time


def replay_generic(case, ctx):
    import biotite.application.application as appmod

    real_time = appmod.time
    try:
        clock = VClock()
        appmod.time = clock
        app = generic_class()(case["eval"])
        m = ("CREATED", False, 0, case["eval"])
        hist = []
        for op in case["ops"]:
            ok, m = gen_step_ok(ctx, case["eval"], hist, op, m, app, clock)
            hist.append(op)
            if not ok:
                return
    finally:
        appmod.time = real_time


def crash_class(case):
    if isinstance(case, dict):
        return "%s|%s" % (case.get("wrapper"), case.get("tool"))
    return "unclassified"


def replay(case, ctx):
    if case.get("kind") == "generic":
        replay_generic(case, ctx)
        return
    if not GRAPH.exists():
        run_tlc()
    run_path(ctx, case["wrapper"], case["tool"], case["ops"], strings=tuple(case.get("strings", ("ab", "a"))),
             seqtype=case.get("seqtype", "protein"), check_results=case.get("check_results", False))


def finalize(cov):
    base = loader.BUILD / "c20tmp"
    shutil.rmtree(base, ignore_errors=True)
    return {}
