"""C13 - slicing annotations and annotated sequences matches a per-base model.

E2 (bounded input-space enumeration).  Every annotation / annotated sequence of the
stated finite space is built through the public constructors, every slice / feature
index / reverse complement / copy is executed on the real objects and compared with a
brute-force per-base model (positions are enumerated one by one, nothing is computed
from interval arithmetic).
"""

import itertools
import json

ID = "C13"
LEVEL = "model_checking"
RULE = (
    "Complete products, no sampling. aseq1/aseq2/aseq3/aseq2f/aseq3f: every annotated sequence of length n "
    "over every listed sequence_start whose annotation is {1 feature, 1 location} / {1 feature, 2 "
    "locations} / {1 feature, 3 locations} / {2 features, same or different key} / {3 features, two "
    "sharing key and qualifiers} with first<=last ranging over ALL positions of "
    "[start-2, start+n+1] (locations may overhang the sequence; 3-location/3-feature spaces: overhang 1), "
    "both strands, the defect palette (second/third location of a feature: no defect; multi-feature "
    "spaces: NONE and MISS_LEFT); "
    "crossed with every slice [a:b] (start<=a<=b<=end), [a:], [:b], [:] and starts below "
    "sequence_start (refuse). annot1/annot2: the same for bare Annotation objects on a position window "
    "crossing zero with every a,b of the window (+-1) or omitted. findex: every feature of 1..3 "
    "locations inside the sequence, both strands, as get and set index, plus every integer index. "
    "revcomp: every 1-location and (reduced) 2-location annotation x all single defect flags x "
    "reverse-complement start values, single and double application, plus copy/independence. "
    "A slice case is non-trivial when the model result keeps >= 1 location and clipped or dropped >= 1 "
    "location, or when the slice is open-ended and keeps >= 1 location; a feature-index case when the "
    "feature has >= 2 locations or is on the reverse strand; a revcomp/copy case when the annotation "
    "has a location with a defect or start != 1. Cases are generated from canonical (sorted, "
    "de-duplicated) descriptions, so no case is executed twice. Dimension families (dim_*): the same checks "
    "on complete small spaces along one more dimension each - sequence object flavour (alphabet sizes 256/257/300 "
    "= uint8/uint16 code, ProteinSequence, forced ambiguous alphabet, negative-stride and strided code views), "
    "numpy integer scalars (int64/int32/int8/uint8/uint64) as slice bounds, integer index, sequence_start and "
    "positions, object reuse (every slice of every slice, two successive feature assignments, slices before and "
    "after every in-place edit for all 24 orders of 4 features, calls after refused calls), argument aliasing and "
    "order independence (every container type and every order of locations / qualifiers / features), empty "
    "annotation / empty sequence / no location, many items (positions 8..12 and 98..102, 10 and 101 features, "
    "9..12 locations in one feature), positions around +-sys.maxsize (counted only)."
)
ASSUMPTIONS = [
    "EITHER (exception or exact model value): empty slices (a == b, or a > b on a bare Annotation)",
    "EITHER: on an omitted slice bound, locations overhanging the sequence on that side may be left "
    "untouched (bound = infinity, as documented for Annotation) or clipped to the sequence end and marked",
    "EITHER: Feature index with mixed strands (exception, or concatenation ordered by position) and with "
    "overlapping locations (any order of the location subsequences)",
    "EITHER: Feature.copy() (Feature is immutable; the statement speaks of copies of annotated sequences)",
    "not enumerated (statement silent / documented as unsupported): slice stops beyond the sequence end, "
    "integer indices outside the sequence, Feature indices overhanging the sequence, Feature assignment "
    "with overlapping or mixed-strand locations or a value of the wrong length, slice steps",
    "single reverse complement is judged against the documented meaning (positions mirrored, strand "
    "flipped, LEFT/RIGHT defect flags swapped); the statement itself only demands that two applications "
    "restore the original",
    "whether a sliced AnnotatedSequence shares memory with its parent is unspecified and not checked",
    "complement table of the model: IUPAC (A-T C-G R-Y M-K B-V D-H, W S N self-complementary)",
    "counted as unspecified, never reported: what an AnnotatedSequence shares with its constructor arguments, "
    "with its slices, with x[feature] and with its reverse complement; Feature assignment with a value of the "
    "wrong length (partial writes); unsigned numpy integers as a slice stop of 0 on a bare Annotation and as "
    "positions (numpy's unsigned arithmetic wraps); positions of magnitude >= sys.maxsize",
]
EXHAUSTIVE = True
SHARD_TIMEOUT = {"quick": 600, "thorough": 2400}

# ---------------------------------------------------------------------------
# palettes (seed selects among listed, individually clean tables)
# ---------------------------------------------------------------------------
DEF_NAMES = ["MISS_LEFT", "MISS_RIGHT", "BEYOND_LEFT", "BEYOND_RIGHT", "UNK_LOC", "BETWEEN"]
BIT = {name: 1 << i for i, name in enumerate(DEF_NAMES)}  # the model's own numbering
ML, MR = BIT["MISS_LEFT"], BIT["MISS_RIGHT"]
BASE_DEFECTS = [0, BIT["MISS_LEFT"], BIT["BEYOND_RIGHT"]]
EXTRA_DEFECTS = [BIT["MISS_RIGHT"], BIT["BEYOND_LEFT"], BIT["UNK_LOC"], BIT["BETWEEN"], ML | MR,
                 BIT["MISS_RIGHT"] | BIT["BEYOND_LEFT"], BIT["MISS_LEFT"] | BIT["UNK_LOC"], MR | BIT["BETWEEN"]]
THIRD_START = [5, 3, 7, 11, 40, 4, 9, 1000]
# 12 distinct letters of the ambiguous alphabet; every window is distinguishable
SEQ_PALETTES = ["ACGTRYKMBVDH", "TGCAYRMKVBHD", "RAYCKGMTBDVH", "GATCKMRYVBHD", "HDVBMKYRTGCA",
                "CGATMKRYDHBV", "YRTAGCHDKMVB", "KMACGTBVRYDH"]
# unambiguous alphabet (own code path for complement)
UNAMB = "ACGGTCATTG"
# letters written by Feature assignment: no letter is the complement of another one
SET_LETTERS = "ACRKBDWS"
SET_LETTERS_UNAMB = "ACCACAAC"  # target sequence uses the 4-letter alphabet
COMP = {"A": "T", "T": "A", "C": "G", "G": "C", "R": "Y", "Y": "R", "M": "K", "K": "M", "B": "V", "V": "B",
        "D": "H", "H": "D", "W": "W", "S": "S", "N": "N"}


def pal(seed):
    return {
        "defects": BASE_DEFECTS + [EXTRA_DEFECTS[seed % len(EXTRA_DEFECTS)]],
        "starts": [1, 2, THIRD_START[seed % len(THIRD_START)]],
        "letters": SEQ_PALETTES[seed % len(SEQ_PALETTES)],
    }


def bounds(tier):
    q = tier == "quick"
    return {
        "aseq1_max_len": 6 if q else 8,
        "aseq2_max_len": 4 if q else 6,
        "aseq2f_max_len": 3 if q else 5,
        "aseq3_max_len": 2 if q else 3,
        "aseq3f_max_len": 1 if q else 2,
        "annot1_window": [-3, 4] if q else [-4, 5],
        "annot2_window": [-2, 3] if q else [-3, 3],
        "findex_max_len": 6 if q else 7,
        "findex_max_locs": 3,
        "findex_3loc_max_len": 5 if q else 7,
        "revcomp1_max_len": 5 if q else 7,
        "revcomp2_max_len": 3 if q else 4,
        "sequence_starts": "1, 2 and one of %r (seed)" % THIRD_START,
        "defect_palette": "NONE, MISS_LEFT, BEYOND_RIGHT and one of 8 listed others (seed); revcomp: all 6 "
                          "single flags + 3 combinations",
        "overhang": "2 positions on either side (aseq3/aseq3f: 1)",
        "dimension_families": {"dim_types": "7 flavours, n=%d, starts 1 and 5" % (4 if q else 5),
                               "dim_ints": "5 numpy integer types, n=3, starts 1 and 5",
                               "dim_reuse": "n=4, starts 1 and 5", "dim_alias": "n=4, 1..3 locations",
                               "dim_empty": "n=0..3, no feature / no base",
                               "dim_many": "starts 8 and 98 (n=5); %s features; 9..12 locations (n=12)"
                                           % ("10, 101" if q else "9, 10, 11, 99, 100, 101"),
                               "dim_huge": "7 locations x 7 x 7 bounds around +-sys.maxsize, counted only"},
    }


# ---------------------------------------------------------------------------
# reference model (plain python, per base)
# ---------------------------------------------------------------------------
def m_slice_loc(loc, A, B):
    """loc = (first, last, strand, defect);  keep the positions p with A <= p < B
    (None = unbounded).  Returns the clipped location or None."""
    f, l, s, d = loc
    kept = [p for p in range(f, l + 1) if (A is None or p >= A) and (B is None or p < B)]
    if not kept:
        return None
    removed_left = [p for p in range(f, l + 1) if p < kept[0]]
    removed_right = [p for p in range(f, l + 1) if p > kept[-1]]
    if removed_left:
        d |= ML
    if removed_right:
        d |= MR
    return (kept[0], kept[-1], s, d)


def qual_of(key):
    q = {"gene": key}
    if key == "b":
        q["pseudo"] = None
    return q


def canon_feature(key, locs):
    return (key, frozenset(locs), tuple(sorted(qual_of(key).items(), key=lambda kv: kv[0])))


def m_slice_feats(feats, A, B):
    out = set()
    for key, locs in feats:
        kept = [m_slice_loc(tuple(l), A, B) for l in locs]
        kept = [k for k in kept if k is not None]
        if kept:
            out.add(canon_feature(key, kept))
    return frozenset(out)


def m_canon(feats):
    return frozenset(canon_feature(k, [tuple(l) for l in locs]) for k, locs in feats)


def m_revcomp_str(s):
    return "".join(COMP[c] for c in reversed(s))


def m_swap_defect(d):
    out = d & ~(ML | MR | BIT["BEYOND_LEFT"] | BIT["BEYOND_RIGHT"])
    if d & ML:
        out |= MR
    if d & MR:
        out |= ML
    if d & BIT["BEYOND_LEFT"]:
        out |= BIT["BEYOND_RIGHT"]
    if d & BIT["BEYOND_RIGHT"]:
        out |= BIT["BEYOND_LEFT"]
    return out


def m_revcomp(seq, start, feats, rstart):
    """Per base: the base at position p (index p-start) ends up at index n-1-(p-start),
    i.e. position rstart + n-1-(p-start)."""
    n = len(seq)

    def mp(p):
        return rstart + (n - 1) - (p - start)

    out = []
    for key, locs in feats:
        nl = []
        for f, l, s, d in locs:
            ps = [mp(p) for p in range(f, l + 1)]
            nl.append((min(ps), max(ps), 1 - s, m_swap_defect(d)))
        out.append((key, nl))
    return m_revcomp_str(seq), rstart, out


def disjoint(locs):
    seen = set()
    for f, l, _s, _d in locs:
        for p in range(f, l + 1):
            if p in seen:
                return False
            seen.add(p)
    return True


def m_feature_get(seq, start, locs):
    """Returns (klass, set of acceptable strings)."""
    def sub(loc):
        f, l, s, _d = loc
        t = "".join(seq[p - start] for p in range(f, l + 1))
        return m_revcomp_str(t) if s == 1 else t

    strands = {l[2] for l in locs}
    if len(strands) > 1:
        asc = sorted(locs, key=lambda l: (l[0], l[1]))
        return "either_mixed", {"".join(sub(l) for l in asc), "".join(sub(l) for l in reversed(asc))}
    if not disjoint(locs):
        return "either_overlap", {"".join(sub(l) for l in perm) for perm in itertools.permutations(locs)}
    order = sorted(locs, key=lambda l: l[0], reverse=(1 in strands))
    return "accept", {"".join(sub(l) for l in order)}


def m_feature_set(seq, start, locs, value):
    """Single strand, disjoint locations: the value is the feature's sequence in biological
    order; returns the new full sequence string."""
    strand = locs[0][2]
    positions = sorted(p for f, l, _s, _d in locs for p in range(f, l + 1))
    if strand == 1:
        positions.reverse()
    new = list(seq)
    for p, c in zip(positions, value):
        new[p - start] = COMP[c] if strand == 1 else c
    return "".join(new)


# ---------------------------------------------------------------------------
# implementation side: construction and observation through the public API only
# ---------------------------------------------------------------------------
_C = {}


def _bt():
    if not _C:
        import biotite.sequence as bs

        _C["bs"] = bs
        _C["L"] = bs.Location
        _C["FWD"] = bs.Location.Strand.FORWARD
        _C["REV"] = bs.Location.Strand.REVERSE
        _C["D"] = {name: bs.Location.Defect[name] for name in DEF_NAMES}
        _C["NONE"] = bs.Location.Defect.NONE
        _C["dmask"] = {}
        _C["dobj"] = {}
    return _C


def to_defect(mask):
    c = _bt()
    d = c["dobj"].get(mask)
    if d is None:
        d = c["NONE"]
        for name in DEF_NAMES:
            if mask & BIT[name]:
                d = d | c["D"][name]
        c["dobj"][mask] = d
    return d


def from_defect(d):
    c = _bt()
    m = c["dmask"].get(d)
    if m is None:
        m = 0
        for name in DEF_NAMES:
            if d & c["D"][name]:
                m |= BIT[name]
        c["dmask"][d] = m
    return m


_INT_LOC = [False]  # also build Location positions in the integer flavour under test


def mk_loc(loc):
    c = _bt()
    f, l, s, d = loc
    if _INT_LOC[0]:
        f, l = _cv(f), _cv(l)
    return c["L"](f, l, c["REV"] if s else c["FWD"], to_defect(d))


def mk_feature(key, locs):
    return _bt()["bs"].Feature(key, [mk_loc(l) for l in locs], qual_of(key))


def mk_annot(feats):
    return _bt()["bs"].Annotation([mk_feature(k, locs) for k, locs in feats])


# Dimension-audit hooks: the families at the end of this file re-run the checks above with another
# flavour of sequence object / of integer arguments.  None = plain NucleotideSequence / Python int.
_FLAV = [None]
_INT = [None]
GEN_BASE = 0x100  # symbols of the GeneralSequence alphabets: chr(GEN_BASE + code)
SEQ_FLAVOURS = ["neg_stride_view", "strided_view", "ambiguous_forced", "protein", "general256", "general257",
                "general300"]
INT_FLAVOURS = ["int64", "int32", "int8", "uint8", "uint64"]


def _gen_alphabet(size):
    c = _bt()
    key = "alph%d" % size
    if key not in c:
        c[key] = c["bs"].Alphabet([chr(GEN_BASE + i) for i in range(size)])
    return c[key]


def mk_seq(s):
    bs = _bt()["bs"]
    fl = _FLAV[0]
    if fl is None:
        return bs.NucleotideSequence(s)
    if fl == "neg_stride_view":  # code array is a negative-stride view of another sequence's code
        return bs.NucleotideSequence(s[::-1]).reverse(copy=False)
    if fl == "strided_view":  # every second symbol of a longer sequence: non-contiguous code array
        if not s:
            return bs.NucleotideSequence(s)
        return bs.NucleotideSequence("".join(ch + s[0] for ch in s))[::2]
    if fl == "ambiguous_forced":
        return bs.NucleotideSequence(s, ambiguous=True)
    if fl == "protein":
        return bs.ProteinSequence(s)
    if fl.startswith("general"):
        return bs.GeneralSequence(_gen_alphabet(int(fl[7:])), list(s))
    raise ValueError(fl)


def sstr(seqobj):
    """The symbols of a sequence object as one string (every alphabet used here has 1-character symbols)."""
    if _FLAV[0] is None:
        return str(seqobj)
    return "".join(str(c) for c in seqobj.symbols)


def _cv(v):
    """Integer argument in the flavour under test."""
    if v is None or _INT[0] is None:
        return v
    import numpy as np

    return getattr(np, _INT[0])(v)


_DERIVE = [None]  # (parent seq, parent start, parent feats, op1): mk_x hands out op1(parent) (second audit, E)


class _DerivedMismatch(Exception):
    pass


def apply_op1(x, op):
    if op[0] == "slice":
        return x[op[1]:op[2]]
    if op[0] == "rc":
        return x.reverse_complement() if op[1] is None else x.reverse_complement(sequence_start=op[1])
    if op[0] == "copy":
        return x.copy()
    raise ValueError(op)


def mk_x(seq, start, feats):
    if _DERIVE[0] is not None:
        pseq, pstart, pfeats, op = _DERIVE[0]
        y = apply_op1(_bt()["bs"].AnnotatedSequence(mk_annot(pfeats), mk_seq(pseq), _cv(pstart)), op)
        if obs_x(y) != (seq, start, m_canon(feats)):
            raise _DerivedMismatch()
        return y
    return _bt()["bs"].AnnotatedSequence(mk_annot(feats), mk_seq(seq), _cv(start))


def obs_loc(l):
    c = _bt()
    st = l.strand
    if st is c["FWD"]:
        s = 0
    elif st is c["REV"]:
        s = 1
    else:
        s = repr(st)
    return (l.first, l.last, s, from_defect(l.defect))


def obs_feature(f):
    return (f.key, frozenset(obs_loc(l) for l in f.locs), tuple(sorted(f.qual.items(), key=lambda kv: kv[0])))


def obs_annot(a):
    """Canonical content of an Annotation; None when its views disagree with each other."""
    feats = [obs_feature(f) for f in a]
    s = frozenset(feats)
    if len(a) != len(feats) or len(s) != len(feats):
        return None
    if frozenset(obs_feature(f) for f in a.get_features()) != s:
        return None
    return s


def show(canon):
    """JSON-able, ordered rendering of a canonical annotation."""
    if canon is None:
        return None
    return sorted([k, sorted(list(l) for l in locs)] for k, locs, _q in canon)


# ---------------------------------------------------------------------------
# difference classification (failure mode part of the signature)
# ---------------------------------------------------------------------------
def diff_mode(E, O):
    """Failure mode of an observed annotation O against the expected E (both canonical, E != O)."""
    if O is None:
        return "annotation_views_inconsistent"
    ek = sorted(repr((f[0], f[2])) for f in E)
    ok = sorted(repr((f[0], f[2])) for f in O)
    if ek != ok:
        if set(ok) < set(ek) or (set(ok) == set(ek) and len(ok) < len(ek)):
            return "feature_lost"
        if set(ek) < set(ok) or (set(ok) == set(ek) and len(ok) > len(ek)):
            return "feature_extra"
        return "feature_key_or_qual_changed"
    # same features by key/qualifiers: compare the locations, pooled per key
    pe, po = {}, {}
    for f in E:
        pe.setdefault(repr((f[0], f[2])), set()).update(f[1])
    for f in O:
        po.setdefault(repr((f[0], f[2])), set()).update(f[1])
    for k in sorted(pe):
        if pe[k] == po[k]:
            continue
        missing = sorted(pe[k] - po[k])
        extra = sorted(po[k] - pe[k])
        if not missing:
            return "location_extra"
        e = missing[0]
        cand = [o for o in extra if o[2] == e[2]]
        for o in cand:
            if o[:2] == e[:2]:
                add, rem = o[3] & ~e[3], e[3] & ~o[3]
                parts = ["spurious_" + n for n in DEF_NAMES if add & BIT[n]]
                parts += ["missing_" + n for n in DEF_NAMES if rem & BIT[n]]
                return "defect_" + "+".join(parts)
        for o in cand:
            if o[0] == e[0]:
                return "location_truncated_right" if o[1] < e[1] else "location_extended_right"
        for o in cand:
            if o[1] == e[1]:
                return "location_truncated_left" if o[0] > e[0] else "location_extended_left"
        # the cut location may coincide with (and be merged into) another expected location
        for o in sorted(po[k]):
            if o[2] == e[2] and o[0] == e[0] and o[1] < e[1]:
                return "location_truncated_right"
            if o[2] == e[2] and o[1] == e[1] and o[0] > e[0]:
                return "location_truncated_left"
        for o in extra:
            if o[:2] == e[:2]:
                return "strand"
        for o in cand:
            if o[0] <= e[1] and e[0] <= o[1]:
                return "location_moved"
        return "location_lost"
    return "feature_grouping"


# ---------------------------------------------------------------------------
# slicing an AnnotatedSequence
# ---------------------------------------------------------------------------
def slice_form(a, b):
    return "[%s:%s]" % ("a" if a is not None else "", "b" if b is not None else "")


def check_aseq_slice(ctx, seq, start, feats, sl, x=None, xcanon=None):
    """One slice of one annotated sequence.  Returns True when a violation was reported."""
    a, b = sl
    n = len(seq)
    end = start + n
    if x is None:
        x = mk_x(seq, start, feats)
    form = slice_form(a, b)

    def case():
        return {"kind": "aseq_slice", "seq": seq, "start": start, "feats": feats, "sl": [a, b]}

    # ---- refuse: documented IndexError for a start below the sequence start
    if a is not None and a < start:
        ctx.ev(1, 1)
        ctx.count("refused")
        try:
            y = x[_cv(a):_cv(b)]
        except Exception as e:  # noqa: BLE001  (the documentation names no class)
            ctx.outcome(("refuse", form, type(e).__name__))
            return False
        ctx.violation("AnnotatedSequence.__getitem__|no_error|slice%s+start_below_sequence_start" % form,
                      "slice start below sequence_start was accepted", case(), "an exception",
                      [sstr(y.sequence), y.sequence_start])
        return True

    A0 = a if a is not None else start
    B0 = b if b is not None else end
    empty = A0 >= B0
    exp_seq = seq[A0 - start:B0 - start]
    exp_start = A0
    As = [a] if a is not None else [None, start]
    Bs = [b] if b is not None else [None, end]
    variants = []
    for A in As:
        for B in Bs:
            v = m_slice_feats(feats, A, B)
            if v not in variants:
                variants.append(v)
    primary = variants[0]
    # input class: an omitted stop + a kept location reaching a position >= len(sequence)
    cls = "slice" + form
    if empty:
        cls += "+empty"
    elif b is None:
        reach = any(l[1] >= n and (a is None or l[1] >= a) for _k, locs in feats for l in locs)
        cls += "+loc_last>=len(seq)" if reach else "+loc_last<len(seq)"
    orig = xcanon if xcanon is not None else m_canon(feats)
    nontriv = bool(primary) and (primary != orig or a is None or b is None)
    ctx.ev(1, 1 if nontriv else 0)
    if empty or len(variants) > 1:
        ctx.count("unspecified")
    else:
        ctx.count("accepted")
    try:
        y = x[_cv(a):_cv(b)]
    except Exception as e:  # noqa: BLE001
        if empty:
            ctx.outcome(("empty_exc", type(e).__name__))
            ctx.count("unspecified_empty_slice_raised")
            return False
        ctx.violation("AnnotatedSequence.__getitem__|raised_%s|%s" % (type(e).__name__, cls),
                      "legal slice raised %s: %s" % (type(e).__name__, str(e)[:100]), case(),
                      {"annotation": show(primary), "sequence": exp_seq, "sequence_start": exp_start},
                      type(e).__name__)
        return True
    got_seq = sstr(y.sequence)
    got_annot = obs_annot(y.annotation)
    ctx.outcome((got_seq, y.sequence_start, got_annot))
    bad = False
    if type(y.sequence) is not type(x.sequence) or got_seq != exp_seq:
        ctx.violation("AnnotatedSequence.__getitem__|subsequence|%s" % cls,
                      "slice is paired with the wrong subsequence", case(), exp_seq, got_seq)
        bad = True
    if y.sequence_start != exp_start:
        ctx.violation("AnnotatedSequence.__getitem__|sequence_start|%s" % cls,
                      "slice carries the wrong sequence_start", case(), exp_start, y.sequence_start)
        bad = True
    if got_annot not in variants:
        ctx.violation("AnnotatedSequence.__getitem__|%s|%s" % (diff_mode(primary, got_annot), cls),
                      "sub-annotation of the slice disagrees with the per-base model", case(),
                      show(primary), show(got_annot))
        bad = True
    return bad


def aseq_slices(n, start):
    end = start + n
    out = [(a, b) for a in range(start, end + 1) for b in range(a, end + 1)]
    out += [(a, None) for a in range(start, end + 1)]
    out += [(None, b) for b in range(start, end + 1)]
    out += [(None, None)]
    for a in (start - 1, start - 2, -start):
        for b in (None, end, start):
            if (a, b) not in out:
                out.append((a, b))
    return out


def check_unchanged(ctx, x, seq, start, feats, what, case):
    got = (sstr(x.sequence), x.sequence_start, obs_annot(x.annotation))
    if got != (seq, start, m_canon(feats)):
        ctx.violation("%s|operand_changed|any" % what, "a read-only operation changed its operand", case,
                      [seq, start, show(m_canon(feats))], [got[0], got[1], show(got[2])])
        return True
    return False


def run_aseq_one(ctx, seq, start, feats, slices):
    ctx.journal(json.dumps(["aseq", seq, start, feats]))
    x = mk_x(seq, start, feats)
    xc = m_canon(feats)
    for sl in slices:
        check_aseq_slice(ctx, seq, start, feats, sl, x, xc)
    check_unchanged(ctx, x, seq, start, feats, "AnnotatedSequence.__getitem__",
                    {"kind": "aseq_all_slices", "seq": seq, "start": start, "feats": feats})


# ---------------------------------------------------------------------------
# slicing a bare Annotation
# ---------------------------------------------------------------------------
def check_annot_slice(ctx, feats, sl, an=None, canon=None):
    a, b = sl
    if an is None:
        an = mk_annot(feats)
    form = slice_form(a, b)
    empty = a is not None and b is not None and a >= b
    exp = m_slice_feats(feats, a, b)
    cls = "slice" + form + ("+empty" if empty else "")
    if not empty:
        neg = any(v is not None and v < 0 for v in (a, b))
        cls += "+negative_bound" if neg else ""
    orig = canon if canon is not None else m_canon(feats)
    ctx.ev(1, 1 if (exp and (exp != orig or a is None or b is None)) else 0)
    ctx.count("unspecified" if empty else "accepted")

    def case():
        return {"kind": "annot_slice", "feats": feats, "sl": [a, b]}

    try:
        y = an[_cv(a):_cv(b)]
    except Exception as e:  # noqa: BLE001
        if empty:
            ctx.outcome(("empty_exc", type(e).__name__))
            ctx.count("unspecified_empty_slice_raised")
            return False
        ctx.violation("Annotation.__getitem__|raised_%s|%s" % (type(e).__name__, cls),
                      "legal slice raised %s: %s" % (type(e).__name__, str(e)[:100]), case(), show(exp),
                      type(e).__name__)
        return True
    got = obs_annot(y)
    ctx.outcome(got)
    if got != exp:
        ctx.violation("Annotation.__getitem__|%s|%s" % (diff_mode(exp, got), cls),
                      "sub-annotation disagrees with the per-base model", case(), show(exp), show(got))
        return True
    return False


def annot_slices(lo, hi):
    vals = [None] + list(range(lo - 1, hi + 3))
    return [(a, b) for a in vals for b in vals]


def run_annot_one(ctx, feats, slices):
    an = mk_annot(feats)
    canon = m_canon(feats)
    for sl in slices:
        check_annot_slice(ctx, feats, sl, an, canon)
    if obs_annot(an) != canon:
        ctx.violation("Annotation.__getitem__|operand_changed|any", "slicing changed the annotation",
                      {"kind": "annot_all_slices", "feats": feats}, show(canon), show(obs_annot(an)))


# ---------------------------------------------------------------------------
# feature / integer index
# ---------------------------------------------------------------------------
def floc_class(locs):
    strands = {l[2] for l in locs}
    s = "mixed" if len(strands) > 1 else ("reverse" if 1 in strands else "forward")
    return "%s_%s" % (s, "single_loc" if len(locs) == 1 else "multi_loc")


def check_findex(ctx, seq, start, locs, mode):
    """mode: 'get' or 'set'."""
    feats = [["a", locs]]
    tl = [tuple(l) for l in locs]
    x = mk_x(seq, start, feats)
    f = mk_feature("a", locs)
    cls = floc_class(tl)
    case = {"kind": "findex", "seq": seq, "start": start, "locs": locs, "mode": mode}
    klass, accept = m_feature_get(seq, start, tl)
    nontriv = 1 if (len(locs) > 1 or tl[0][2] == 1) else 0
    if mode == "get":
        ctx.ev(1, nontriv)
        ctx.count("accepted" if klass == "accept" else "unspecified")
        try:
            r = x[f]
        except Exception as e:  # noqa: BLE001
            if klass == "either_mixed":
                ctx.outcome(("mixed_exc", type(e).__name__))
                return check_unchanged(ctx, x, seq, start, feats, "AnnotatedSequence.__getitem__(Feature)", case)
            ctx.violation("AnnotatedSequence.__getitem__(Feature)|raised_%s|%s" % (type(e).__name__, cls),
                          "feature index raised", case, sorted(accept), type(e).__name__)
            return True
        got = sstr(r)
        ctx.outcome(got)
        if type(r) is not type(x.sequence) or got not in accept:
            if klass != "accept":
                cls += "+" + klass
            ctx.violation("AnnotatedSequence.__getitem__(Feature)|wrong_sequence|%s" % cls,
                          "feature index does not return the location subsequences in biological order",
                          case, sorted(accept), got)
            return True
        return check_unchanged(ctx, x, seq, start, feats, "AnnotatedSequence.__getitem__(Feature)", case)
    # ---- set (only where the statement defines the result)
    if klass != "accept":
        return False
    ctx.ev(1, nontriv)
    ctx.count("accepted")
    m = sum(l[1] - l[0] + 1 for l in tl)
    value = set_value(seq, m)
    exp = m_feature_set(seq, start, tl, value)
    try:
        x[f] = mk_seq(value)
    except Exception as e:  # noqa: BLE001
        ctx.violation("AnnotatedSequence.__setitem__(Feature)|raised_%s|%s" % (type(e).__name__, cls),
                      "feature assignment raised", case, exp, type(e).__name__)
        return True
    got = sstr(x.sequence)
    ctx.outcome(("set", got))
    if got != exp:
        ctx.violation("AnnotatedSequence.__setitem__(Feature)|wrong_bases_written|%s" % cls,
                      "assigning through a feature index does not write the feature's bases "
                      "(read-back through the same index differs from the value)", case,
                      {"sequence": exp, "readback": value}, {"sequence": got, "readback": _try_str(x, f)})
        return True
    back = _try_str(x, f)
    if back != value:
        ctx.violation("AnnotatedSequence.__setitem__(Feature)|readback_differs|%s" % cls,
                      "x[f] = s; x[f] != s", case, value, back)
        return True
    if x.sequence_start != start or obs_annot(x.annotation) != m_canon(feats):
        ctx.violation("AnnotatedSequence.__setitem__(Feature)|annotation_or_start_changed|%s" % cls,
                      "feature assignment changed annotation or sequence_start", case, [start, show(m_canon(feats))],
                      [x.sequence_start, show(obs_annot(x.annotation))])
        return True
    return False


def _value_letters(seq):
    fl = _FLAV[0]
    if fl == "protein":
        return "ACDEFGHIKLMNPQRS"
    if fl is not None and fl.startswith("general"):
        size = int(fl[7:])
        return "".join(chr(GEN_BASE + c) for c in range(size - 1, size - 17, -1))
    if fl != "ambiguous_forced" and set(seq) <= set("ACGT"):
        return SET_LETTERS_UNAMB * 3
    return SET_LETTERS * 3


def set_value(seq, m):
    """The sequence written by assignments: letters of the alphabet the target has."""
    return _value_letters(seq)[:m]


def other_symbol(seq, *avoid):
    """A symbol of the target's alphabet different from the given ones."""
    extra = "GT" if (_FLAV[0] is None or not (_FLAV[0] == "protein" or _FLAV[0].startswith("general"))) else ""
    for c in _value_letters(seq) + extra:
        if c not in avoid:
            return c
    raise ValueError(avoid)


def _try_str(x, f):
    try:
        return sstr(x[f])
    except Exception as e:  # noqa: BLE001
        return "<%s>" % type(e).__name__


def check_int_index(ctx, seq, start, p):
    x = mk_x(seq, start, [["a", [[start, start, 0, 0]]]])
    case = {"kind": "int_index", "seq": seq, "start": start, "p": p}
    ctx.ev(1, 1 if start != 1 else 0)
    ctx.count("accepted")
    try:
        r = x[_cv(p)]
    except Exception as e:  # noqa: BLE001
        ctx.violation("AnnotatedSequence.__getitem__(int)|raised_%s|in_range" % type(e).__name__,
                      "integer index inside the sequence raised", case, seq[p - start], type(e).__name__)
        return True
    ctx.outcome(("int", r))
    if r != seq[p - start]:
        ctx.violation("AnnotatedSequence.__getitem__(int)|wrong_symbol|in_range",
                      "integer index is not sequence-start corrected", case, seq[p - start], r)
        return True
    new = other_symbol(seq, seq[p - start])
    exp = seq[:p - start] + new + seq[p - start + 1:]
    try:
        x[_cv(p)] = new
    except Exception as e:  # noqa: BLE001
        ctx.violation("AnnotatedSequence.__setitem__(int)|raised_%s|in_range" % type(e).__name__,
                      "integer assignment inside the sequence raised", case, exp, type(e).__name__)
        return True
    if sstr(x.sequence) != exp:
        ctx.violation("AnnotatedSequence.__setitem__(int)|wrong_base_written|in_range",
                      "integer assignment wrote the wrong base", case, exp, sstr(x.sequence))
        return True
    return False


def check_slice_set(ctx, seq, start, sl):
    a, b = sl
    n = len(seq)
    end = start + n
    A0 = a if a is not None else start
    B0 = b if b is not None else end
    x = mk_x(seq, start, [["a", [[start, start, 0, 0]]]])
    case = {"kind": "slice_set", "seq": seq, "start": start, "sl": [a, b]}
    value = set_value(seq, B0 - A0)
    exp = seq[:A0 - start] + value + seq[B0 - start:]
    ctx.ev(1, 1 if (start != 1 or a is None or b is None) else 0)
    ctx.count("accepted")
    try:
        x[_cv(a):_cv(b)] = mk_seq(value)
    except Exception as e:  # noqa: BLE001
        ctx.violation("AnnotatedSequence.__setitem__(slice)|raised_%s|slice%s" % (type(e).__name__, slice_form(a, b)),
                      "slice assignment inside the sequence raised", case, exp, type(e).__name__)
        return True
    ctx.outcome(("sset", sstr(x.sequence)))
    if sstr(x.sequence) != exp:
        ctx.violation("AnnotatedSequence.__setitem__(slice)|wrong_bases_written|slice%s" % slice_form(a, b),
                      "slice assignment wrote the wrong bases", case, exp, sstr(x.sequence))
        return True
    return False


# ---------------------------------------------------------------------------
# reverse complement, copy
# ---------------------------------------------------------------------------
def obs_x(x):
    s = x.sequence
    return (sstr(s) if hasattr(s, "code") else repr(type(s)), x.sequence_start, obs_annot(x.annotation))


def showx(o):
    return [o[0], o[1], show(o[2])]


def check_revcomp(ctx, seq, start, feats, rstart):
    """rstart None = default argument."""
    case = {"kind": "revcomp", "seq": seq, "start": start, "feats": feats, "rstart": rstart}
    x = mk_x(seq, start, feats)
    orig = (seq, start, m_canon(feats))
    has_def = any(l[3] for _k, locs in feats for l in locs)
    ctx.ev(1, 1 if (has_def or start != 1) else 0)
    ctx.count("accepted")
    cls = "start1" if start == 1 else "start_gt1"
    cls += "+default_arg" if rstart is None else "+explicit_start"
    try:
        y = x.reverse_complement() if rstart is None else x.reverse_complement(sequence_start=rstart)
        # second application: give the original start back (documented: "The information on the
        # sequence start is lost"); with start 1 the default argument must do
        z = y.reverse_complement() if start == 1 and rstart is None else y.reverse_complement(sequence_start=start)
    except Exception as e:  # noqa: BLE001
        ctx.violation("AnnotatedSequence.reverse_complement|raised_%s|%s" % (type(e).__name__, cls),
                      "reverse_complement raised", case, "success", type(e).__name__)
        return True
    es, est, ef = m_revcomp(seq, start, [(k, [tuple(l) for l in locs]) for k, locs in feats],
                            1 if rstart is None else rstart)
    exp_y = (es, est, m_canon(ef))
    oy, oz = obs_x(y), obs_x(z)
    ctx.outcome(oy)
    bad = False
    if oz != orig:
        mode = "sequence" if oz[0] != orig[0] else ("sequence_start" if oz[1] != orig[1] else diff_mode(orig[2], oz[2]))
        ctx.violation("AnnotatedSequence.reverse_complement|twice_not_identity:%s|%s" % (mode, cls),
                      "reverse-complementing twice does not restore the original", case, showx(orig), showx(oz))
        bad = True
    elif not (z == x) or (z != x):
        ctx.violation("AnnotatedSequence.__eq__|restored_object_unequal|%s" % cls,
                      "x.rc().rc() has the same content as x but == says otherwise", case, True, False)
        bad = True
    if oy != exp_y:
        mode = "sequence" if oy[0] != exp_y[0] else ("sequence_start" if oy[1] != exp_y[1] else diff_mode(exp_y[2], oy[2]))
        ctx.violation("AnnotatedSequence.reverse_complement|single:%s|%s" % (mode, cls),
                      "reverse complement disagrees with the per-base mirror model", case, showx(exp_y), showx(oy))
        bad = True
    if bad:
        return True
    # a feature's own sequence is invariant under reverse complement
    n = len(seq)
    for (key, locs), (_k2, rlocs) in zip(feats, ef):
        tl = [tuple(l) for l in locs]
        if any(l[0] < start or l[1] >= start + n for l in tl):
            continue
        k1, acc1 = m_feature_get(seq, start, tl)
        if k1 != "accept":
            continue
        try:
            r1 = sstr(x[mk_feature(key, locs)])
            r2 = sstr(y[mk_feature(key, rlocs)])
        except Exception as e:  # noqa: BLE001
            ctx.violation("AnnotatedSequence.reverse_complement|feature_index_raised_%s|%s" % (type(e).__name__, cls),
                          "feature index on the reverse complement raised", case, sorted(acc1), type(e).__name__)
            return True
        if r1 != r2 or r1 not in acc1:
            ctx.violation("AnnotatedSequence.reverse_complement|feature_sequence_not_invariant|%s" % cls,
                          "the feature's sequence differs between x and its reverse complement", case, sorted(acc1), [r1, r2])
            return True
    return check_unchanged(ctx, x, seq, start, feats, "AnnotatedSequence.reverse_complement", case)


def check_copy(ctx, seq, start, feats):
    case = {"kind": "copy", "seq": seq, "start": start, "feats": feats}
    bs = _bt()["bs"]
    x = mk_x(seq, start, feats)
    orig = (seq, start, m_canon(feats))
    ctx.ev(1, 1 if (start != 1 or any(l[3] for _k, locs in feats for l in locs)) else 0)
    ctx.count("accepted")
    try:
        c = x.copy()
    except Exception as e:  # noqa: BLE001
        ctx.violation("AnnotatedSequence.copy|raised_%s|any" % type(e).__name__, "copy() raised", case,
                      "a copy", type(e).__name__)
        return True
    if not isinstance(c, bs.AnnotatedSequence) or c is x:
        ctx.violation("AnnotatedSequence.copy|not_a_new_AnnotatedSequence|any", "copy() returned the wrong object",
                      case, "new AnnotatedSequence", repr(type(c)))
        return True
    if not isinstance(c.sequence, bs.Sequence):
        ctx.violation("AnnotatedSequence.copy|sequence_attribute_not_a_Sequence|any",
                      "the copy's .sequence is not a Sequence object (copy unusable and != original)", case,
                      "NucleotideSequence %s" % seq, type(c.sequence).__name__)
        return True
    oc = obs_x(c)
    ctx.outcome(("copy", oc))
    if oc != orig:
        mode = "sequence" if oc[0] != orig[0] else ("sequence_start" if oc[1] != orig[1] else diff_mode(orig[2], oc[2]))
        ctx.violation("AnnotatedSequence.copy|content_differs:%s|any" % mode, "copy differs from the original",
                      case, showx(orig), showx(oc))
        return True
    if not (c == x) or (c != x) or not (x == c):
        ctx.violation("AnnotatedSequence.copy|copy_not_equal|any", "copy() == original is False", case, True, False)
        return True
    # independence: change every component of the copy, re-observe the original
    new = other_symbol(seq, seq[0], seq[-1]) if seq else None
    if seq:
        c.sequence[0] = new
    c.annotation.add_feature(mk_feature("zz", [[start, start, 0, 0]]))
    for f in list(c.annotation):
        if f.key != "zz":
            c.annotation.del_feature(f)
    ox = obs_x(x)
    if ox != orig:
        mode = "sequence" if ox[0] != orig[0] else ("sequence_start" if ox[1] != orig[1] else "annotation")
        ctx.violation("AnnotatedSequence.copy|not_independent:%s|any" % mode,
                      "changing the copy changed the original", case, showx(orig), showx(ox))
        return True
    # and the other way round
    c2 = x.copy()
    if seq:
        x.sequence[len(seq) - 1] = new
    x.annotation.add_feature(mk_feature("zz", [[start, start, 0, 0]]))
    if obs_x(c2) != orig:
        ctx.violation("AnnotatedSequence.copy|not_independent:original_to_copy|any",
                      "changing the original changed the copy", case, showx(orig), showx(obs_x(c2)))
        return True
    return False


def check_annot_copy(ctx, feats):
    case = {"kind": "annot_copy", "feats": feats}
    an = mk_annot(feats)
    canon = m_canon(feats)
    ctx.ev(1, 1 if any(l[3] for _k, locs in feats for l in locs) else 0)
    ctx.count("accepted")
    try:
        c = an.copy()
    except Exception as e:  # noqa: BLE001
        ctx.violation("Annotation.copy|raised_%s|any" % type(e).__name__, "copy() raised", case, "a copy",
                      type(e).__name__)
        return True
    if c is an or obs_annot(c) != canon or not (c == an) or (c != an):
        ctx.violation("Annotation.copy|copy_not_equal|any", "copy differs from the original", case, show(canon),
                      show(obs_annot(c)))
        return True
    c.add_feature(mk_feature("zz", [[1, 1, 0, 0]]))
    for f in list(c):
        if f.key != "zz":
            del c[f]
    if obs_annot(an) != canon:
        ctx.violation("Annotation.copy|not_independent|any", "changing the copy changed the original", case,
                      show(canon), show(obs_annot(an)))
        return True
    return False


# ---------------------------------------------------------------------------
# containers: Annotation + / += / del / in / ==, Location / Feature value semantics
# ---------------------------------------------------------------------------
def check_container(ctx, fa, fb):
    """fa, fb: feature lists."""
    bs = _bt()["bs"]
    case = {"kind": "container", "fa": fa, "fb": fb}
    ca, cb = m_canon(fa), m_canon(fb)
    ctx.ev(1, 1 if (ca & cb and ca != cb) else 0)
    ctx.count("accepted")
    A, B = mk_annot(fa), mk_annot(fb)

    def v(sig, what, exp, got):
        ctx.violation("Annotation.%s|any" % sig, what, case, exp, got)
        return True

    try:
        s = A + B
        if obs_annot(s) is None or set(obs_annot(s)) != set(ca | cb):
            return v("__add__|wrong_union", "a + b does not hold the features of both", show(ca | cb), show(obs_annot(s)))
        if obs_annot(A) != ca or obs_annot(B) != cb:
            return v("__add__|operand_changed", "a + b changed an operand", show(ca), show(obs_annot(A)))
        if (A == B) != (ca == cb) or (A != B) != (ca != cb):
            return v("__eq__|wrong_answer", "== disagrees with feature-set equality", ca == cb, A == B)
        for k, locs in fb:
            f = mk_feature(k, locs)
            if (f in A) != (canon_feature(k, [tuple(l) for l in locs]) in ca):
                return v("__contains__|wrong_answer", "membership wrong", None, None)
        for k, locs in fb:
            f = mk_feature(k, locs)
            s1 = A + f
            if set(obs_annot(s1) or ()) != set(ca | {canon_feature(k, [tuple(l) for l in locs])}):
                return v("__add__(Feature)|wrong_union", "a + feature wrong", None, show(obs_annot(s1)))
        C = mk_annot(fa)
        C += B
        if set(obs_annot(C) or ()) != set(ca | cb):
            return v("__iadd__|wrong_union", "a += b wrong", show(ca | cb), show(obs_annot(C)))
        if obs_annot(B) != cb:
            return v("__iadd__|operand_changed", "a += b changed b", show(cb), show(obs_annot(B)))
        # delete every feature of b from the union, one by one
        cur = set(ca | cb)
        for k, locs in fb:
            f = mk_feature(k, locs)
            cf = canon_feature(k, [tuple(l) for l in locs])
            if cf in cur:
                del C[f]
                cur.discard(cf)
                if set(obs_annot(C) or ()) != cur:
                    return v("__delitem__|wrong_content", "del a[f] removed the wrong thing", show(frozenset(cur)),
                             show(obs_annot(C)))
            else:
                try:
                    del C[f]
                except KeyError:
                    pass
                else:
                    return v("__delitem__|absent_feature_accepted", "del of an absent feature did not raise KeyError",
                             "KeyError", "no error")
        try:
            A[0]
        except TypeError:
            pass
        else:
            return v("__getitem__|integer_accepted", "integer index documented as unsupported was accepted", "TypeError", "value")
        # a + b is a new annotation: emptying / extending it must not reach the operands
        for res, nm in ((A + B, "__add__"), (B + A, "__add__")) + (((A + mk_feature(*fb[0]), "__add__(Feature)"),) if fb else ()):
            if res is A or res is B:
                return v("%s|returns_operand" % nm, "a + b returned one of its operands", "new Annotation", "operand")
            res.add_feature(mk_feature("zz", [[7, 7, 0, 0]]))
            for f in list(res):
                if f.key != "zz":
                    res.del_feature(f)
            if obs_annot(A) != ca or obs_annot(B) != cb:
                return v("%s|result_aliases_operand" % nm, "changing the result of a + b changed an operand", show(ca),
                         show(obs_annot(A)))
    except Exception as e:  # noqa: BLE001
        return v("container_ops|raised_%s" % type(e).__name__, "legal container operation raised: %s" % str(e)[:80],
                 "success", type(e).__name__)
    ctx.outcome((ca, cb))
    return False


def check_values(ctx, la, lb):
    """Location / Feature equality, hashing, immutability for two location tuples."""
    bs = _bt()["bs"]
    case = {"kind": "values", "la": list(la), "lb": list(lb)}
    ctx.ev(1, 1 if la != lb else 0)
    ctx.count("accepted")
    A, A2, B = mk_loc(la), mk_loc(la), mk_loc(lb)

    def v(sig, what, exp=None, got=None):
        ctx.violation("%s|any" % sig, what, case, exp, got)
        return True

    if not (A == A2) or (A != A2) or hash(A) != hash(A2):
        return v("Location.__eq__/__hash__|equal_locations_differ", "equal locations unequal or hash differently")
    if (A == B) != (tuple(la) == tuple(lb)) or (A != B) != (tuple(la) != tuple(lb)):
        return v("Location.__eq__|wrong_answer", "location equality is not field equality", tuple(la) == tuple(lb), A == B)
    if len({A, A2, B}) != (1 if tuple(la) == tuple(lb) else 2):
        return v("Location.__hash__|set_size", "set of locations has the wrong size")
    for attr, val in (("first", 99), ("last", 99), ("strand", _bt()["REV"]), ("defect", to_defect(ML))):
        try:
            setattr(A, attr, val)
        except AttributeError:
            pass
        else:
            return v("Location.%s|mutable" % attr, "Location attribute could be assigned (documented immutable)")
    if obs_loc(A) != tuple(la):
        return v("Location|fields", "location fields differ from constructor arguments", list(la), list(obs_loc(A)))
    F1 = bs.Feature("a", [A, B], qual_of("a"))
    F2 = bs.Feature("a", [mk_loc(lb), mk_loc(la)], qual_of("a"))
    F3 = bs.Feature("b", [A, B], qual_of("a"))
    F4 = bs.Feature("a", [A, B], qual_of("b"))
    if not (F1 == F2) or (F1 != F2) or hash(F1) != hash(F2) or len({F1, F2}) != 1:
        return v("Feature.__eq__/__hash__|location_order_matters", "features with the same locations in another order differ")
    if F1 == F3 or F1 == F4 or not (F1 != F3) or len({F1, F3, F4}) != 3:
        return v("Feature.__eq__|key_or_qual_ignored", "features differing in key / qualifiers compare equal")
    if tuple(la) != tuple(lb):
        F5 = bs.Feature("a", [A], qual_of("a"))
        if F1 == F5 or len({F1, F5}) != 2:
            return v("Feature.__eq__|location_ignored", "features with different locations compare equal")
    for attr, val in (("key", "x"), ("locs", []), ("qual", {})):
        try:
            setattr(F1, attr, val)
        except AttributeError:
            pass
        else:
            return v("Feature.%s|mutable" % attr, "Feature attribute could be assigned (documented immutable)")
    q = F1.qual
    q["new"] = "x"
    try:
        ls = F1.locs
        ls = set(ls)
        ls.clear()
    except Exception:  # noqa: BLE001
        pass
    if obs_feature(F1) != canon_feature("a", [tuple(la), tuple(lb)]):
        return v("Feature|state_leaks", "changing the returned qual/locs changed the feature")
    # EITHER: Feature.copy()
    try:
        c = F1.copy()
    except Exception as e:  # noqa: BLE001
        ctx.count("unspecified_Feature.copy_raised_%s" % type(e).__name__)
    else:
        ctx.count("unspecified_Feature.copy_returned")
        if not (c == F1):
            return v("Feature.copy|copy_not_equal", "Feature.copy() returned an unequal feature")
    ctx.outcome((tuple(la), tuple(lb)))
    return False


# ---------------------------------------------------------------------------
# enumeration
# ---------------------------------------------------------------------------
def intervals(lo, hi):
    return [(f, l) for f in range(lo, hi + 1) for l in range(f, hi + 1)]


def locs_over(lo, hi, defects, inner=None):
    """All locations over [lo, hi]; fewest deviations first (inside `inner`, no defect, forward)."""
    out = [[f, l, s, d] for f, l in intervals(lo, hi) for s in (0, 1) for d in defects]
    if inner is not None:
        out.sort(key=lambda t: ((t[0] < inner[0]) + (t[1] > inner[1]), t[3] != 0, t[2]))
    return out


def pairs(full, plain):
    """Unordered pairs {L1, L2}, L1 from `full`, L2 from `plain` (a subset of `full`), each once."""
    plain_set = {tuple(l) for l in plain}
    for l1 in full:
        t1 = tuple(l1)
        for l2 in plain:
            t2 = tuple(l2)
            if t1 == t2:
                continue
            if t1 in plain_set and t2 < t1:
                continue
            yield [l1, l2]


def seq_for(letters, n):
    return letters[:n]


def shards(tier, seed):
    b = bounds(tier)
    p = pal(seed)
    out = []
    for start in p["starts"]:
        for n in range(1, b["aseq1_max_len"] + 1):
            out.append({"kind": "aseq1", "n": n, "start": start})
        for n in range(1, b["aseq2_max_len"] + 1):
            parts = 1 if n <= 2 else (4 if n <= 4 else (12 if n == 5 else (24 if n == 6 else 48)))
            for part in range(parts):
                out.append({"kind": "aseq2", "n": n, "start": start, "part": part, "parts": parts})
        for n in range(1, b["aseq2f_max_len"] + 1):
            parts = 1 if n <= 1 else (2 if n == 2 else (6 if n == 3 else (16 if n == 4 else 32)))
            for part in range(parts):
                out.append({"kind": "aseq2f", "n": n, "start": start, "part": part, "parts": parts})
        for n in range(1, b["aseq3_max_len"] + 1):
            parts = 1 if n <= 1 else (6 if n == 2 else 24)
            for part in range(parts):
                out.append({"kind": "aseq3", "n": n, "start": start, "part": part, "parts": parts})
        for n in range(1, b["aseq3f_max_len"] + 1):
            parts = 4 if n <= 1 else 24
            for part in range(parts):
                out.append({"kind": "aseq3f", "n": n, "start": start, "part": part, "parts": parts})
        for n in range(1, b["findex_max_len"] + 1):
            parts = 1 if n <= 4 else (2 if n == 5 else (4 if n == 6 else 12))
            for part in range(parts):
                out.append({"kind": "findex", "n": n, "start": start, "part": part, "parts": parts})
        for n in range(1, b["revcomp1_max_len"] + 1):
            out.append({"kind": "revcomp1", "n": n, "start": start})
        for n in range(1, b["revcomp2_max_len"] + 1):
            parts = 1 if n <= 2 else (4 if n == 3 else 12)
            for part in range(parts):
                out.append({"kind": "revcomp2", "n": n, "start": start, "part": part, "parts": parts})
    out.append({"kind": "annot1"})
    parts = 8 if tier == "quick" else 24
    for part in range(parts):
        out.append({"kind": "annot2", "part": part, "parts": parts})
    out.append({"kind": "container"})
    out.append({"kind": "values"})
    # dimension-audit families (notes/C13.md, "Dimension audit")
    for fl in SEQ_FLAVOURS:
        out.append({"kind": "dim_types", "flavour": fl})
    for it in INT_FLAVOURS:
        out.append({"kind": "dim_ints", "int": it})
    for start in (1, 5):
        out.append({"kind": "dim_reuse", "start": start})
    out.append({"kind": "dim_alias"})
    out.append({"kind": "dim_empty"})
    for what in ("width8", "width98", "features", "locations"):
        out.append({"kind": "dim_many", "what": what})
    out.append({"kind": "dim_huge"})
    # second dimension audit
    out.append({"kind": "dim_result"})
    out.append({"kind": "dim_values"})
    for start in (1, 5):
        out.append({"kind": "dim_derived", "start": start})
    # third dimension audit
    out.append({"kind": "dim_operands"})
    for hs in HASH_SEEDS:
        out.append({"kind": "dim_hashseed", "hashseed": hs})
    # cheap single-location shards first (they finish first and supply the minimal witnesses), then the
    # heavy products, widest first
    light = {"aseq1": 0, "findex": 1, "revcomp1": 2, "container": 3, "values": 3, "annot1": 3}
    heavy = {"aseq2": 0, "aseq2f": 1, "aseq3": 1, "aseq3f": 1, "annot2": 2, "revcomp2": 3}
    out.sort(key=lambda s: (0, s.get("n", 0), light[s["kind"]]) if s["kind"] in light and s.get("n", 0) <= 4
             else (1, heavy.get(s["kind"], 4), -s.get("n", 0)))
    return out


def run_shard(shard, ctx):
    p = pal(ctx.seed)
    b = bounds(ctx.tier)
    kind = shard["kind"]
    if kind in ("aseq3", "aseq3f"):
        # overhang 1: positions [start-1, start+n]
        n, start = shard["n"], shard["start"]
        seq = seq_for(p["letters"], n)
        slices = aseq_slices(n, start)
        lo, hi = start - 1, start + n
        plain = locs_over(lo, hi, [0])
        i = 0
        feats = None
        if kind == "aseq3":
            full = locs_over(lo, hi, p["defects"], (start, start + n - 1))
            for l1 in full:
                for l2, l3 in itertools.combinations(plain, 2):
                    if l1 in (l2, l3) or (l1[3] == 0 and not tuple(l1) < tuple(l2)):
                        continue  # unordered triple, each once
                    i += 1
                    if i % shard["parts"] != shard["part"]:
                        continue
                    feats = [["a", [l1, l2, l3]]]
                    run_aseq_one(ctx, seq, start, feats, slices)
        else:
            red = locs_over(lo, hi, [0, ML], (start, start + n - 1))
            for l1 in red:
                for l2 in red:
                    for l3 in red:
                        if not tuple(l1) < tuple(l3):
                            continue  # the two "a" features are an unordered pair
                        i += 1
                        if i % shard["parts"] != shard["part"]:
                            continue
                        feats = [["a", [l1]], ["b", [l2]], ["a", [l3]]]
                        run_aseq_one(ctx, seq, start, feats, slices)
        if feats is not None:
            ctx.sample({"kind": "aseq_slice", "seq": seq, "start": start, "feats": feats, "slices": len(slices)})
    elif kind in ("aseq1", "aseq2", "aseq2f"):
        n, start = shard["n"], shard["start"]
        seq = seq_for(p["letters"], n)
        slices = aseq_slices(n, start)
        lo, hi = start - 2, start + n + 1
        full = locs_over(lo, hi, p["defects"], (start, start + n - 1))
        if kind == "aseq1":
            for l in full:
                run_aseq_one(ctx, seq, start, [["a", [l]]], slices)
                if len(ctx.samples) < 1 and l[3] and l[0] > start:
                    ctx.sample({"kind": "aseq_slice", "seq": seq, "start": start, "feats": [["a", [l]]],
                                "slices": len(slices)})
        elif kind == "aseq2":
            plain = locs_over(lo, hi, [0])
            for i, pr in enumerate(pairs(full, plain)):
                if i % shard["parts"] != shard["part"]:
                    continue
                run_aseq_one(ctx, seq, start, [["a", pr]], slices)
            ctx.sample({"kind": "aseq_slice", "seq": seq, "start": start, "feats": [["a", pr]], "slices": len(slices)})
        else:
            red = locs_over(lo, hi, [0, ML])
            i = 0
            for l1 in red:
                for l2 in red:
                    i += 1
                    if i % shard["parts"] != shard["part"]:
                        continue
                    run_aseq_one(ctx, seq, start, [["a", [l1]], ["b", [l2]]], slices)
                    if tuple(l1) < tuple(l2):
                        # same key and qualifiers: the clipped features may coincide
                        run_aseq_one(ctx, seq, start, [["a", [l1]], ["a", [l2]]], slices)
            ctx.sample({"kind": "aseq_slice", "seq": seq, "start": start, "feats": [["a", [l1]], ["b", [l2]]],
                        "slices": len(slices)})
    elif kind == "annot1":
        lo, hi = b["annot1_window"]
        sl = annot_slices(lo, hi)
        for l in locs_over(lo, hi, p["defects"]):
            run_annot_one(ctx, [["a", [l]]], sl)
        ctx.sample({"kind": "annot_slice", "feats": [["a", [l]]], "slices": len(sl)})
    elif kind == "annot2":
        lo, hi = b["annot2_window"]
        sl = annot_slices(lo, hi)
        full = locs_over(lo, hi, p["defects"])
        plain = locs_over(lo, hi, [0])
        for i, pr in enumerate(pairs(full, plain)):
            if i % shard["parts"] != shard["part"]:
                continue
            run_annot_one(ctx, [["a", pr]], sl)
            if pr[0][3] == 0:
                run_annot_one(ctx, [["a", [pr[0]]], ["b", [pr[1]]]], sl)
                run_annot_one(ctx, [["a", [pr[0]]], ["a", [pr[1]]]], sl)
        ctx.sample({"kind": "annot_slice", "feats": [["a", pr]], "slices": len(sl)})
    elif kind == "findex":
        run_findex(shard, ctx, p, b)
    elif kind in ("revcomp1", "revcomp2"):
        run_revcomp(shard, ctx, p, b)
    elif kind == "dim_types":
        run_dim_types(shard, ctx, p)
    elif kind == "dim_ints":
        run_dim_ints(shard, ctx, p)
    elif kind == "dim_reuse":
        run_dim_reuse(shard, ctx, p)
    elif kind == "dim_alias":
        run_dim_alias(ctx, p)
    elif kind == "dim_empty":
        run_dim_empty(ctx, p)
    elif kind == "dim_many":
        run_dim_many(shard, ctx, p)
    elif kind == "dim_huge":
        run_dim_huge(ctx)
    elif kind == "dim_result":
        run_dim_result(ctx, p)
    elif kind == "dim_values":
        run_dim_values(ctx, p)
    elif kind == "dim_derived":
        run_dim_derived(shard, ctx, p)
    elif kind == "dim_operands":
        run_dim_operands(ctx, p)
    elif kind == "dim_hashseed":
        run_dim_hashseed(shard, ctx, p)
    elif kind == "container":
        run_container(ctx, p)
    elif kind == "values":
        locs = locs_over(-1, 2, [0, ML, BIT["BEYOND_RIGHT"], ML | BIT["UNK_LOC"]])
        for la in locs:
            for lb in locs:
                check_values(ctx, la, lb)
        ctx.sample({"kind": "values", "la": locs[1], "lb": locs[-1]})
    else:
        raise ValueError(shard)


def findex_seqs(p, n):
    return [seq_for(p["letters"], n), UNAMB[:n]]


def run_findex(shard, ctx, p, b):
    n, start = shard["n"], shard["start"]
    lo, hi = start, start + n - 1
    d_extra = p["defects"][-1]
    single = [[f, l, s, 0] for f, l in intervals(lo, hi) for s in (0, 1)]
    maxk = 3 if n <= b["findex_3loc_max_len"] else 2
    i = 0
    last = None
    for seq in findex_seqs(p, n):
        for k in range(1, maxk + 1):
            for combo in itertools.combinations(single, k):
                i += 1
                if i % shard["parts"] != shard["part"]:
                    continue
                variants = [[list(l) for l in combo]]
                # defect flags must not matter: same feature with a flagged first location
                v2 = [list(l) for l in combo]
                v2[0][3] = d_extra
                variants.append(v2)
                for locs in variants:
                    ctx.journal(json.dumps(["findex", seq, start, locs]))
                    check_findex(ctx, seq, start, locs, "get")
                    check_findex(ctx, seq, start, locs, "set")
                    last = locs
        if shard["part"] == 0:
            for pos in range(lo, hi + 1):
                check_int_index(ctx, seq, start, pos)
            for sl in aseq_slices(n, start):
                a, b_ = sl
                if a is not None and a < start:
                    continue
                check_slice_set(ctx, seq, start, sl)
    if last is not None:
        ctx.sample({"kind": "findex", "seq": seq, "start": start, "locs": last, "mode": "set"})


RC_DEFECTS = [0] + [BIT[nm] for nm in DEF_NAMES] + [ML | MR, ML | BIT["BEYOND_RIGHT"], MR | BIT["UNK_LOC"] | BIT["BETWEEN"]]


def run_revcomp(shard, ctx, p, b):
    n, start = shard["n"], shard["start"]
    lo, hi = start - 2, start + n + 1
    rstarts = [None, start + 3, 1 if start != 1 else 2]
    last = None
    for seq in findex_seqs(p, n):
        if shard["kind"] == "revcomp1":
            for l in locs_over(lo, hi, RC_DEFECTS):
                feats = [["a", [l]]]
                for r in rstarts:
                    check_revcomp(ctx, seq, start, feats, r)
                check_copy(ctx, seq, start, feats)
                check_annot_copy(ctx, feats)
                last = feats
        else:
            full = locs_over(lo, hi, [0, ML, BIT["BEYOND_RIGHT"]])
            plain = locs_over(lo, hi, [0])
            for i, pr in enumerate(pairs(full, plain)):
                if i % shard["parts"] != shard["part"]:
                    continue
                for feats in ([["a", pr]], [["a", [pr[0]]], ["b", [pr[1]]]]):
                    for r in rstarts[:2]:
                        check_revcomp(ctx, seq, start, feats, r)
                    check_copy(ctx, seq, start, feats)
                    check_annot_copy(ctx, feats)
                    last = feats
    if last is not None:
        ctx.sample({"kind": "revcomp", "seq": seq, "start": start, "feats": last, "rstart": start + 3})


def run_container(ctx, p):
    locs = locs_over(0, 2, [0, ML])
    feats1 = [["a", [l]] for l in locs] + [["b", [l]] for l in locs[:6]]
    feats1 = [["a", [locs[0], locs[5]]], ["a", [locs[5], locs[0], locs[7]]]] + feats1
    # annotations: empty, every single feature of the list, every pair of its first 8 features
    annots = [[]] + [[f] for f in feats1] + [[a, b] for a, b in itertools.combinations(feats1[:8], 2)]
    for fa in annots:
        for fb in annots:
            check_container(ctx, fa, fb)
    ctx.sample({"kind": "container", "fa": annots[-1], "fb": annots[3]})


# ---------------------------------------------------------------------------
# dimension-audit families (each re-uses the checks above along one more dimension)
# ---------------------------------------------------------------------------
class _Tag:
    """ctx proxy: adds the family's parameters to every reported case and its class to the signature."""

    def __init__(self, ctx, extra, cls):
        self._ctx, self._extra, self._cls = ctx, extra, cls

    def violation(self, sig, what, case, expected=None, observed=None):
        case = dict(case) if isinstance(case, dict) else {"case": case}
        case.update(self._extra)
        self._ctx.violation(sig + "+" + self._cls, what, case, expected, observed)

    def __getattr__(self, name):
        return getattr(self._ctx, name)


def flavour_seq(fl, p, n):
    if fl == "protein":
        return "MKVLWHYF"[:n]
    if fl.startswith("general"):
        size = int(fl[7:])
        codes = [254, 255, 256, 257, 299, 0, 1, 2] if size == 300 else [size - 2, size - 1, 0, 1, 255, 128, 2, 3]
        return "".join(chr(GEN_BASE + c) for c in codes[:n])
    if fl == "ambiguous_forced":
        return UNAMB[:n]
    return seq_for(p["letters"], n)


def run_dim_types(shard, ctx, p):
    """Dimensions 1 + 4: code dtype switch (alphabet size 256 / 257 / 300), other Sequence classes, sequences
    whose code array is a non-contiguous view."""
    fl = shard["flavour"]
    n = 4 if ctx.tier == "quick" else 5
    nucl = fl in ("neg_stride_view", "strided_view", "ambiguous_forced")
    t = _Tag(ctx, {"flavour": fl}, "seq:" + fl)
    _FLAV[0] = fl
    try:
        seq = flavour_seq(fl, p, n)
        for start in (1, 5):
            slices = aseq_slices(n, start)
            for l in locs_over(start - 1, start + n, [0, ML], (start, start + n - 1)):
                run_aseq_one(t, seq, start, [["a", [l]]], slices)
            single = [[f, l, st, 0] for f, l in intervals(start, start + n - 1) for st in ((0, 1) if nucl else (0,))]
            for k in (1, 2):
                for combo in itertools.combinations(single, k):
                    locs = [list(l) for l in combo]
                    check_findex(t, seq, start, locs, "get")
                    check_findex(t, seq, start, locs, "set")
            for pos in range(start, start + n):
                check_int_index(t, seq, start, pos)
            for sl in slices:
                if sl[0] is None or sl[0] >= start:
                    check_slice_set(t, seq, start, sl)
            for l in single:
                feats = [["a", [l]], ["b", [[start - 1, start, 1, ML]]]]
                check_copy(t, seq, start, feats)
                if nucl:
                    for r in (None, start + 3):
                        check_revcomp(t, seq, start, feats, r)
        ctx.sample({"kind": "findex", "seq": seq, "start": 5, "locs": locs, "mode": "set", "flavour": fl})
    finally:
        _FLAV[0] = None


def run_dim_ints(shard, ctx, p):
    """Dimension 4: numpy integer scalars as slice bounds, integer index, sequence_start and positions."""
    it = shard["int"]
    unsigned = it.startswith("u")
    n = 3
    t = _Tag(ctx, {"int": it}, "int:" + it)
    _INT[0] = it
    try:
        seq = seq_for(p["letters"], n)
        for start in (1, 5):
            slices = [sl for sl in aseq_slices(n, start) if not unsigned or all(v is None or v >= 0 for v in sl)]
            for with_loc in ((False, True) if not unsigned else (False,)):
                _INT_LOC[0] = with_loc
                t2 = _Tag(ctx, {"int": it, "int_loc": with_loc}, "int:" + it + ("+positions" if with_loc else ""))
                for l in locs_over(start - 1, start + n, [0, ML], (start, start + n - 1)):
                    run_aseq_one(t2, seq, start, [["a", [l]]], slices)
                    if not unsigned:
                        check_revcomp(t2, seq, start, [["a", [l]]], start + 3)
                        check_copy(t2, seq, start, [["a", [l]]])
                single = [[f, l, st, 0] for f, l in intervals(start, start + n - 1) for st in (0, 1)]
                if not unsigned:
                    for k in (1, 2):
                        for combo in itertools.combinations(single, k):
                            locs = [list(l) for l in combo]
                            check_findex(t2, seq, start, locs, "get")
                            check_findex(t2, seq, start, locs, "set")
            _INT_LOC[0] = False
            for pos in range(start, start + n):
                check_int_index(t, seq, start, pos)
            for sl in slices:
                if sl[0] is None or sl[0] >= start:
                    check_slice_set(t, seq, start, sl)
        # bare annotation
        lo, hi = (0, 3) if unsigned else (-2, 2)
        for with_loc in ((False, True) if not unsigned else (False,)):
            _INT_LOC[0] = with_loc
            t2 = _Tag(ctx, {"int": it, "int_loc": with_loc}, "int:" + it + ("+positions" if with_loc else ""))
            for l in locs_over(lo, hi, [0, ML]):
                for sl in annot_slices(lo, hi):
                    if unsigned and any(v is not None and v < 0 for v in sl):
                        continue
                    if unsigned and sl[1] == 0:
                        # stop - 1 underflows in numpy's unsigned arithmetic: existing behaviour, unspecified
                        ctx.count("unspecified_unsigned_zero_stop_not_run")
                        continue
                    check_annot_slice(t2, [["a", [l]]], sl)
        ctx.sample({"kind": "aseq_slice", "seq": seq, "start": 5, "feats": [["a", [l]]], "sl": [5, 7], "int": it})
        # value semantics of locations built from numpy integers
        if not unsigned:
            _INT_LOC[0] = True
            for l in locs_over(-1, 1, [0, ML]):
                ctx.ev(1, 1)
                ctx.count("accepted")
                a = mk_loc(l)
                _INT_LOC[0] = False
                b = mk_loc(l)
                _INT_LOC[0] = True
                if not (a == b) or hash(a) != hash(b) or len({a, b}) != 1:
                    ctx.violation("Location.__eq__/__hash__|numpy_int_positions_differ|int:" + it,
                                  "a Location built from numpy integers differs from the one built from ints",
                                  {"kind": "values_int", "l": l, "int": it}, True, False)
    finally:
        _INT[0] = None
        _INT_LOC[0] = False


def m_slice_list(feats, A, B):
    """Model slice as a feature list (input form of the checks), one entry per distinct clipped feature."""
    out = []
    for key, locs, _q in sorted(m_slice_feats(feats, A, B), key=repr):
        out.append([key, sorted(list(l) for l in locs)])
    return out


def check_slice_of_slice(ctx, seq, start, feats, sl1, sl2):
    """x[sl1][sl2]: the second slice acts on an object that was produced by slicing (defect flags set, other
    sequence_start, sequence code a view)."""
    a, b = sl1
    end = start + len(seq)
    A0 = a if a is not None else start
    B0 = b if b is not None else end
    x = mk_x(seq, start, feats)
    y = x[a:b]
    seq_y, start_y, feats_y = seq[A0 - start:B0 - start], A0, m_slice_list(feats, A0, B0)
    if (sstr(y.sequence), y.sequence_start, obs_annot(y.annotation)) != (seq_y, start_y, m_canon(feats_y)):
        return False  # first-level disagreement is the business of the base families
    t = _Tag(ctx, {"kind": "slice_of_slice", "seq": seq, "start": start, "feats": feats, "sl1": list(sl1),
                   "sl": list(sl2)}, "object_from_slice")
    bad = check_aseq_slice(t, seq_y, start_y, feats_y, sl2, y)
    return bad or check_unchanged(ctx, x, seq, start, feats, "AnnotatedSequence.__getitem__(slice of slice)",
                                  {"kind": "slice_of_slice", "seq": seq, "start": start, "feats": feats,
                                   "sl1": list(sl1), "sl": list(sl2)})


def check_two_writes(ctx, seq, start, locs1, locs2):
    """x[f] = v1; x[g] = v2 on the same object == both writes applied to the model in turn."""
    case = {"kind": "two_writes", "seq": seq, "start": start, "locs1": locs1, "locs2": locs2}
    t1, t2 = [tuple(l) for l in locs1], [tuple(l) for l in locs2]
    ctx.ev(1, 1)
    ctx.count("accepted")
    x = mk_x(seq, start, [["a", locs1], ["b", locs2]])
    v1 = set_value(seq, sum(l[1] - l[0] + 1 for l in t1))
    v2 = set_value(seq, 16)[::-1][:sum(l[1] - l[0] + 1 for l in t2)]
    exp = m_feature_set(m_feature_set(seq, start, t1, v1), start, t2, v2)
    try:
        x[mk_feature("a", locs1)] = mk_seq(v1)
        x[mk_feature("b", locs2)] = mk_seq(v2)
        got, back = sstr(x.sequence), sstr(x[mk_feature("b", locs2)])
    except Exception as e:  # noqa: BLE001
        ctx.violation("AnnotatedSequence.__setitem__(Feature)|raised_%s|second_write" % type(e).__name__,
                      "second feature assignment on the same object raised", case, exp, type(e).__name__)
        return True
    ctx.outcome(("w2", got))
    if got != exp or back != v2:
        ctx.violation("AnnotatedSequence.__setitem__(Feature)|wrong_bases_written|second_write",
                      "a second feature assignment on the same object differs from the model", case, [exp, v2], [got, back])
        return True
    return False


def check_after_refusal(ctx, seq, start, feats, locs_mixed):
    """Dimension 9: refused calls leave the object unchanged and the next valid call behaves like on a fresh object."""
    t = _Tag(ctx, {"kind": "after_refusal", "seq": seq, "start": start, "feats": feats}, "after_refusal")
    x = mk_x(seq, start, feats)
    n = len(seq)
    for bad in ((start - 1, None), (start - 2, start + n), (0, start + 1)):
        try:
            x[bad[0]:bad[1]]
        except Exception:  # noqa: BLE001
            pass
    try:
        x[mk_feature("m", locs_mixed)]
    except Exception:  # noqa: BLE001
        pass
    try:
        x.annotation.del_feature(mk_feature("absent", [[start, start, 0, 0]]))
    except KeyError:
        pass
    try:
        x.annotation.add_feature("not a feature")
    except TypeError:
        pass
    try:
        x["x"]
    except TypeError:
        pass
    if check_unchanged(t, x, seq, start, feats, "refused_calls", {"kind": "after_refusal"}):
        return True
    xc = m_canon(feats)
    for sl in aseq_slices(n, start):
        if sl[0] is None or sl[0] >= start:
            check_aseq_slice(t, seq, start, feats, sl, x, xc)
    return False


def check_wrong_length_set(ctx, seq, start, locs, delta):
    """Documented: the replacing sequence must have the same length.  Existing behaviour (partial writes,
    silent truncation) is unspecified: outcomes are only counted."""
    tl = [tuple(l) for l in locs]
    m = sum(l[1] - l[0] + 1 for l in tl) + delta
    if m < 0:
        return
    x = mk_x(seq, start, [["a", locs]])
    ctx.ev(1, 0)
    try:
        x[mk_feature("a", locs)] = mk_seq(set_value(seq, m))
        res = "accepted"
    except Exception as e:  # noqa: BLE001
        res = "raised_" + type(e).__name__
    ctx.count("unspecified_wrong_length_value_%s_%s" % (res, "unchanged" if sstr(x.sequence) == seq else "sequence_modified"))
    ctx.outcome(("wl", res, sstr(x.sequence)))


def check_annotation_history(ctx, seq, start, fl):
    """Dimension 2: an annotation reached by in-place edits, sliced before and after every edit, equals the
    annotation built from scratch (stale cached results would show)."""
    case = {"kind": "history", "seq": seq, "start": start, "fl": fl}
    n = len(seq)
    ctx.ev(1, 1)
    ctx.count("accepted")
    bs = _bt()["bs"]
    an = bs.Annotation()
    x = bs.AnnotatedSequence(an, mk_seq(seq), start)
    cur = []

    def agree(step):
        n = len(seq)  # the sequence is replaced by longer / shorter content below
        slices = [(start, start + n), (start + 1, None), (None, start + n - 1), (None, None)]
        for sl in slices:
            A = sl[0] if sl[0] is not None else start
            B = sl[1] if sl[1] is not None else start + n
            want = (seq[A - start:B - start], A, m_slice_feats(cur, A, B))
            # an omitted bound may leave overhanging locations untouched (EITHER, see ASSUMPTIONS)
            ok_annots = {m_slice_feats(cur, a_, b_) for a_ in ([A] if sl[0] is not None else [A, None])
                         for b_ in ([B] if sl[1] is not None else [B, None])}
            y = x[sl[0]:sl[1]]
            got = (sstr(y.sequence), y.sequence_start, obs_annot(y.annotation))
            sub = obs_annot(an[A:B])
            if got[:2] != want[:2] or got[2] not in ok_annots or sub != want[2]:
                ctx.violation("AnnotatedSequence.__getitem__|stale_or_wrong_after_edit|history:%s" % step,
                              "slice after an in-place edit differs from the slice of an object built from scratch",
                              dict(case, step=step, sl=list(sl)), [want[0], want[1], show(want[2])],
                              [got[0], got[1], show(got[2]), show(sub)])
                return False
        return True

    if not agree("empty"):
        return True
    for i, f in enumerate(fl):
        how = ("add_feature", "iadd_annotation", "iadd_feature")[i % 3]
        if how == "add_feature":
            an.add_feature(mk_feature(*f))
        elif how == "iadd_annotation":
            an += mk_annot([f])
        else:
            an += mk_feature(*f)
        if canon_feature(f[0], [tuple(l) for l in f[1]]) not in m_canon(cur):
            cur = cur + [f]
        if not agree(how):
            return True
    for f in fl[:-1]:
        del an[mk_feature(*f)]
        cur = [g for g in cur if g != f]
        if not agree("del"):
            return True
    # sequence edit between slices
    new = other_symbol(seq, seq[0])
    x[start] = new
    seq = new + seq[1:]
    case["seq_after"] = seq
    if not agree("int_assignment"):
        return True
    # second audit, D: content of another size in the same objects (longer, then shorter than the original),
    # after the slices / copies / reverse complements above had every chance to remember a length
    for step, newseq in (("longer_sequence", seq + set_value(seq, 2)), ("shorter_sequence", seq[1:len(seq) - 1])):
        x.copy()
        if _FLAV[0] is None:
            x.reverse_complement()
        x.sequence.code = mk_seq(newseq).code.copy()
        seq = newseq
        case["seq_" + step] = seq
        if not agree(step):
            return True
        c = x.copy()
        if obs_x(c) != (seq, start, m_canon(cur)) or not (c == x):
            ctx.violation("AnnotatedSequence.copy|stale_or_wrong_after_edit|history:%s" % step,
                          "copy after the sequence content was replaced differs from the object",
                          dict(case, step=step), showx((seq, start, m_canon(cur))), showx(obs_x(c)))
            return True
    # reverse complement twice on the same object with two start values
    if _FLAV[0] is None:
        for r in (start + 3, 1, start + 3):
            y = x.reverse_complement(sequence_start=r)
            es, est, ef = m_revcomp(seq, start, [(k, [tuple(l) for l in locs]) for k, locs in cur], r)
            if obs_x(y) != (es, est, m_canon(ef)):
                ctx.violation("AnnotatedSequence.reverse_complement|stale_or_wrong_on_second_call|history",
                              "repeated reverse_complement on one object differs from the model",
                              dict(case, rstart=r), showx((es, est, m_canon(ef))), showx(obs_x(y)))
                return True
    return False


def run_dim_reuse(shard, ctx, p):
    start = shard["start"]
    n = 4
    seq = seq_for(p["letters"], n)
    inner = locs_over(start, start + n - 1, [0, BIT["BEYOND_RIGHT"]])
    plain = locs_over(start, start + n - 1, [0])
    all_sl = aseq_slices(n, start)
    first = [sl for sl in all_sl if sl[0] is None or sl[0] >= start]
    for pr in pairs(inner, plain):
        feats = [["a", pr]]
        # a complete sub-space: first location starts at the sequence start, both locations on one strand
        if pr[0][3] == 0 and pr[0][0] == start and pr[0][2] == pr[1][2]:
            for sl1 in first:
                A0 = sl1[0] if sl1[0] is not None else start
                B0 = sl1[1] if sl1[1] is not None else start + n
                if A0 >= B0:
                    continue
                for sl2 in aseq_slices(B0 - A0, A0):
                    check_slice_of_slice(ctx, seq, start, feats, sl1, sl2)
    single = [[f, l, st, 0] for f, l in intervals(start, start + n - 1) for st in (0, 1)]
    for l in inner:
        for l2 in plain:
            if l[2] != l2[2] and l[3] == 0:
                check_after_refusal(ctx, seq, start, [["a", [l]], ["b", [l2]]], [l, l2])
    for c1 in itertools.chain(itertools.combinations(single, 1), itertools.combinations(single, 2)):
        if len({l[2] for l in c1}) > 1 or not disjoint([tuple(l) for l in c1]):
            continue
        for delta in (-1, 1, -2):
            check_wrong_length_set(ctx, seq, start, [list(l) for l in c1], delta)
        for c2 in itertools.combinations(single, 1):
            check_two_writes(ctx, seq, start, [list(l) for l in c1], [list(l) for l in c2])
    feats3 = [["a", [[start, start + 1, 0, 0]]], ["b", [[start + 1, start + 3, 1, ML]]], ["a", [[start + 2, start + 2, 0, 0], [start, start, 0, 0]]],
              ["c", [[start - 1, start + n, 0, 0]]]]
    for perm in itertools.permutations(feats3):
        check_annotation_history(ctx, seq, start, [list(f) for f in perm])
    ctx.sample({"kind": "slice_of_slice", "seq": seq, "start": start, "feats": feats, "sl1": [start, start + 3],
                "sl": [start + 1, None]})


def _seq_changed_by(x, seq, mutate):
    try:
        mutate()
    except Exception:  # noqa: BLE001
        return "raised"
    return "shared" if sstr(x.sequence) != seq else "independent"


def check_aliasing(ctx, seq, start, locs):
    """Dimension 3 (+7): arguments are not modified, later changes of mutable arguments and of returned
    containers do not reach Feature / Annotation objects; the order in which locations, qualifiers and
    features are supplied is irrelevant."""
    bs = _bt()["bs"]
    case = {"kind": "alias", "seq": seq, "start": start, "locs": locs}
    tl = [tuple(l) for l in locs]
    ctx.ev(1, 1)
    ctx.count("accepted")

    def v(sig, what, exp=None, got=None):
        ctx.violation(sig, what, case, exp, got)
        return True

    want = canon_feature("a", tl)
    # --- Feature: container type, later mutation of the arguments
    lobjs = [mk_loc(l) for l in locs]
    for ctor in (list, tuple, set, frozenset):
        arg = ctor(lobjs)
        q = {"gene": "a"}
        f = bs.Feature("a", arg, q)
        if obs_feature(f) != want:
            return v("Feature.__init__|wrong_content|locs_as_%s" % ctor.__name__, "feature differs from its arguments", show([want]), None)
        if len(arg) != len(set(lobjs)) or q != {"gene": "a"}:
            return v("Feature.__init__|argument_modified|locs_as_%s" % ctor.__name__, "constructor changed its arguments")
        if ctor is list:
            arg.append(mk_loc([start + 40, start + 41, 0, 0]))
            del arg[0]
        elif ctor is set:
            arg.clear()
        q["gene"] = "changed"
        q["new"] = "x"
        if obs_feature(f) != want:
            return v("Feature.__init__|aliases_argument|locs_as_%s" % ctor.__name__,
                     "changing the locs / qual objects handed to Feature() changed the (immutable) feature", show([want]),
                     show([obs_feature(f)]))
    # --- order independence: every order of the locations and of the qualifier insertion
    ref = bs.Feature("b", lobjs, qual_of("b"))
    x = mk_x(seq, start, [["b", locs]])
    inside = all(l[0] >= start and l[1] < start + len(seq) for l in tl)
    klass, acc = m_feature_get(seq, start, tl) if inside else ("skip", None)
    base_get = sstr(x[ref]) if klass == "accept" else None
    for perm in itertools.permutations(range(len(locs))):
        q = qual_of("b")
        q2 = dict(reversed(list(q.items())))
        g = bs.Feature("b", [mk_loc(locs[i]) for i in perm], q2)
        if not (g == ref) or hash(g) != hash(ref) or len({g, ref}) != 1:
            return v("Feature.__eq__/__hash__|order_dependent|any", "location / qualifier order changes the feature")
        if klass == "accept":
            if sstr(x[g]) != base_get:
                return v("AnnotatedSequence.__getitem__(Feature)|order_dependent|%s" % floc_class(tl),
                         "x[f] depends on the order in which the locations were given", base_get, sstr(x[g]))
            x2 = mk_x(seq, start, [["b", locs]])
            val = set_value(seq, sum(l[1] - l[0] + 1 for l in tl))
            item = mk_seq(val)
            x2[g] = item
            if sstr(x2.sequence) != m_feature_set(seq, start, tl, val):
                return v("AnnotatedSequence.__setitem__(Feature)|order_dependent|%s" % floc_class(tl),
                         "x[f] = s depends on the order in which the locations were given",
                         m_feature_set(seq, start, tl, val), sstr(x2.sequence))
            # the assigned item is an input: unchanged, and not referenced afterwards
            if sstr(item) != val:
                return v("AnnotatedSequence.__setitem__(Feature)|argument_modified|%s" % floc_class(tl),
                         "x[f] = item changed item", val, sstr(item))
            after = sstr(x2.sequence)
            item[0] = other_symbol(seq, val[0])
            if sstr(x2.sequence) != after:
                return v("AnnotatedSequence.__setitem__(Feature)|aliases_argument|%s" % floc_class(tl),
                         "changing item after x[f] = item changed x", after, sstr(x2.sequence))
    # --- Annotation: container types, later mutation, returned containers
    feats = [["a", locs], ["b", [locs[0]]], ["c", [[start, start, 1, 0]]]]
    cw = m_canon(feats)
    fobjs = [mk_feature(k, ls) for k, ls in feats]
    for nm, arg in (("list", list(fobjs)), ("reversed_list", list(reversed(fobjs))), ("tuple", tuple(fobjs)),
                    ("set", set(fobjs)), ("frozenset", frozenset(fobjs)), ("generator", (f for f in fobjs)),
                    ("dict_keys", dict.fromkeys(fobjs).keys())):
        an = bs.Annotation(arg)
        if obs_annot(an) != cw:
            return v("Annotation.__init__|wrong_content|features_as_%s" % nm, "annotation differs from its argument", show(cw),
                     show(obs_annot(an)))
        if nm in ("list", "reversed_list"):
            arg.pop()
            arg.append(mk_feature("zz", [[1, 1, 0, 0]]))
        elif nm == "set":
            arg.clear()
        if obs_annot(an) != cw:
            return v("Annotation.__init__|aliases_argument|features_as_%s" % nm,
                     "changing the container handed to Annotation() changed the annotation", show(cw), show(obs_annot(an)))
        got = an.get_features()
        try:
            got.clear()
            got.add(mk_feature("zz", [[1, 1, 0, 0]]))
        except AttributeError:
            pass  # an immutable container is fine
        if obs_annot(an) != cw:
            return v("Annotation.get_features|returns_internal_set|any",
                     "changing the set returned by get_features() (documented: a copy) changed the annotation", show(cw),
                     show(obs_annot(an)))
    # --- existing sharing the statement does not speak about: counted only
    an = mk_annot(feats)
    sq = mk_seq(seq)
    x = bs.AnnotatedSequence(an, sq, start)
    ctx.count("unspecified_constructor_%s" % ("keeps_references" if (x.annotation is an and x.sequence is sq) else "copies"))
    if len(seq) >= 2:
        o = other_symbol(seq, seq[1])
        y = x[start + 1:]
        ctx.count("unspecified_slice_sequence_%s" % _seq_changed_by(x, seq, lambda: y.sequence.__setitem__(0, o)))
        x = mk_x(seq, start, feats)
        y = x[start + 1:]
        y.annotation.add_feature(mk_feature("zz", [[1, 1, 0, 0]]))
        ctx.count("unspecified_slice_annotation_%s" % ("shared" if obs_annot(x.annotation) != cw else "independent"))
        if klass == "accept":
            x = mk_x(seq, start, feats)
            r = x[mk_feature("a", locs)]
            ctx.count("unspecified_feature_index_result_%s" % _seq_changed_by(x, seq, lambda: r.__setitem__(0, other_symbol(seq, sstr(r)[0]))))
        x = mk_x(seq, start, feats)
        rc = x.reverse_complement()
        ctx.count("unspecified_reverse_complement_result_%s" % _seq_changed_by(x, seq, lambda: rc.sequence.__setitem__(0, other_symbol(seq, sstr(rc.sequence)[0]))))
    ctx.outcome(("alias", want))
    return False


def run_dim_alias(ctx, p):
    n = 4
    for start in (1, 5):
        seq = seq_for(p["letters"], n)
        single = [[f, l, st, 0] for f, l in intervals(start, start + n - 1) for st in (0, 1)]
        single += [[start - 1, start, 0, ML], [start + n - 1, start + n, 1, 0]]
        for k in (1, 2, 3):
            for combo in itertools.combinations(single, k):
                if k == 3 and not disjoint([tuple(l) for l in combo]):
                    continue
                check_aliasing(ctx, seq, start, [list(l) for l in combo])
    ctx.sample({"kind": "alias", "seq": seq, "start": start, "locs": [list(l) for l in combo]})


def run_dim_empty(ctx, p):
    """Dimension 5: no feature, no base, no location."""
    bs = _bt()["bs"]
    for start in (1, 5):
        for n in (0, 1, 2, 3):
            seq = seq_for(p["letters"], n)
            for seqv in {seq, UNAMB[:n]}:
                run_aseq_one(ctx, seqv, start, [], aseq_slices(n, start))
                check_copy(ctx, seqv, start, [])
                for r in (None, start + 3):
                    check_revcomp(ctx, seqv, start, [], r)
        # empty sequence under features (every slice is empty = EITHER; copy and double reverse complement are not)
        for l in locs_over(start - 1, start + 1, [0, ML]):
            feats = [["a", [l]]]
            run_aseq_one(ctx, "", start, feats, aseq_slices(0, start))
            check_copy(ctx, "", start, feats)
            for r in (None, start + 3):
                check_revcomp(ctx, "", start, feats, r)
    check_annot_copy(ctx, [])
    run_annot_one(ctx, [], annot_slices(-1, 1))
    # a feature without a location is refused (documented ValueError text in the constructor)
    for arg in ([], (), set()):
        ctx.ev(1, 1)
        ctx.count("refused")
        try:
            f = bs.Feature("a", arg)
        except Exception as e:  # noqa: BLE001
            ctx.outcome(("nolocs", type(e).__name__))
        else:
            ctx.violation("Feature.__init__|no_error|no_location", "a feature without locations was accepted",
                          {"kind": "empty_feature"}, "an exception", repr(f))
    for args in ((3, 2), (0, -1)):
        ctx.ev(1, 1)
        ctx.count("refused")
        try:
            bs.Location(*args)
        except Exception as e:  # noqa: BLE001
            ctx.outcome(("badloc", type(e).__name__))
        else:
            ctx.violation("Location.__init__|no_error|first_gt_last", "first > last was accepted", {"kind": "bad_location"},
                          "an exception", "object")
    ctx.sample({"kind": "aseq_all_slices", "seq": "", "start": 5, "feats": [["a", [[4, 6, 0, 0]]]]})


def run_dim_many(shard, ctx, p):
    """Dimension 6: positions whose decimal width changes inside the sequence (8..12, 98..102), many features in
    one annotation, many locations in one feature."""
    what = shard["what"]
    if what.startswith("width"):
        start = int(what[5:])
        n = 5
        seq = seq_for(p["letters"], n)
        slices = aseq_slices(n, start)
        for l in locs_over(start - 1, start + n, [0, ML], (start, start + n - 1)):
            run_aseq_one(ctx, seq, start, [["a", [l]]], slices)
            check_revcomp(ctx, seq, start, [["a", [l]]], start + 3)
        single = [[f, l, st, 0] for f, l in intervals(start, start + n - 1) for st in (0, 1)]
        for k in (1, 2, 3):
            for combo in itertools.combinations(single, k):
                locs = [list(l) for l in combo]
                check_findex(ctx, seq, start, locs, "get")
                check_findex(ctx, seq, start, locs, "set")
        ctx.sample({"kind": "findex", "seq": seq, "start": start, "locs": locs, "mode": "get"})
        return
    n = 12
    seq = seq_for(p["letters"], n)
    counts = [10, 101] if ctx.tier == "quick" else [9, 10, 11, 99, 100, 101]
    for start in (1, 95):
        slices = aseq_slices(n, start)
        if what == "features":
            pool = [[f, l, st, d] for f, l in intervals(start - 1, start + n) for st in (0, 1) for d in (0, ML)]
            for cnt in counts:
                feats = [["f%03d" % i, [pool[(i * 7) % len(pool)]]] for i in range(cnt)]
                run_aseq_one(ctx, seq, start, feats, slices)
                check_copy(ctx, seq, start, feats)
                check_annot_copy(ctx, feats)
                for r in (None, start + 3):
                    check_revcomp(ctx, seq, start, feats, r)
            ctx.sample({"kind": "aseq_all_slices", "seq": seq, "start": start, "feats": feats[:3] + [["...", []]]})
        else:
            for cnt in (9, 10, 11, 12):
                for st in (0, 1):
                    for order in ("single_bases", "two_bases"):
                        if order == "single_bases":
                            locs = [[start + i, start + i, st, 0] for i in range(cnt)]
                        else:
                            locs = [[start + i, min(start + i + 1, start + n - 1), st, 0] for i in range(0, cnt, 2)] + \
                                   [[start + i, start + i, st, 0] for i in range(cnt, n)]
                        feats = [["a", locs]]
                        run_aseq_one(ctx, seq, start, feats, slices)
                        check_findex(ctx, seq, start, locs, "get")
                        check_findex(ctx, seq, start, locs, "set")
                        check_copy(ctx, seq, start, feats)
                        check_revcomp(ctx, seq, start, feats, start + 3)
            ctx.sample({"kind": "findex", "seq": seq, "start": start, "locs": locs, "mode": "set"})


def run_dim_huge(ctx):
    """Dimension 1: Annotation.__getitem__ uses +-sys.maxsize as 'no bound'.  Positions of that magnitude cannot
    belong to any sequence; differences from the model are counted as unspecified, never reported."""
    import sys

    M = sys.maxsize
    locs = [[M - 2, M - 1, 0, 0], [M - 1, M, 0, 0], [M, M + 1, 1, 0], [M + 1, M + 2, 0, 0], [-M, -M + 1, 0, 0],
            [-M - 1, -M, 1, 0], [-M - 2, -M - 1, 0, 0]]
    bnds = [None, M - 1, M, M + 1, -M - 1, -M, -M + 1]
    for l in locs:
        an = mk_annot([["a", [l]]])
        for a in bnds:
            for b in bnds:
                ctx.ev(1, 0)
                exp = m_slice_feats([["a", [l]]], a, b)
                try:
                    got = obs_annot(an[a:b])
                except Exception as e:  # noqa: BLE001
                    ctx.count("unspecified_huge_position_raised_%s" % type(e).__name__)
                    continue
                ctx.outcome(("huge", got))
                ctx.count("unspecified_huge_position_%s" % ("agrees" if got == exp else "differs"))
    ctx.sample({"kind": "annot_slice", "feats": [["a", [locs[3]]]], "sl": [None, None], "note": "counted only"})


# ---------------------------------------------------------------------------
# second dimension audit: result identity (A), values by VALUE at every seed (B, C), derived inputs (E)
# ---------------------------------------------------------------------------
def _edit_annotation(an):
    """Re-binding edit: afterwards the annotation holds only a marker feature."""
    an.add_feature(mk_feature("zz", [[7, 7, 0, 0]]))
    for f in list(an):
        if f.key != "zz":
            an.del_feature(f)


def check_result_identity(ctx, seq, start, feats):
    """A: slices (also the full-range / nothing-to-clip ones), x[feature] and the reverse complement are NEW
    objects: they are not the operand or one of its parts, and re-binding edits of the result (features
    added / deleted, a new code array assigned to the result's sequence) leave the operand equal to its model.
    Whether code BUFFERS are shared stays unspecified (dim_alias counts it)."""
    import numpy as np

    bs = _bt()["bs"]
    n = len(seq)
    orig = (seq, start, m_canon(feats))
    base = {"kind": "result_identity", "seq": seq, "start": start, "feats": feats}

    def judge(x, res, what, cls, case):
        """res: AnnotatedSequence / Annotation / Sequence produced from x."""
        ctx.ev(1, 1)
        ctx.count("accepted")
        parts = [x, x.annotation, x.sequence]
        if any(res is p for p in parts) or (hasattr(res, "annotation") and (res.annotation is x.annotation
                                                                           or res.sequence is x.sequence)):
            ctx.violation("%s|returns_operand|%s" % (what, cls), "the result is the operand itself (or holds one of its "
                          "parts)", case, "new object", "operand")
            return True
        try:
            if isinstance(res, bs.AnnotatedSequence):
                _edit_annotation(res.annotation)
                res.sequence.code = np.zeros(len(res.sequence) + 1, dtype=res.sequence.code.dtype)
            elif isinstance(res, bs.Annotation):
                _edit_annotation(res)
            else:
                res.code = np.zeros(len(res) + 1, dtype=res.code.dtype)
        except Exception as e:  # noqa: BLE001
            ctx.violation("%s|result_not_editable_%s|%s" % (what, type(e).__name__, cls), "editing the result raised", case,
                          "editable result", type(e).__name__)
            return True
        got = obs_x(x)
        ctx.outcome(("identity", what, cls, got))
        if got != orig:
            mode = "sequence" if got[0] != orig[0] else ("sequence_start" if got[1] != orig[1] else "annotation")
            ctx.violation("%s|result_aliases_operand:%s|%s" % (what, mode, cls),
                          "a re-binding edit of the result changed the operand", case, showx(orig), showx(got))
            return True
        return False

    for sl in aseq_slices(n, start):
        a, b = sl
        if a is not None and a < start:
            continue
        A0 = a if a is not None else start
        B0 = b if b is not None else start + n
        full = A0 == start and B0 == start + n
        cls = "slice" + slice_form(a, b) + ("+full_range" if full else "")
        x = mk_x(seq, start, feats)
        try:
            y = x[a:b]
        except Exception:  # noqa: BLE001  (empty slices may raise: EITHER)
            continue
        if judge(x, y, "AnnotatedSequence.__getitem__", cls, dict(base, sl=[a, b])):
            return True
        x = mk_x(seq, start, feats)
        try:
            sub = x.annotation[A0:B0] if (a is not None or b is not None) else x.annotation[:]
        except Exception:  # noqa: BLE001
            continue
        if judge(x, sub, "Annotation.__getitem__", cls, dict(base, sl=[a, b], bare=True)):
            return True
    if _FLAV[0] is None:
        for r in (None, start):
            x = mk_x(seq, start, feats)
            if judge(x, x.reverse_complement() if r is None else x.reverse_complement(sequence_start=r),
                     "AnnotatedSequence.reverse_complement", "any", dict(base, rstart=r)):
                return True
    for key, locs in feats:
        tl = [tuple(l) for l in locs]
        if any(l[0] < start or l[1] >= start + n for l in tl) or m_feature_get(seq, start, tl)[0] != "accept":
            continue
        x = mk_x(seq, start, feats)
        whole = len(tl) == 1 and tl[0][0] == start and tl[0][1] == start + n - 1
        if judge(x, x[mk_feature(key, locs)], "AnnotatedSequence.__getitem__(Feature)",
                 floc_class(tl) + ("+whole_sequence" if whole else ""), dict(base, index=[key, locs])):
            return True
    return False


def run_dim_result(ctx, p):
    for start in (1, 5):
        for n in (1, 2, 3):
            seq = seq_for(p["letters"], n)
            check_result_identity(ctx, seq, start, [])
            for l in locs_over(start - 1, start + n, [0, ML], (start, start + n - 1)):
                check_result_identity(ctx, seq, start, [["a", [l]]])
            feats = [["a", [[start, start + n - 1, 0, 0]]], ["b", [[start, start, 1, 0]]]]
            check_result_identity(ctx, seq, start, feats)
    ctx.sample({"kind": "result_identity", "seq": seq, "start": start, "feats": feats})


ALL_LETTERS = "ACGTRYWSMKHBVDN"  # every symbol of the ambiguous nucleotide alphabet


def run_dim_values(ctx, p):
    """B + C: every value the anchored code treats by VALUE occurs at every seed: all 6 defect flags, all 15
    pairs of flags and all six at once through slicing and reverse complement; every letter of the nucleotide
    alphabets through complement (reverse complement, reverse-strand feature get / set)."""
    flags = [BIT[nm] for nm in DEF_NAMES]
    defects = [0] + flags + [a | b for a, b in itertools.combinations(flags, 2)] + [sum(flags)]
    n = 2
    seq = seq_for(p["letters"], n)
    for start in (1, 5):
        slices = aseq_slices(n, start)
        for l in locs_over(start - 1, start + n, defects, (start, start + n - 1)):
            feats = [["a", [l]]]
            run_aseq_one(ctx, seq, start, feats, slices)
            if l[0] >= 0 or start == 5:
                check_revcomp(ctx, seq, start, feats, start + 3)
    for l in locs_over(-1, 1, defects):
        run_annot_one(ctx, [["a", [l]]], annot_slices(-1, 1))
    # every letter
    for seqv in (ALL_LETTERS, ALL_LETTERS[::-1], "ACGT", "TGCA"):
        nn = len(seqv)
        for start in (1, 5):
            whole = [["a", [[start, start + nn - 1, 1, 0]]]]
            for r in (None, start + 3):
                check_revcomp(ctx, seqv, start, whole, r)
            for i in range(nn):
                locs = [[start + i, start + i, 1, 0]]
                check_findex(ctx, seqv, start, locs, "get")
            check_findex(ctx, seqv, start, whole[0][1], "get")
            # set: the written value runs through complement too; write every letter once
            x = mk_x(seqv, start, whole)
            val = seqv[::-1] if set(seqv) <= set("ACGT") else ALL_LETTERS[3:] + ALL_LETTERS[:3]
            ctx.ev(1, 1)
            ctx.count("accepted")
            exp = m_feature_set(seqv, start, [tuple(whole[0][1][0])], val)
            x[mk_feature("a", whole[0][1])] = mk_seq(val)
            if sstr(x.sequence) != exp or sstr(x[mk_feature("a", whole[0][1])]) != val:
                ctx.violation("AnnotatedSequence.__setitem__(Feature)|wrong_bases_written|reverse_single_loc+all_letters",
                              "reverse-strand assignment of every letter of the alphabet", {"kind": "all_letters_set",
                              "seq": seqv, "start": start, "value": val}, exp, sstr(x.sequence))
    ctx.sample({"kind": "revcomp", "seq": ALL_LETTERS, "start": 5, "feats": whole, "rstart": 8})


def derived_model(seq, start, feats, op):
    """Model content of op1(x) -> (seq, start, acceptable canonical annotations)."""
    n = len(seq)
    if op[0] == "slice":
        a, b = op[1], op[2]
        A0 = a if a is not None else start
        B0 = b if b is not None else start + n
        ok = {m_slice_feats(feats, A, B) for A in ([a] if a is not None else [None, start])
              for B in ([b] if b is not None else [None, start + n])}
        return seq[A0 - start:B0 - start], A0, ok
    if op[0] == "rc":
        es, est, ef = m_revcomp(seq, start, [(k, [tuple(l) for l in locs]) for k, locs in feats], 1 if op[1] is None else op[1])
        return es, est, {m_canon(ef)}
    return seq, start, {m_canon(feats)}


def check_derived(ctx, seq, start, feats, op):
    """E: every operation of the property on an object the library handed out (slice / reverse complement /
    copy of x): all slices, single + double reverse complement, copy + independence, feature get / set with the
    derived object's own features, integer index; the derived features and containers as constructor input."""
    bs = _bt()["bs"]
    seq_y, start_y, ok = derived_model(seq, start, feats, op)
    y = apply_op1(mk_x(seq, start, feats), op)
    oy = obs_x(y)
    if oy[:2] != (seq_y, start_y) or oy[2] not in ok:
        ctx.count("skipped_derived_object_differs_from_model")  # reported by the base families
        return False
    feats_y = [[k, sorted(list(l) for l in locs)] for k, locs, _q in sorted(oy[2], key=repr)]
    t = _Tag(ctx, {"derived": {"seq": seq, "start": start, "feats": feats, "op": op}}, "derived_by_" + op[0])
    _DERIVE[0] = (seq, start, feats, op)
    try:
        run_aseq_one(t, seq_y, start_y, feats_y, aseq_slices(len(seq_y), start_y))
        check_copy(t, seq_y, start_y, feats_y)
        for r in (None, start_y + 3):
            check_revcomp(t, seq_y, start_y, feats_y, r)
        if len(feats_y) == 1:
            locs_y = feats_y[0][1]
            tl = [tuple(l) for l in locs_y]
            if feats_y[0][0] == "a" and all(l[0] >= start_y and l[1] < start_y + len(seq_y) for l in tl):
                check_findex(t, seq_y, start_y, locs_y, "get")
                check_findex(t, seq_y, start_y, locs_y, "set")
    except _DerivedMismatch:
        ctx.count("skipped_derived_object_differs_from_model")
        return False
    finally:
        _DERIVE[0] = None
    # the derived object's own Feature / Location objects and containers as inputs
    ctx.ev(1, 1)
    ctx.count("accepted")
    case = {"kind": "derived", "seq": seq, "start": start, "feats": feats, "op": op}
    for p_ in range(start_y, start_y + len(seq_y)):
        if y[p_] != seq_y[p_ - start_y]:
            ctx.violation("AnnotatedSequence.__getitem__(int)|wrong_symbol|derived_by_" + op[0],
                          "integer index on a derived object", dict(case, p=p_), seq_y[p_ - start_y], y[p_])
            return True
    for f in y.annotation:
        of = obs_feature(f)
        tl = sorted(of[1])
        g = bs.Feature(f.key, f.locs, f.qual)
        if not (g == f) or hash(g) != hash(f):
            ctx.violation("Feature.__init__|rebuilt_from_own_parts_differs|derived_by_" + op[0],
                          "Feature(f.key, f.locs, f.qual) != f for a feature handed out by the library", case, None, None)
            return True
        if all(l[0] >= start_y and l[1] < start_y + len(seq_y) for l in tl):
            klass, acc = m_feature_get(seq_y, start_y, tl)
            if klass == "accept" and sstr(y[f]) not in acc:
                ctx.violation("AnnotatedSequence.__getitem__(Feature)|wrong_sequence|%s+derived_feature_object" % floc_class(tl),
                              "index with a Feature object taken from the derived annotation", case, sorted(acc), sstr(y[f]))
                return True
    for nm, an in (("get_features", bs.Annotation(y.annotation.get_features())), ("iter", bs.Annotation(iter(y.annotation))),
                   ("add", bs.Annotation() + y.annotation)):
        if obs_annot(an) != oy[2] or not (an == y.annotation):
            ctx.violation("Annotation.__init__|wrong_content|derived_%s" % nm,
                          "annotation rebuilt from a derived annotation's features differs", case, show(oy[2]), show(obs_annot(an)))
            return True
    ctx.outcome(("derived", oy))
    return False


def run_dim_derived(shard, ctx, p):
    start = shard["start"]
    n = 4
    seq = seq_for(p["letters"], n)
    ops = [["slice", start + 1, start + 3], ["slice", start + 1, None], ["slice", None, start + 3], ["slice", None, None],
           ["rc", None], ["rc", start + 3], ["copy"]]
    single = locs_over(start - 1, start + n, [0, BIT["BEYOND_RIGHT"]], (start, start + n - 1))
    plain = locs_over(start, start + n - 1, [0])
    spaces = [[["a", [l]]] for l in single]
    spaces += [[["a", pr]] for pr in pairs([l for l in plain if l[0] == start], plain) if pr[0][2] == pr[1][2]]
    spaces += [[["a", [single[0]]], ["b", [l]]] for l in single[:12]]
    for feats in spaces:
        for op in ops:
            check_derived(ctx, seq, start, feats, op)
    ctx.sample({"kind": "derived", "seq": seq, "start": start, "feats": feats, "op": ops[1]})


# ---------------------------------------------------------------------------
# third dimension audit: operands of different size (F), ambient state = hash seed (G), defaults (H),
# boundaries of the running min / max in get_location_range (I)
# ---------------------------------------------------------------------------
def run_dim_operands(ctx, p):
    bs = _bt()["bs"]
    # ---- F: == / != between annotated sequences of different size, both directions, against content equality
    specs = []
    for start in (1, 5):
        for seq in ("A", "AC", "ACG", "ACGT", "ACGA", "CGT"):
            for feats in ([], [["a", [[start, start, 0, 0]]]], [["a", [[start, start, 0, 0]]], ["b", [[start, start + 5, 1, 0]]]],
                          [["a", [[start, start, 0, 0], [start + 2, start + 2, 0, 0]]]]):
                specs.append((seq, start, feats))
    objs = [(sp, mk_x(*sp), (sp[0], sp[1], m_canon(sp[2]))) for sp in specs]
    for sp1, x1, c1 in objs:
        for sp2, x2, c2 in objs:
            ctx.ev(1, 1 if (c1 != c2 and (len(sp1[0]) != len(sp2[0]) or len(sp1[2]) != len(sp2[2]))) else 0)
            ctx.count("accepted")
            try:
                eq, ne = (x1 == x2), (x1 != x2)
            except Exception as e:  # noqa: BLE001
                eq, ne = type(e).__name__, None
            ctx.outcome(("eq", c1 == c2))
            if eq is not (c1 == c2) or ne is not (c1 != c2):
                cls = "equal_content" if c1 == c2 else ("other_sequence_length" if len(sp1[0]) != len(sp2[0]) else
                                                        ("other_feature_count" if len(sp1[2]) != len(sp2[2]) else "same_size"))
                ctx.violation("AnnotatedSequence.__eq__|wrong_answer|%s" % cls, "== / != disagree with content equality",
                              {"kind": "aseq_eq", "x1": list(sp1), "x2": list(sp2)}, [c1 == c2, c1 != c2], [eq, ne])
                break
    # ---- F: the assigned item has a LARGER alphabet than the target (symbols the target's alphabet lacks exist
    #         in the item's alphabet, the item itself uses common symbols only), and the other direction
    for start in (1, 5):
        for target, amb_item in (("ACGT", True), ("ACGTRY"[:4] + "RY", False), ("ACGT", False)):
            n = len(target)
            single = [[f, l, st, 0] for f, l in intervals(start, start + n - 1) for st in (0, 1)]
            for k in (1, 2):
                for combo in itertools.combinations(single, k):
                    tl = [tuple(l) for l in combo]
                    if m_feature_get(target, start, tl)[0] != "accept":
                        continue
                    locs = [list(l) for l in combo]
                    m = sum(l[1] - l[0] + 1 for l in tl)
                    val = SET_LETTERS_UNAMB[:m]
                    ctx.ev(1, 1)
                    ctx.count("accepted")
                    x = mk_x(target, start, [["a", locs]])
                    item = bs.NucleotideSequence(val, ambiguous=amb_item)
                    exp = m_feature_set(target, start, tl, val)
                    case = {"kind": "set_other_alphabet", "seq": target, "start": start, "locs": locs, "ambiguous_item": amb_item}
                    try:
                        x[mk_feature("a", locs)] = item
                        got, back = sstr(x.sequence), sstr(x[mk_feature("a", locs)])
                    except Exception as e:  # noqa: BLE001
                        got, back = type(e).__name__, None
                    ctx.outcome(("alph", got))
                    if got != exp or back != val:
                        ctx.violation("AnnotatedSequence.__setitem__(Feature)|wrong_bases_written|%s+item_of_%s_alphabet"
                                      % (floc_class(tl), "larger" if amb_item else "smaller_or_same"),
                                      "assignment of an item with another nucleotide alphabet", case, [exp, val], [got, back])
    # ---- H: a value given explicitly vs its default: both spellings give equal objects
    for l in locs_over(-1, 1, [0]):
        ctx.ev(1, 0)
        ctx.count("accepted")
        a = bs.Location(l[0], l[1])
        b = mk_loc([l[0], l[1], 0, 0])
        fa, fb = bs.Feature("a", [a]), bs.Feature("a", [b], {})
        if not (a == b) or hash(a) != hash(b) or not (fa == fb) or hash(fa) != hash(fb) or obs_loc(a) != (l[0], l[1], 0, 0) \
                or fa.qual != {}:
            ctx.violation("Location.__init__|default_differs_from_explicit|any", "default strand / defect / qual differ "
                          "from FORWARD / NONE / {}", {"kind": "defaults", "l": l}, None, None)
    x = mk_x("ACG", 5, [["a", [[5, 6, 0, 0]]]])
    ctx.ev(1, 1)
    ctx.count("accepted")
    if obs_x(x.reverse_complement()) != obs_x(x.reverse_complement(sequence_start=1)) or \
            obs_x(bs.AnnotatedSequence(mk_annot([]), mk_seq("ACG"))) != ("ACG", 1, frozenset()):
        ctx.violation("AnnotatedSequence|default_sequence_start_not_1|any", "documented default sequence_start is 1",
                      {"kind": "defaults"}, 1, None)
    # ---- I: get_location_range = running minimum / maximum over the locations (documented: first and EXCLUSIVE
    #         last for Annotation, first and last for Feature): all negative, all equal, zero, winner not first
    pool = [[f, l, 0, 0] for f, l in intervals(-3, 2)]
    for k in (1, 2, 3):
        for combo in itertools.combinations(pool, k):
            if k == 3 and combo[0][0] != -3 and combo[0][0] != 0:
                continue  # complete sub-space: triples whose first location starts at -3 or at 0
            for order in (combo, tuple(reversed(combo))):
                locs = [list(l) for l in order]
                ctx.ev(1, 1 if (k > 1 or locs[0][1] < 0) else 0)
                ctx.count("accepted")
                want = (min(l[0] for l in locs), max(l[1] for l in locs))
                cls = "all_negative" if want[1] < 0 else ("touches_zero" if 0 in (want[0], want[1]) else "mixed_or_positive")
                case = {"kind": "location_range", "locs": locs}
                f = mk_feature("a", locs)
                got_f = tuple(int(v) for v in f.get_location_range())
                an1 = mk_annot([["a", locs]])
                an2 = mk_annot([["k%d" % i, [l]] for i, l in enumerate(locs)])
                got_a = [tuple(int(v) for v in an.get_location_range()) for an in (an1, an2)]
                ctx.outcome(("range", got_f))
                if got_f != want:
                    ctx.violation("Feature.get_location_range|wrong_range|%s" % cls, "minimum first / maximum last of the "
                                  "locations", case, list(want), list(got_f))
                elif any(g != (want[0], want[1] + 1) for g in got_a):
                    ctx.violation("Annotation.get_location_range|wrong_range|%s" % cls, "first and exclusive last base over "
                                  "all features", case, [want[0], want[1] + 1], [list(g) for g in got_a])
    try:
        r = mk_annot([]).get_location_range()
        ctx.count("unspecified_location_range_of_empty_annotation_returned")
        ctx.outcome(("empty_range", repr(r)))
    except Exception as e:  # noqa: BLE001
        ctx.count("unspecified_location_range_of_empty_annotation_raised_%s" % type(e).__name__)
    ctx.sample({"kind": "location_range", "locs": [[-3, -2, 0, 0], [-2, -1, 0, 0]]})


HASH_SEEDS = ["1", "2", "4242"]


def hash_family(ctx, p):
    """The space walked under every hash seed: every feature of 1..3 locations on n = 4 (get and set, both
    strands) and every slice of every 2-location annotation on n = 2."""
    for start in (1, 5):
        n = 4
        seq = seq_for(p["letters"], n)
        single = [[f, l, st, 0] for f, l in intervals(start, start + n - 1) for st in (0, 1)]
        for k in (1, 2, 3):
            for combo in itertools.combinations(single, k):
                locs = [list(l) for l in combo]
                check_findex(ctx, seq, start, locs, "get")
                check_findex(ctx, seq, start, locs, "set")
        n = 2
        seq = seq_for(p["letters"], n)
        full = locs_over(start - 1, start + n, [0, ML])
        plain = locs_over(start - 1, start + n, [0])
        for pr in pairs(full, plain):
            run_aseq_one(ctx, seq, start, [["a", pr]], aseq_slices(n, start))
            check_revcomp(ctx, seq, start, [["a", pr]], start + 3)


def _hash_child():
    """Entry point of the child interpreter (other PYTHONHASHSEED): prints one JSON line."""
    import sys

    from mc.ctx import Ctx

    tier, seed = sys.argv[1], int(sys.argv[2])
    ctx = Ctx(ID, tier, seed)
    only = json.loads(sys.argv[3]) if len(sys.argv) > 3 else None
    if only is None:
        hash_family(ctx, pal(seed))
    else:
        _replay(only, ctx)
    r = ctx.result()
    print(json.dumps({"ev": r["evaluations"], "nontrivial": r["nontrivial"], "counters": r["counters"],
                      "violations": r["violations"], "viol_per_sig": r["viol_per_sig"],
                      "outcomes": len(r["outcomes"])}))


def _run_hash_child(ctx, hs, only=None):
    import os
    import subprocess
    import sys

    verif = os.path.dirname(os.path.dirname(os.path.abspath(__file__)))
    code = ("import sys; sys.path.insert(0, %r); from mc import loader; loader.install(); "
            "import props.c13 as m; m._hash_child()" % verif)
    args = [sys.executable, "-c", code, ctx.tier, str(ctx.seed)] + ([json.dumps(only)] if only is not None else [])
    r = subprocess.run(args, capture_output=True, text=True, cwd=verif, timeout=900,
                       env=dict(os.environ, PYTHONHASHSEED=hs, PYTHONDONTWRITEBYTECODE="1"))
    if r.returncode != 0 or not r.stdout.strip():
        raise RuntimeError("hash-seed child failed: %s" % r.stderr[-800:])
    return json.loads(r.stdout.strip().splitlines()[-1])


def run_dim_hashseed(shard, ctx, p):
    """G: the only ambient input of the anchored code is the interpreter's hash seed (iteration order of the
    frozenset of locations and of the set of features).  The family space is executed in child interpreters
    started with other PYTHONHASHSEED values; results must equal the same model."""
    hs = shard["hashseed"]
    res = _run_hash_child(ctx, hs)
    ctx.ev(res["ev"], res["nontrivial"])
    for k, v in res["counters"].items():
        ctx.count(k, v)
    ctx.outcome(("hashseed", hs, res["outcomes"]))
    for v in res["violations"]:
        case = dict(v["case"]) if isinstance(v["case"], dict) else {"case": v["case"]}
        case["hashseed"] = hs
        ctx.violation(v["sig"] + "+other_hash_seed", v["what"], case, v["expected"], v["observed"])
    ctx.sample({"kind": "hashseed_family", "hashseed": hs, "cases": res["ev"]})


# ---------------------------------------------------------------------------
# replay
# ---------------------------------------------------------------------------
def replay(case, ctx):
    if isinstance(case, str):
        case = json.loads(case)
    if isinstance(case, dict) and case.get("hashseed"):
        hs = case["hashseed"]
        res = _run_hash_child(ctx, hs, {k: v for k, v in case.items() if k != "hashseed"})
        for v in res["violations"]:
            ctx.violation(v["sig"] + "+other_hash_seed", v["what"], case, v["expected"], v["observed"])
        return
    if isinstance(case, dict) and case.get("derived"):
        d = case["derived"]
        _DERIVE[0] = (d["seq"], d["start"], d["feats"], d["op"])
        try:
            c2 = {k: v for k, v in case.items() if k != "derived"}
            _replay(c2, _Tag(ctx, {"derived": d}, "derived_by_" + d["op"][0]))
        except _DerivedMismatch:
            pass
        finally:
            _DERIVE[0] = None
        return
    if isinstance(case, dict) and (case.get("flavour") or case.get("int")):
        # a case of a dimension family: same check, other flavour of sequence / integers
        fl, it = case.get("flavour"), case.get("int")
        cls = ("seq:" + fl) if fl else ("int:" + it + ("+positions" if case.get("int_loc") else ""))
        _FLAV[0], _INT[0], _INT_LOC[0] = fl, it, bool(case.get("int_loc"))
        try:
            extra = {k: case[k] for k in ("flavour", "int", "int_loc") if k in case}
            _replay(dict(case), _Tag(ctx, extra, cls))
        finally:
            _FLAV[0], _INT[0], _INT_LOC[0] = None, None, False
        return
    _replay(case, ctx)


def _replay(case, ctx):
    if isinstance(case, list):  # journal entries
        if case[0] == "aseq":
            case = {"kind": "aseq_all_slices", "seq": case[1], "start": case[2], "feats": case[3]}
        elif case[0] == "findex":
            for mode in ("get", "set"):
                check_findex(ctx, case[1], case[2], case[3], mode)
            return
    k = case["kind"]
    if k == "aseq_slice":
        check_aseq_slice(ctx, case["seq"], case["start"], case["feats"], tuple(case["sl"]))
    elif k == "aseq_all_slices":
        run_aseq_one(ctx, case["seq"], case["start"], case["feats"], aseq_slices(len(case["seq"]), case["start"]))
    elif k == "annot_slice":
        check_annot_slice(ctx, case["feats"], tuple(case["sl"]))
    elif k == "annot_all_slices":
        lo = min(l[0] for _k, locs in case["feats"] for l in locs)
        hi = max(l[1] for _k, locs in case["feats"] for l in locs)
        run_annot_one(ctx, case["feats"], annot_slices(lo, hi))
    elif k == "findex":
        check_findex(ctx, case["seq"], case["start"], case["locs"], case["mode"])
    elif k == "int_index":
        check_int_index(ctx, case["seq"], case["start"], case["p"])
    elif k == "slice_set":
        check_slice_set(ctx, case["seq"], case["start"], tuple(case["sl"]))
    elif k == "revcomp":
        check_revcomp(ctx, case["seq"], case["start"], case["feats"], case["rstart"])
    elif k == "copy":
        check_copy(ctx, case["seq"], case["start"], case["feats"])
    elif k == "annot_copy":
        check_annot_copy(ctx, case["feats"])
    elif k == "container":
        check_container(ctx, case["fa"], case["fb"])
    elif k == "values":
        check_values(ctx, case["la"], case["lb"])
    elif k == "slice_of_slice":
        check_slice_of_slice(ctx, case["seq"], case["start"], case["feats"], tuple(case["sl1"]), tuple(case["sl"]))
    elif k == "two_writes":
        check_two_writes(ctx, case["seq"], case["start"], case["locs1"], case["locs2"])
    elif k == "after_refusal":
        locs = [l for _k, ls in case["feats"] for l in ls]
        check_after_refusal(ctx, case["seq"], case["start"], case["feats"], locs[:2])
    elif k == "history":
        check_annotation_history(ctx, case["seq"], case["start"], case["fl"])
    elif k == "alias":
        check_aliasing(ctx, case["seq"], case["start"], case["locs"])
    elif k == "result_identity":
        check_result_identity(ctx, case["seq"], case["start"], case["feats"])
    elif k == "derived":
        check_derived(ctx, case["seq"], case["start"], case["feats"], case["op"])
    elif k in ("aseq_eq", "set_other_alphabet", "defaults", "location_range"):
        run_dim_operands(ctx, pal(ctx.seed))
    elif k == "all_letters_set":
        run_dim_values(ctx, pal(ctx.seed))
    elif k in ("empty_feature", "bad_location"):
        run_dim_empty(ctx, pal(ctx.seed))
    elif k == "values_int":
        run_dim_ints({"int": case["int"]}, ctx, pal(ctx.seed))
    else:
        raise ValueError(case)


def crash_class(case):
    if isinstance(case, list) and case:
        return str(case[0])
    if isinstance(case, dict):
        return str(case.get("kind"))
    return "unclassified"
