"""C19 - trees contain every taxon once and keep distances through Newick.

E2 (bounded input-space enumeration) over five finite spaces:

  matrix    every symmetric matrix with n in {2..5(6)} over a small value palette (zeros and ties
            everywhere) -> upgma() and (n >= 4) neighbor_joining(); oracle: leaf set, binary shape,
            ultrametricity, merge height = half the average linkage of the merged clusters recomputed
            from the input matrix, merges form a valid greedy minimum-distance order.
  additive  every unrooted labelled binary topology on 4..6 leaves x every assignment of branch lengths
            from a palette (also a palette with zero-length branches) -> additive matrix ->
            neighbor_joining(); oracle: every leaf-to-leaf path length equals the matrix entry.
  tree      every ordered rooted shape with <= 5 (6) leaves, any arity incl. unary inner nodes x leaf
            index permutations x distance palettes, built through TreeNode/Tree; oracle: parent-pointer
            model (explicit path sums, LCA), independent Newick reader for every writer option, clade
            maps for the reader (plain and whitespace-decorated strings, labels, no distances, rounded
            distances), copy, as_binary, as_graph, ==/hash.
  labeling  every shape with <= 4 leaves x every leaf index assignment from {0..n}^n: only bijections
            onto 0..n-1 may yield a Tree.
  misuse    documented refusals of the TreeNode/Tree constructors for every position of the offending
            child; a refused construction must not change its arguments.
  audit     dimension families (see bounds()['dimension_families']): magnitude (scaled), array / argument
            flavours, input aliasing, empty and surplus labels, many items (big), refusals followed by a valid
            call, nesting depth (deep).
  eqpairs   == between every two trees with <= 3 leaves equals equality of the order-free canonical
            forms (exception: unspecified).
"""

import itertools
import json
import math

import numpy as np

from mc.models import phylo_model as M

ID = "C19"
LEVEL = "model_checking"
RULE = (
    "matrix: every symmetric matrix of the stated n over the value palette, enumerated as the product over "
    "the upper triangle (no repeats); non-trivial when n >= 3 and at least two off-diagonal entries tie or "
    "one is zero. additive: every (topology, length assignment) pair once; all are non-trivial (n >= 4, all "
    "path sums compared). tree: every (ordered shape, leaf permutation, distance palette) triple once; "
    "non-trivial when the tree has >= 2 leaves and a unary node, an inner node with >= 3 children, a "
    "non-identity leaf permutation or a non-unit distance palette. labeling/misuse/eqpairs: every listed "
    "case once; non-trivial when the input is not a valid tree (labeling, misuse) or the two trees differ "
    "(eqpairs). Dimension families: every listed (case, scale / flavour / size / depth) once; all count as non-trivial "
    "except the valid-labelling controls."
)
ASSUMPTIONS = [
    "distances are compared with tolerance 1e-5*max(1,|d|) (biotite stores float32); Newick text written "
    "without rounding must reproduce the tree's own reported distances exactly",
    "labels are distinct, non-empty and free of the Newick structure characters ,:;() (those are an EITHER "
    "class: refused or round-tripped); labels with inner blanks are generated (species names)",
    "the whitespace-decorated Newick variants put blanks only between tokens",
    "NJ on non-additive matrices is only required to return every index as exactly one leaf of a tree that "
    "is binary except for a three-way root (documented shape)",
    "== raising an exception for two different trees is counted as unspecified, not as a violation "
    "(the statement does not mention ==); == is required to hold between a tree and its copy / its exact "
    "Newick round trip and to fail for a tree with one changed distance or two swapped leaves",
    "malformed Newick input, NaN/inf/negative branch lengths and out-of-range arguments of get_distance are "
    "not generated (outside the quantifier)",
    "matrix entries within a factor n of the float32 maximum are not generated (the float32 sums overflow: upgma "
    "raises TreeError, neighbor_joining returns NaN lengths); float32 denormals (< 1e-38) are not generated",
    "RecursionError from == for two different trees nested deeper than about 500 levels is unspecified; a clean "
    "exception for trees nested 30 000 levels or deeper is unspecified, a killed interpreter is a violation",
    "argument flavours the documentation does not promise (numpy scalars as index, float32/int64 arrays as distances, "
    "tuple of labels for the reader, str subclasses, list / object matrices) may be refused; if accepted the result "
    "must equal the plain-type result",
    "an only child with an empty label and no length is written as '()', which biotite's own tests define as invalid "
    "Newick: reading it back is unspecified",
]
EXHAUSTIVE = True
SHARD_TIMEOUT = {"quick": 600, "thorough": 2400}

# ---------------------------------------------------------------------------
# palettes (VERIF_SEED selects a row; every row is clean on the unchanged tree)
# ---------------------------------------------------------------------------
VALUE_PALETTES = [(0, 1, 2, 4), (0, 1, 3, 5), (0, 2, 3, 7), (0, 0.5, 1, 1.5), (0, 1, 2, 3)]
BRANCH_PALETTES = [(1, 3, 5), (1, 2, 6), (0.5, 1.5, 3), (1, 4, 7), (2, 5, 11)]   # ratio >= 5: long pendant edges next to short inner ones
ZERO_BRANCH_PALETTES = [(0, 1, 5), (0, 1, 4), (0, 0.5, 3), (0, 2, 7), (0, 1, 6)]
DIST_BASES = [0.25, 0.375, 1.5, 0.0625, 2.75]          # exactly representable in float32
MILLI_BASES = [1e-3, 3e-3, 7e-4, 1.1e-3, 9e-3]          # not representable in float32
DIST_PALETTES = ["ones", "half", "zero", "distinct", "milli", "ints", "mixed"]

LABELS_PLAIN = [
    ["a", "bb", "c_c", "D4", "e.e", "f-f"],
    ["Alpha", "beta", "GAMMA", "delta1", "eps", "z"],
    ["s1", "s22", "s_3", "S4", "s.5", "s-6"],
    ["x", "yy", "zzz", "W", "v_v", "u.u"],
    ["t0", "t1", "t2", "t3", "t4", "t5"],
]
LABELS_AWKWARD = [
    ["x'y", "[z]", "1e5", "-3", "é", "a/b"],
    ['"q"', "{w}", "0x1", "+7", "ß", "a|b"],
    ["a'b'c", "<k>", "2E3", "-0", "ü", "a\\b"],
    ["#h", "@m", "1.5", "--", "ñ", "a&b"],
    ["%p", "!n", ".5", "1-2", "å", "a=b"],
]
# two feature classes in one label (quote / bracket-like / numeric-looking / sign / non-ASCII / exponent form);
# every pair of classes occurs in at least one label of every row
LABELS_COMBINED = [
    ["'-1'", "[0]é", "1e5'", "é-3", "+7.5[", "0x1'é"],
    ['"+2"', "{1}ß", '2E3"', "ß-0", "-.5{", '1e-5"ß'],
    ["'1e5'", "<2>ü", "-3'", "ü+1", "+0<", "-1e5ü"],
    ["#-1.5", "@0ñ", "1.5#", "ñ--1", "+@7", "#ñ1e2"],
    ["%+3", "!1å", ".5%", "å1-2", "-!0", "%å2E2"],
]
LABELS_SPACE = [
    ["Homo sapiens", "Mus", "c", "d", "e", "f"],
    ["a", "Pan troglodytes", "c", "d", "e", "f"],
    ["E. coli", "b", "c", "d", "e", "f"],
    ["a", "b", "C elegans", "d", "e", "f"],
    ["tab\there", "b", "c", "d", "e", "f"],
]
PERMS5 = [
    [[0, 1, 2, 3, 4], [4, 3, 2, 1, 0], [1, 2, 3, 4, 0], [4, 0, 1, 2, 3], [1, 0, 2, 3, 4], [2, 0, 4, 1, 3]],
    [[0, 1, 2, 3, 4], [4, 3, 2, 1, 0], [2, 3, 4, 0, 1], [3, 4, 0, 1, 2], [0, 1, 2, 4, 3], [3, 1, 4, 2, 0]],
    [[0, 1, 2, 3, 4], [4, 3, 2, 1, 0], [1, 2, 3, 4, 0], [3, 4, 0, 1, 2], [0, 2, 1, 3, 4], [1, 3, 0, 4, 2]],
    [[0, 1, 2, 3, 4], [4, 3, 2, 1, 0], [2, 3, 4, 0, 1], [4, 0, 1, 2, 3], [0, 1, 3, 2, 4], [4, 2, 0, 3, 1]],
    [[0, 1, 2, 3, 4], [4, 3, 2, 1, 0], [1, 2, 3, 4, 0], [2, 3, 4, 0, 1], [4, 1, 2, 3, 0], [2, 4, 1, 3, 0]],
]
SCALES = [1e-30, 1e-6, 1e6, 1e30]     # float32 range is 1e-38..3e38; sums of n terms stay inside
ROUNDS = (0, 3)
ILLEGAL = ",:;()"


def bounds(tier):
    q = tier == "quick"
    return {
        "matrix": "n=2,3,4 over 4 values (incl. 0); n=5 over %s; "
                  "n<=3 additionally x 6 dtype/layout variants; n=0,1 as unspecified"
                  % ("{a,b} and {0,a} (a<b the smallest non-zero values)" if q else
                     "the 3 non-zero values and over {0,a,b}; n=6 over {a,b}"),
        "additive": "all unrooted binary topologies n=4,5 x lengths^edges for a positive and a zero-containing "
                    "3-value palette; n=6: %s" % ("assignments with <= 2 distinct lengths (positive palette)" if q
                                                  else "all 3^9 assignments (positive palette) and <= 2 distinct "
                                                       "lengths (zero palette)"),
        "tree_leaves": "<=5" if q else "<=5, and 6 with <= 1 unary node (identity and reversed permutation)",
        "tree_unary_nodes": 1 if q else 2,
        "tree_permutations": (
            "n<=3: all x 7 palettes; n=4: identity x 7 palettes + the other 23 x {distinct, milli}; "
            "n=5: identity x 7 palettes + 5 listed permutations x {distinct, milli}" if q
            else "n<=3, and n=4 with <= 1 unary node: all x 7 palettes; n=4 with 2 unary nodes: identity x 7 + the other "
                 "23 x {ones, distinct, milli}; n=5: identity x 7 palettes + (no unary node: the other 119; with unary "
                 "nodes: 5 listed) x {ones, distinct, milli}; n=6: identity, reversed x {ones, distinct, milli}"),
        "distance_palettes": DIST_PALETTES,
        "writer_options": "labels {None, plain, awkward, numeric-reversed, with-blank} x include_distance x "
                          "round_distance {None,0,3}",
        "reader_variants": ["plain", "comma_space", "multiline", "colon_space", "no_semicolon"],
        "dimension_families": {
            "scaled": "n=4 matrices over {0,a,b} (729) and all n=4 additive matrices (2 palettes) x scale factors %r, "
                      "tolerances relative to the largest entry" % SCALES,
            "flavours": "matrices n=2,3 (all) and n=4 over {a,b} x {read-only, read-only float32, transposed view, uint8, "
                        "int8, float16, big-endian, ndarray subclass; list and object dtype as unspecified}, n=4 also x "
                        "the 5 older variants; tree API: shapes <=3 leaves x 7 required + 17 optional argument flavours "
                        "(containers, numpy scalars, 0-d arrays) compared with the plain-type result",
            "aliasing": "every hand-built tree: argument lists changed after TreeNode(), Tree.leaves / get_indices / "
                        "get_leaves results changed and re-read, labels list compared after writer/reader; every "
                        "matrix: input changed after the call, tree re-read",
            "empty_pieces": "label sets with one empty label and with one surplus label (palettes ones, distinct)",
            "big": "trees {star, caterpillar, balanced, broom} x n in {9,10,11,12,99,100,101,130,260%s}; upgma/nj on a "
                   "scattered and a chain matrix and nj on additive matrices of listed trees, n in {9..12,33,100,101,260%s}; "
                   "taxon-permutation differential for n<=33" % ((", 999,1000,1001", ", 130, 257") if tier != "quick" else ("", "")),
            "refuse": "all 4032 invalid 3x3 matrices over {-1,0,1,2}, single asymmetric/negative/NaN/inf deviations of a "
                      "4x4 matrix at every position, non-square and non-2-D shapes; then a valid call",
            "derived (audit 2)": "every tree with <=4 leaves (<=1 unary node; thorough: 5 leaves / 2 unary nodes) and every "
                                 "upgma/nj result for the 64 n=4 matrices over {a,b}: 8 + 3 per inner node + 3 binary-form "
                                 "objects handed out by the library (copies, parsed trees/nodes, attached and copied inner "
                                 "nodes, binary forms), each fed into queries, writer, reader, copy, as_binary, Tree()",
            "result identity (audit 2)": "every hand-built tree: as_binary result shares no node with its argument (also "
                                         "single leaf / already binary), as_graph result emptied and re-requested",
            "combined labels (audit 2)": "label set with two awkward feature classes per label (+ a blank-and-quote label in "
                                         "the blank set), read back plain and with 2 whitespace decorations",
            "precedence (audit 3)": "trees <=3 leaves (<=1 unary) and 4 leaves: labels on intermediate nodes (6 names incl. "
                                    "index-, length- and leaf-label-like) in 4 written strings each must be discarded; "
                                    "include_distance=False with round_distance; labels list shifted beyond the leaf count",
            "deep": "caterpillars nested %s levels must work; 30000 and 100000 levels may be refused but must not end the "
                    "process (9 operations, forked)" % ("1100" if tier == "quick" else "999,1000,1001,1100,3000"),
        },
        "labeling": "shapes with <=3 leaves (<=1 unary) x {0..n}^n; 4 leaves (no unary) x {0..4}^4",
        "eqpairs_leaves": 3,
    }


def tol(d):
    return 1e-5 * max(1.0, abs(d))


def close(a, b):
    return a is not None and b is not None and abs(a - b) <= tol(b)


# ---------------------------------------------------------------------------
# helpers on the real objects (public API only)
# ---------------------------------------------------------------------------
def extract(node):
    ch = node.children
    if ch is None:
        return node.index
    return [[extract(c), c.distance] for c in ch]


def all_nodes(node, out=None):
    out = [] if out is None else out
    out.append(node)
    if node.children is not None:
        for c in node.children:
            all_nodes(c, out)
    return out


def build_impl(spec):
    """-> (root TreeNode, nodes in the model's preorder)"""
    from biotite.sequence.phylo import TreeNode

    nodes = []

    def rec(s):
        slot = len(nodes)
        nodes.append(None)
        if isinstance(s, int):
            nd = TreeNode(index=s)
        else:
            kids = [rec(cs) for cs, _ in s]
            dl = [d for _, d in s]
            nd = TreeNode(kids, dl)
            # input aliasing: the argument lists are changed right after the call; every later
            # observation of the node is made against the model, so a node that kept a reference shows up
            kids.reverse()
            kids.append(None)
            dl[:] = [-7.0] * (len(dl) + 1)
        nodes[slot] = nd
        return nd

    return rec(spec), nodes


def tree_class(spec):
    if isinstance(spec, int):
        return "single_leaf"
    st = [spec]
    unary = multi = False
    while st:
        s = st.pop()
        if isinstance(s, int):
            continue
        if len(s) == 1:
            unary = True
        if len(s) > 2:
            multi = True
        st += [c for c, _ in s]
    return "unary" if unary else ("multifurcating" if multi else "binary")


def arities(spec):
    out = []
    st = [spec]
    while st:
        s = st.pop()
        if isinstance(s, int):
            continue
        out.append(len(s))
        st += [c for c, _ in s]
    return out


def check_leaf_set(ctx, site, tree, n, case, cls):
    """every index 0..n-1 exactly one leaf; Tree.leaves coherent"""
    try:
        got = sorted(int(x) for x in tree.root.get_indices())
        leaves = tree.leaves
        ok = (got == list(range(n)) and len(tree) == n and len(leaves) == n
              and all(lf is not None and lf.is_leaf() and lf.index == i for i, lf in enumerate(leaves)))
    except Exception as e:  # noqa: BLE001
        ctx.violation("%s|leaf_set_raises_%s|%s" % (site, type(e).__name__, cls),
                      "inspecting the leaves of the returned tree raised", case, "leaves 0..n-1", repr(e))
        return False
    if not ok:
        ctx.violation("%s|leaf_set|%s" % (site, cls), "the tree does not hold every input index as exactly one leaf",
                      case, list(range(n)), got)
    return ok


# ---------------------------------------------------------------------------
# matrix space: UPGMA + NJ
# ---------------------------------------------------------------------------
def tri_to_matrix(n, tri):
    D = [[0.0] * n for _ in range(n)]
    k = 0
    for i in range(n):
        for j in range(i + 1, n):
            D[i][j] = D[j][i] = tri[k]
            k += 1
    return D


def make_array(D, variant):
    n = len(D)
    if variant == "float64":
        return np.array(D, dtype=np.float64).reshape(n, n)
    if variant == "float32":
        return np.array(D, dtype=np.float32).reshape(n, n)
    if variant == "int64":
        return np.array(D, dtype=np.float64).reshape(n, n).astype(np.int64)
    if variant == "int32":
        return np.array(D, dtype=np.float64).reshape(n, n).astype(np.int32)
    if variant == "fortran":
        return np.asfortranarray(np.array(D, dtype=np.float64).reshape(n, n))
    if variant == "strided":
        big = np.zeros((2 * n, 2 * n), dtype=np.float64)
        big[::2, ::2] = np.array(D, dtype=np.float64).reshape(n, n)
        return big[::2, ::2]
    base = np.array(D, dtype=np.float64).reshape(n, n)
    if variant == "readonly":
        base.setflags(write=False)
        return base
    if variant == "readonly_float32":
        a = base.astype(np.float32)
        a.setflags(write=False)
        return a
    if variant == "transposed":
        return np.ascontiguousarray(base.T).T          # Fortran-strided view of a C array
    if variant == "uint8":
        return base.astype(np.uint8)
    if variant == "int8":
        return base.astype(np.int8)
    if variant == "float16":
        return base.astype(np.float16)
    if variant == "bigendian":
        return base.astype(">f8")
    if variant == "subclass":
        return base.view(_ArraySubclass)
    if variant == "list":
        return [list(r) for r in D]
    if variant == "object":
        return base.astype(object)
    raise ValueError(variant)


class _ArraySubclass(np.ndarray):
    pass


INTEGRAL_VARIANTS = ("int64", "int32", "uint8", "int8")
EITHER_VARIANTS = ("list", "object")       # documented parameter type is ndarray of numbers
NEW_VARIANTS = ["readonly", "readonly_float32", "transposed", "uint8", "int8", "float16", "bigendian", "subclass",
                "list", "object"]


def matrix_class(n, tri):
    if n < 2:
        return "n_below_2"
    z = any(v == 0 for v in tri)
    t = len(set(tri)) < len(tri)
    return "n%d_%s" % (min(n, 5), "zero" if z else ("ties" if t else "distinct"))


def check_matrix(ctx, case):
    from biotite.sequence.phylo import neighbor_joining, upgma

    n, tri, variant = case["n"], case["tri"], case.get("variant", "float64")
    sc = case.get("scale")
    D = tri_to_matrix(n, tri if sc is None else [v * sc for v in tri])
    integral = all(float(v).is_integer() for v in tri)
    if variant in INTEGRAL_VARIANTS and not integral:
        return
    arr = make_array(D, variant)
    before = np.array(arr, dtype=object if variant == "object" else None).copy()
    cls = matrix_class(n, tri)
    if sc is not None:
        cls += "|scale_small" if sc < 1 else "|scale_large"
    if variant in NEW_VARIANTS:
        cls += "|" + variant
    unit = _unit(D, sc)
    either = variant in EITHER_VARIANTS

    # ---- UPGMA
    try:
        t = upgma(arr)
    except Exception as e:  # noqa: BLE001
        t = None
        if either:
            ctx.count("unspecified")
        elif n >= 2:
            ctx.violation("upgma|raises_%s|%s" % (type(e).__name__, cls), "upgma refused a legal matrix", case,
                          "a tree", repr(e))
        else:
            ctx.count("unspecified")
    if not np.array_equal(arr, before):
        ctx.violation("upgma|input_modified|%s" % cls, "upgma changed its input matrix", case, before.tolist(),
                      arr.tolist())
    if t is not None and n >= 2:
        ctx.count("accepted")
        judge_upgma(ctx, t, D, case, cls, unit)
        _result_independent_of_input(ctx, "upgma", t, arr, before, case, cls)
    elif t is not None:
        ctx.count("unspecified")
        check_leaf_set(ctx, "upgma", t, n, case, cls)

    # ---- NJ
    try:
        t = neighbor_joining(arr)
    except Exception as e:  # noqa: BLE001
        t = None
        if either:
            ctx.count("unspecified")
        elif n >= 4:
            ctx.violation("neighbor_joining|raises_%s|%s" % (type(e).__name__, cls),
                          "neighbor_joining refused a legal matrix", case, "a tree", repr(e))
        else:
            ctx.count("unspecified")
    if not np.array_equal(arr, before):
        ctx.violation("neighbor_joining|input_modified|%s" % cls, "neighbor_joining changed its input matrix", case,
                      before.tolist(), arr.tolist())
    if t is not None:
        if n >= 4:
            ctx.count("accepted")
        else:
            ctx.count("unspecified")
        if check_leaf_set(ctx, "neighbor_joining", t, n, case, cls) and n >= 4:
            spec = extract(t.root)
            ar = arities(spec)
            if isinstance(spec, int) or len(spec) != 3 or sorted(ar) != [2] * (len(ar) - 1) + [3]:
                ctx.violation("neighbor_joining|shape|%s" % cls,
                              "tree is not binary with a three-way root (documented shape)", case,
                              "root arity 3, others 2", ar)
            ctx.outcome(("nj", t.to_newick()))
            if n <= 4:
                light_roundtrip(ctx, "neighbor_joining", t, case, cls, unit)
            _result_independent_of_input(ctx, "neighbor_joining", t, arr, before, case, cls)


def _unit(D, sc):
    """Magnitude the tolerance is relative to: 1 for the unscaled palettes (small numbers), the largest entry
    for the scaled families."""
    if sc is None:
        return 1.0
    m = max((max(r) for r in D), default=0.0)
    return m if m > 0 else 1.0


def _result_independent_of_input(ctx, site, t, arr, before, case, cls):
    """Mutating the input matrix after the call must not change the returned tree."""
    if not isinstance(arr, np.ndarray) or not arr.flags.writeable or arr.dtype == object:
        return
    s0 = t.to_newick()
    try:
        arr += 3
        s1 = t.to_newick()
    finally:
        arr[...] = before
    ctx.count("alias_checks")
    if s0 != s1:
        ctx.violation("%s|result_aliases_input|%s" % (site, cls),
                      "changing the input matrix after the call changed the returned tree", case, s0, s1)


def judge_upgma(ctx, t, D, case, cls, unit=1.0):
    n = len(D)
    if not check_leaf_set(ctx, "upgma", t, n, case, cls):
        return
    spec = extract(t.root)
    ctx.outcome(("upgma", t.to_newick()))
    ar = arities(spec)
    if any(a != 2 for a in ar) or len(ar) != n - 1:
        ctx.violation("upgma|shape|%s" % cls, "UPGMA tree is not a rooted binary tree", case, [2] * (n - 1), ar)
        return
    root, nodes = M.build(spec)
    scale = max(unit, max(max(r) for r in D))
    eps = 1e-5 * scale
    merges = []
    height = {}          # nid -> distance from the node down to the leaves below it (bottom-up)
    below = {}           # nid -> frozenset of leaf indices
    for nd in reversed(nodes):
        if nd.idx is not None:
            height[nd.nid] = 0.0
            below[nd.nid] = frozenset((nd.idx,))
            continue
        hs = [c.dist + height[c.nid] for c in nd.children]
        if max(hs) - min(hs) > eps:
            ctx.violation("upgma|not_ultrametric|%s" % cls, "leaves below a node are not equally distant from it",
                          case, "equal depths", hs)
            return
        height[nd.nid] = hs[0]
        A, B = below[nd.children[0].nid], below[nd.children[1].nid]
        below[nd.nid] = A | B
        merges.append((A, B))
        want = 0.5 * M.avg_link(D, A, B)
        if abs(hs[0] - want) > eps:
            sizes = "equal_sizes" if len(A) == len(B) else "unequal_sizes"
            ctx.violation("upgma|merge_height|%s|%s" % (cls, sizes),
                          "merge height differs from half the average linkage of the merged clusters", case,
                          {"clusters": [sorted(A), sorted(B)], "height": want}, hs[0])
            return
    if n <= 12 and not M.upgma_greedy_ok(D, merges, eps):
        ctx.violation("upgma|not_greedy_minimum|%s" % cls,
                      "the merges cannot be ordered so that each joins a minimum-distance pair of clusters", case,
                      "valid UPGMA merge order", [[sorted(a), sorted(b)] for a, b in merges])
        return
    # leaf-to-leaf queries on the returned tree equal explicit path sums
    leafnode = {nd.idx: nd for nd in nodes if nd.idx is not None}
    for i, j in _listed_pairs(n):
        got = t.get_distance(i, j)
        want = M.path_sum(leafnode[i], leafnode[j])
        if abs(got - want) > eps:
            ctx.violation("upgma|get_distance|%s" % cls, "get_distance differs from the explicit path sum", case,
                          want, got)
            return
    if n <= 4:
        light_roundtrip(ctx, "upgma", t, case, cls, unit)


def _listed_pairs(n):
    """all ordered pairs up to 12 leaves; above: (i, i+1 mod n), (0, j), (j, 0) for all i, j"""
    if n <= 12:
        return [(i, j) for i in range(n) for j in range(n)]
    out = [(i, (i + 1) % n) for i in range(n)] + [(0, j) for j in range(n)] + [(j, 0) for j in range(n)]
    return out


def _leaf(nodes, i):
    for nd in nodes:
        if nd.idx == i:
            return nd
    raise KeyError(i)


def light_roundtrip(ctx, site, t, case, cls, unit=1.0):
    """Newick round trip / copy / as_binary of an algorithm's result keep all leaf-to-leaf distances."""
    from biotite.sequence.phylo import Tree, as_binary

    n = len(t)
    base = {(i, j): t.get_distance(i, j) for i in range(n) for j in range(n)}
    variants = [("newick", lambda: Tree.from_newick(t.to_newick())),
                ("newick_spaces", lambda: Tree.from_newick(M.decorate(t.to_newick(), "multiline"))),
                ("copy", lambda: t.copy()), ("as_binary", lambda: as_binary(t))]
    for name, fn in variants:
        try:
            t2 = fn()
            got = {(i, j): t2.get_distance(i, j) for i in range(n) for j in range(n)}
        except Exception as e:  # noqa: BLE001
            ctx.violation("%s_result|%s_raises_%s|%s" % (site, name, type(e).__name__, cls),
                          "%s of the returned tree raised" % name, case, "same distances", repr(e))
            continue
        bad = [k for k in base if abs(base[k] - got[k]) > 1e-5 * max(unit, abs(base[k]))]
        if bad:
            ctx.violation("%s_result|%s_distances|%s" % (site, name, cls),
                          "%s of the returned tree changed leaf-to-leaf distances" % name, case,
                          base[bad[0]], got[bad[0]])
        if name in ("newick", "copy") and not (t2 == t and hash(t2) == hash(t)):
            ctx.violation("%s_result|%s_not_equal|%s" % (site, name, cls),
                          "%s of the returned tree does not compare equal to it" % name, case, True, False)


# ---------------------------------------------------------------------------
# additive space: NJ recovers tree metrics
# ---------------------------------------------------------------------------
def additive_class(n, lengths, edges):
    pend = [w for (u, v), w in zip(edges, lengths) if min(u, v) < n]
    inner = [w for (u, v), w in zip(edges, lengths) if min(u, v) >= n]
    z = ("zero_inner" if any(w == 0 for w in inner) else "") + ("zero_pendant" if any(w == 0 for w in pend) else "")
    return "n%d_%s" % (n, z or "positive")


def check_additive(ctx, case):
    from biotite.sequence.phylo import neighbor_joining

    n, edges, lengths = case["n"], [tuple(e) for e in case["edges"]], case["lengths"]
    sc = case.get("scale")
    cls = additive_class(n, lengths, edges)
    if sc is not None:
        lengths = [w * sc for w in lengths]
        cls += "|scale_small" if sc < 1 else "|scale_large"
    D = M.tree_metric(n, edges, lengths)
    unit = _unit(D, sc)
    arr = np.array(D, dtype=np.float64)
    try:
        t = neighbor_joining(arr)
    except Exception as e:  # noqa: BLE001
        ctx.violation("neighbor_joining|raises_%s|additive_%s" % (type(e).__name__, cls),
                      "neighbor_joining refused an additive matrix", case, "a tree", repr(e))
        return
    ctx.count("accepted")
    if not check_leaf_set(ctx, "neighbor_joining", t, n, case, "additive_" + cls):
        return
    spec = extract(t.root)
    root, nodes = M.build(spec)
    leaves = {nd.idx: nd for nd in nodes if nd.idx is not None}
    ctx.outcome(M.canon(spec, with_dist=False))
    for i in range(n):
        for j in range(i, n):
            want = D[i][j]
            got_model = M.path_sum(leaves[i], leaves[j])
            got_api = t.get_distance(i, j)
            got_api_r = t.get_distance(j, i)
            if abs(got_model - want) > 1e-4 * max(unit, want):
                ctx.violation("neighbor_joining|path_length|%s" % cls,
                              "a leaf-to-leaf path of the NJ tree differs from the additive input matrix", case,
                              {"pair": [i, j], "d": want}, got_model)
                return
            lim = 1e-5 * max(unit, abs(got_model))
            if abs(got_api - got_model) > lim or abs(got_api_r - got_model) > lim:
                ctx.violation("neighbor_joining|get_distance|%s" % cls,
                              "get_distance differs from the explicit path sum", case, got_model,
                              [got_api, got_api_r])
                return
    ar = arities(spec)
    if len(spec) != 3 or sorted(ar) != [2] * (len(ar) - 1) + [3]:
        ctx.violation("neighbor_joining|shape|additive_%s" % cls,
                      "tree is not binary with a three-way root (documented shape)", case, "root 3, others 2", ar)


# ---------------------------------------------------------------------------
# tree space
# ---------------------------------------------------------------------------
def palette_dists(name, n_edges, seed):
    b = DIST_BASES[seed % len(DIST_BASES)]
    m = MILLI_BASES[seed % len(MILLI_BASES)]
    if name == "ones":
        return [1.0] * n_edges
    if name == "half":
        return [0.5] * n_edges
    if name == "zero":
        return [0.0] * n_edges
    if name == "distinct":
        return [(k + 1) * b for k in range(n_edges)]
    if name == "milli":
        return [(k + 1) * m for k in range(n_edges)]
    if name == "ints":
        return [k + 1 for k in range(n_edges)]
    if name == "mixed":
        return [0.0 if k % 2 else (k + 2) * b for k in range(n_edges)]
    raise ValueError(name)


def label_sets(n, seed):
    k = seed % 5
    return [
        ("none", None),
        ("plain", LABELS_PLAIN[k][:n]),
        ("awkward", LABELS_AWKWARD[k][:n]),
        ("numeric_reversed", [str(n - 1 - i) for i in range(n)]),
        ("blank", [("it's a 'b'" if i == (k + 3) % 6 else x) for i, x in enumerate(LABELS_SPACE[k])][:n]),
        ("combined", LABELS_COMBINED[k][:n]),
        # empty piece: one label is the empty string (first / inner / last / only, by seed and size)
        ("empty", [("" if i == k % max(n, 1) else x) for i, x in enumerate(LABELS_PLAIN[k][:n])]),
        # boundary count: one label more than there are leaves
        ("longer", LABELS_PLAIN[k][:n] + ["unused"]),
    ]


def _cmp_parsed(p, spec, labels, incl, rd, impl_spec):
    """Compare the model reader's result with the model tree (ordered).  -> None or (what, exp, got)"""
    def rec(p, s, si, dist_model, dist_impl, is_root):
        if isinstance(s, int):
            if p[0] != "leaf":
                return ("structure", "leaf %r" % s, p[0])
            want = str(s) if labels is None else labels[s]
            if p[1] != want:
                return ("leaf_label", want, p[1])
            ln, tok = p[2], p[3]
        else:
            if p[0] != "inner" or len(p[1]) != len(s):
                return ("structure", "inner node with %d children" % len(s), [p[0], len(p[1]) if p[0] == "inner" else 0])
            if p[2] != "":
                return ("inner_label", "", p[2])
            for pc, (cs, cd), (ci, cdi) in zip(p[1], s, si):
                r = rec(pc, cs, ci, cd, cdi, False)
                if r:
                    return r
            ln, tok = p[3], p[4]
        if not incl:
            if ln is not None:
                return ("unexpected_length", None, ln)
            return None
        if is_root:
            if ln is not None and ln != 0:
                return ("root_length", 0, ln)
            return None
        if ln is None:
            return ("missing_length", dist_model, None)
        if rd is None:
            if ln != dist_impl:
                return ("length_not_exact", dist_impl, ln)
        else:
            if abs(ln - dist_impl) > 0.5 * 10 ** (-rd) * (1 + 1e-9) + 1e-12:
                return ("length_rounding", dist_impl, ln)
            frac = tok.split(".")[1] if "." in tok else ""
            if len(frac) != rd or "e" in tok.lower():
                return ("length_digits", "%d decimals" % rd, tok)
        return None

    return rec(p, spec, impl_spec, None, None, True)


def _cmp_clades(exp_map, got_spec, mode, rd):
    """exp_map: clade map with the expected distances.  mode: exact | rounded | zero.
    -> None or (what, exp, got)"""
    try:
        got = M.clade_map(got_spec)
    except Exception as e:  # noqa: BLE001
        return ("clade_map", "tree", repr(e))
    if set(got) != set(exp_map):
        return ("topology", sorted((sorted(k[0]), k[1]) for k in exp_map), sorted((sorted(k[0]), k[1]) for k in got))
    for k, d in exp_map.items():
        g = got[k]
        if d is None:
            if g is not None:
                return ("root_distance", None, g)
            continue
        if mode == "exact":
            if g != d:
                return ("distance_not_exact", d, g)
        elif mode == "rounded":
            if g is None or abs(g - d) > 0.5 * 10 ** (-rd) + tol(d):
                return ("distance_rounding", d, g)
        elif mode == "zero":
            if g != 0:
                return ("distance_not_zero", 0, g)
        elif mode == "close":
            if not close(g, d):
                return ("distance", d, g)
    return None


def check_tree(ctx, case):
    from biotite.sequence.phylo import Tree, TreeError, TreeNode, as_binary

    spec, pal = case["spec"], case.get("pal", "?")
    seed = case.get("seed", 0)
    cls = tree_class(spec)
    pcls = "%s|%s" % (cls, "float32_inexact" if pal == "milli" else ("zero_lengths" if pal in ("zero", "mixed") else "exact_lengths"))
    mroot, mnodes = M.build(spec)
    n = len(M.leaf_indices(mroot))

    def V(site, fail, what, exp=None, got=None, c=None):
        ctx.violation("%s|%s|%s" % (site, fail, c or cls), what, case, exp, got)

    # ---- construction
    try:
        root, inodes = build_impl(spec)
        tree = Tree(root)
    except Exception as e:  # noqa: BLE001
        V("construct", "raises_" + type(e).__name__, "a legal tree could not be built", "a tree", repr(e))
        return
    ctx.count("accepted")
    if not check_leaf_set(ctx, "Tree", tree, n, case, cls):
        return
    if tree.root is not root or not root.is_root():
        V("Tree.root", "identity", "Tree.root is not the node handed in / not marked as root", True, False)
        return
    for m, x in zip(mnodes, inodes):
        exp = {
            "is_leaf": m.idx is not None,
            "index": m.idx,
            "nchildren": None if m.idx is not None else len(m.children),
            "is_root": m is mroot,
            "leaf_count": len(M.leaf_indices(m)),
            "indices": M.leaf_indices(m),
        }
        ch = x.children
        got = {
            "is_leaf": x.is_leaf(),
            "index": x.index,
            "nchildren": None if ch is None else len(ch),
            "is_root": x.is_root(),
            "leaf_count": x.get_leaf_count(),
            "indices": [int(v) for v in x.get_indices()],
        }
        if exp != got:
            V("TreeNode.attributes", "mismatch", "node attributes differ from the model", exp, got)
            return
        if (x.parent is None) != (m.parent is None) or (m.parent is not None and x.parent is not inodes[m.parent.nid]):
            V("TreeNode.parent", "identity", "parent is not the constructing node", m.nid, None)
            return
        if ch is not None and any(a is not inodes[b.nid] for a, b in zip(ch, m.children)):
            V("TreeNode.children", "identity", "children are not the nodes handed in (in order)", m.nid, None)
            return
        gl = x.get_leaves()
        if len(gl) != len(exp["indices"]) or any(a is not inodes[_leaf(mnodes, i).nid] for a, i in zip(gl, exp["indices"])):
            V("TreeNode.get_leaves", "identity", "get_leaves() is not the list of leaf nodes below", exp["indices"], None)
            return
        d = x.distance
        if m.dist is None:
            if d is not None:
                V("TreeNode.distance", "root_not_None", "distance of a parentless node is not None", None, d)
                return
        elif d is None or abs(d - m.dist) > 1e-6 * abs(m.dist):
            V("TreeNode.distance", "value", "distance differs from the constructor argument", m.dist, d, pcls)
            return
    # ---- arrays / lists handed out are copies: changing them must not change the tree
    try:
        lv = tree.leaves
        lv.reverse()
        lv.append(None)
        del lv[0]
        ia = root.get_indices()
        if len(ia):
            ia[:] = 99
        gl = root.get_leaves()
        gl.clear()
        ch = root.children
    except Exception as e:  # noqa: BLE001
        V("Tree.leaves", "mutating_copy_raises_" + type(e).__name__, "changing a returned list/array raised", None, repr(e))
        return
    ctx.count("alias_checks")
    if not check_leaf_set(ctx, "Tree.leaves_after_mutating_returned_list", tree, n, case, cls):
        return
    if [int(v) for v in root.get_indices()] != M.leaf_indices(mroot) or len(root.get_leaves()) != n:
        V("TreeNode.get_indices", "aliases_internal_state", "changing the returned array/list changed the node",
          M.leaf_indices(mroot), [int(v) for v in root.get_indices()])
        return
    impl_spec = extract(root)           # same structure, distances as reported by biotite
    exp_map = M.clade_map(impl_spec)
    ctx.outcome(M.canon(impl_spec))

    # ---- queries = explicit path sums on the parent-pointer model
    table = M.pair_table(mnodes)
    for a in mnodes:
        xa = inodes[a.nid]
        for b in mnodes:
            xb = inodes[b.nid]
            want, ws, wt = table[(a.nid, b.nid)]
            got = xa.lowest_common_ancestor(xb)
            if got is not inodes[want]:
                V("lowest_common_ancestor", "wrong_node", "LCA differs from the model", want, None)
                return
            gs = xa.distance_to(xb)
            if abs(gs - ws) > tol(ws):
                V("distance_to", "metric", "distance_to differs from the explicit path sum", ws, gs, pcls)
                return
            gt = xa.distance_to(xb, True)
            if gt != wt:
                V("distance_to", "topological", "topological distance_to differs from the edge count", wt, gt)
                return
    leaf_d = {}
    leaf_nid = {m.idx: m.nid for m in mnodes if m.idx is not None}
    for i in range(n):
        for j in range(n):
            _, ws, wt = table[(leaf_nid[i], leaf_nid[j])]
            gs, gt = tree.get_distance(i, j), tree.get_distance(i, j, True)
            gt2 = tree.get_distance(i, j, topological=True)
            leaf_d[(i, j)] = gs
            if abs(gs - ws) > tol(ws) or gt != wt or gt2 != wt:
                V("Tree.get_distance", "value", "get_distance differs from the explicit path sum", [ws, wt], [gs, gt, gt2], pcls)
                return
    # nodes of another tree: documented None / TreeError
    other = Tree(TreeNode([TreeNode(index=0), TreeNode(index=1)], [1.0, 1.0]))
    x0 = inodes[-1]
    if x0.lowest_common_ancestor(other.leaves[0]) is not None:
        V("lowest_common_ancestor", "foreign_not_None", "LCA with a node of another tree is not None", None, "node")
    try:
        r = x0.distance_to(other.leaves[1])
        V("distance_to", "foreign_no_error", "distance to a node of another tree did not raise TreeError", "TreeError", r)
    except TreeError:
        ctx.count("refused")
    except Exception as e:  # noqa: BLE001
        V("distance_to", "foreign_wrong_error_" + type(e).__name__, "wrong exception class", "TreeError", repr(e))

    # ---- Newick writer (model reader) and reader (clade maps)
    if str(tree) != tree.to_newick():
        V("Tree.__str__", "differs", "str(tree) differs from to_newick()", tree.to_newick(), str(tree))
    for lname, labels in label_sets(n, seed):
        combos = [(True, None), (False, None)] + ([(True, r) for r in ROUNDS] if lname not in ("blank", "empty", "longer", "combined") else [])
        lcls = "labels_" + lname
        labels0 = None if labels is None else list(labels)
        if lname in ("empty", "longer", "combined") and pal not in ("ones", "distinct"):
            continue
        for incl, rd in combos:
            ocls = "%s|%s|%s" % (cls, lcls, "no_distance" if not incl else ("exact" if rd is None else "rounded"))
            try:
                kw = {}
                if labels is not None:
                    kw["labels"] = labels
                if not incl:
                    kw["include_distance"] = False
                if rd is not None:
                    kw["round_distance"] = rd
                s = tree.to_newick(**kw)
            except Exception as e:  # noqa: BLE001
                V("to_newick", "raises_" + type(e).__name__, "writer raised for legal options", "a string", repr(e), ocls)
                continue
            ctx.count("newick_written")
            try:
                p = M.newick_parse(s)
                bad = _cmp_parsed(p, spec, labels, incl, rd, impl_spec)
            except M.NewickError as e:
                bad = ("not_newick", "Newick", "%s: %s" % (e, s))
            if bad:
                V("to_newick", bad[0], "the written string does not describe the tree: " + s[:200], bad[1], bad[2], ocls)
                continue
            mode = "zero" if not incl else ("exact" if rd is None else "rounded")
            styles = ["plain"]
            if lname in ("none", "plain", "blank") and rd is None:
                styles += ["comma_space", "multiline", "colon_space", "no_semicolon"]
            elif lname == "combined":
                styles += ["multiline", "colon_space"]          # awkward label AND whitespace decoration
            for style in styles:
                s2 = M.decorate(s, style)
                ctx.count("newick_read")
                try:
                    t2 = Tree.from_newick(s2, labels=labels) if labels is not None else Tree.from_newick(s2)
                    spec2 = extract(t2.root)
                    n2 = len(t2)
                except Exception as e:  # noqa: BLE001
                    if lname == "empty" and "()" in "".join(s2.split()):
                        # an only child with an empty name and no length is written as "()", which biotite's own
                        # tests define as invalid Newick -> unspecified
                        ctx.count("unspecified")
                        continue
                    V("from_newick", "raises_" + type(e).__name__,
                      "reader raised on a string the writer emitted (%s): %r" % (style, s2[:200]), "tree", repr(e),
                      "label_contains_whitespace" if lname == "blank" and any(_has_blank(x) for x in labels)
                      else ocls + ("" if style == "plain" else "|" + style))
                    continue
                bad = _cmp_clades(exp_map, spec2, mode, rd) if n2 == n else ("leaf_count", n, n2)
                if not bad and style == "plain":
                    # the statement literally: all leaf-to-leaf distances
                    for (i, j), d in leaf_d.items():
                        g = t2.get_distance(i, j)
                        w = 0.0 if mode == "zero" else d
                        lim = tol(w) if mode != "rounded" else tol(w) + 10 ** (-rd) * len(mnodes)
                        if abs(g - w) > lim:
                            bad = ("leaf_distance", w, g)
                            break
                    if not bad and not check_leaf_set(ctx, "from_newick", t2, n, case, ocls):
                        continue
                    if not bad and mode == "exact" and not (t2 == tree and tree == t2 and hash(t2) == hash(tree)):
                        bad = ("not_equal_to_original", True, False)
                if bad:
                    V("from_newick", bad[0], "tree read back from %r (%s) differs" % (s2[:200], style), bad[1], bad[2],
                      ocls + ("" if style == "plain" else "|" + style))
            if incl and rd is None and lname == "none":
                # TreeNode-level reader: (node, distance), no terminal semicolon
                try:
                    nd, dist = TreeNode.from_newick(s[:-1])
                    bad = _cmp_clades(exp_map, extract(nd), "exact", None)
                    if not bad and dist != 0:
                        bad = ("root_distance_returned", 0, dist)
                except Exception as e:  # noqa: BLE001
                    bad = ("raises_" + type(e).__name__, "node", repr(e))
                if bad:
                    V("TreeNode.from_newick", bad[0], "node read back from %r differs" % s[:200], bad[1], bad[2], ocls)
        if labels != labels0:
            V("to_newick/from_newick", "labels_argument_modified", "the labels list was changed by the call", labels0, labels, lcls)
    # structure characters inside a label: statement silent -> refused or round-tripped
    if pal == "ones" and n >= 1:
        for ch in ILLEGAL:
            labels = list(LABELS_PLAIN[seed % 5][:n])
            labels[n - 1] = labels[n - 1] + ch + "q"
            try:
                s = tree.to_newick(labels=labels)
            except Exception:  # noqa: BLE001
                ctx.count("unspecified")
                continue
            ctx.count("unspecified")
            try:
                t2 = Tree.from_newick(s, labels=labels)
                bad = _cmp_clades(exp_map, extract(t2.root), "exact", None)
            except Exception as e:  # noqa: BLE001
                bad = ("raises_" + type(e).__name__, "tree", repr(e))
            if bad:
                V("to_newick", "accepts_unreadable_label", "label with %r accepted but not readable back: %r" % (ch, s[:200]),
                  bad[1], bad[2], cls + "|structure_char_in_label")

    # ---- copy
    try:
        c = tree.copy()
        cspec = extract(c.root)
    except Exception as e:  # noqa: BLE001
        V("Tree.copy", "raises_" + type(e).__name__, "copy raised", "tree", repr(e))
        c = None
    if c is not None:
        bad = None
        if cspec != impl_spec:
            bad = ("structure", impl_spec, cspec)
        elif {id(x) for x in all_nodes(c.root)} & {id(x) for x in inodes}:
            bad = ("shares_nodes", "deep copy", "shared TreeNode objects")
        elif not (c == tree and tree == c) or (c != tree) or hash(c) != hash(tree):
            bad = ("not_equal", True, False)
        elif not c.root.is_root() or c.root.parent is not None:
            bad = ("root_flag", True, False)
        elif not check_leaf_set(ctx, "Tree.copy", c, n, case, cls):
            bad = None
        elif any(abs(c.get_distance(i, j) - d) > 0 for (i, j), d in leaf_d.items()):
            bad = ("leaf_distance", "unchanged", "changed")
        if bad:
            V("Tree.copy", bad[0], "the copy differs from the tree", bad[1], bad[2])
    for m, x in zip(mnodes, inodes):
        if m.idx is None and m is not mroot:
            try:
                xc = x.copy()
                ok = extract(xc) == extract(x) and xc.parent is None and xc.distance is None and not xc.is_root()
            except Exception as e:  # noqa: BLE001
                ok = False
            if not ok:
                V("TreeNode.copy", "differs", "copy of an inner node differs from the documented deep copy", None, None)
                break

    # ---- == must see a changed distance / swapped leaves
    if n >= 2:
        var = []
        e0 = json.loads(json.dumps(spec))
        e0[0][1] = e0[0][1] + 0.5
        var.append(("distance_changed", e0))
        var.append(("leaves_swapped", _swap01(spec)))
        for name, vs in var:
            same = M.canon(vs) == M.canon(spec)
            try:
                vt = Tree(build_impl(vs)[0])
                r1, r2 = (tree == vt), (vt == tree)
            except Exception:  # noqa: BLE001
                ctx.count("unspecified")
                continue
            if r1 != same or r2 != same or (same and hash(vt) != hash(tree)):
                V("Tree.__eq__", "wrong_" + name, "== disagrees with the canonical forms", same, [r1, r2])

    # ---- as_binary
    for target in ("tree", "node"):
        try:
            b = as_binary(tree if target == "tree" else tree.root)
        except Exception as e:  # noqa: BLE001
            V("as_binary(%s)" % target, "raises_" + type(e).__name__, "as_binary raised", "binary tree", repr(e))
            continue
        if target == "node":
            if isinstance(b, tuple):
                ctx.violation("as_binary(TreeNode)|returns_tuple_not_TreeNode|any_node",
                              "as_binary(TreeNode) returns a (node, distance) tuple instead of the documented TreeNode",
                              case, "TreeNode", [type(v).__name__ for v in b])
                b = b[0]
            if not isinstance(b, TreeNode):
                V("as_binary(node)", "wrong_type", "result is not a TreeNode", "TreeNode", type(b).__name__)
                continue
            bspec = extract(b)
        else:
            if not isinstance(b, Tree):
                V("as_binary(tree)", "wrong_type", "result is not a Tree", "Tree", type(b).__name__)
                continue
            if not check_leaf_set(ctx, "as_binary", b, n, case, cls):
                continue
            bspec = extract(b.root)
        ar = arities(bspec)
        bad = None
        if any(a != 2 for a in ar):
            bad = ("not_binary", 2, ar)
        else:
            bd = M.all_leaf_distances(bspec)
            for k, d in leaf_d.items():
                if k not in bd or abs(bd[k] - d) > tol(d):
                    bad = ("leaf_distance", d, bd.get(k))
                    break
            if not bad:
                oc = {k[0] for k in exp_map}
                bc = {k[0] for k in M.clade_map(bspec)}
                if not oc <= bc:
                    bad = ("clade_lost", sorted(sorted(x) for x in oc), sorted(sorted(x) for x in bc))
        if not bad and target == "tree":
            for (i, j), d in leaf_d.items():
                if abs(b.get_distance(i, j) - d) > tol(d):
                    bad = ("get_distance", d, b.get_distance(i, j))
                    break
        if not bad and extract(root) != impl_spec:
            bad = ("argument_modified", impl_spec, extract(root))
        if not bad:
            # result identity: a NEW tree, also when nothing has to be done (already binary, single leaf)
            bnodes = all_nodes(b if target == "node" else b.root)
            if b is tree or b is root or {id(x) for x in bnodes} & {id(x) for x in inodes}:
                bad = ("result_is_or_shares_operand", "new nodes", "shared TreeNode objects")
            ctx.count("identity_checks")
        if bad:
            V("as_binary(%s)" % target, bad[0], "binary form differs from the tree", bad[1], bad[2], pcls)

    # ---- as_graph
    try:
        g = tree.as_graph()
        got = {(u, v): d for u, v, d in g.edges(data="distance")}
    except Exception as e:  # noqa: BLE001
        V("as_graph", "raises_" + type(e).__name__, "as_graph raised", "graph", repr(e))
        got = None
    if got is not None:
        # result identity: the graph is a new object every time; emptying it changes neither the tree nor the next graph
        try:
            g.clear()
            g.add_edge("x", "y", distance=-1.0)
            g2 = tree.as_graph()
            got2 = {(u, v): d for u, v, d in g2.edges(data="distance")}
            ctx.count("identity_checks")
            if g2 is g or got2 != got or not same_spec(extract(root), impl_spec):
                V("as_graph", "result_shared_between_calls", "editing a returned graph changed the tree / the next graph",
                  sorted(map(repr, got.items())), sorted(map(repr, got2.items())))
        except Exception as e:  # noqa: BLE001
            V("as_graph", "second_call_raises_" + type(e).__name__, "as_graph after editing the first result raised", None, repr(e))

        def rep(s):
            return s if isinstance(s, int) else tuple(rep(c) for c, _ in s)

        exp = {}

        def walk(s):
            if isinstance(s, int):
                return
            for c, d in s:
                exp[(rep(s), rep(c))] = d
                walk(c)

        walk(impl_spec)
        if set(exp) != set(got) or any(got[k] != exp[k] for k in exp):
            V("as_graph", "edges", "graph edges differ from the parent-child pairs", sorted(map(repr, exp.items())),
              sorted(map(repr, got.items())))


def _has_blank(label):
    return any(ch.isspace() for ch in label)


def _swap01(spec):
    if isinstance(spec, int):
        return {0: 1, 1: 0}.get(spec, spec)
    return [[_swap01(c), d] for c, d in spec]


# ---------------------------------------------------------------------------
# labeling / misuse / eqpairs
# ---------------------------------------------------------------------------
def check_labeling(ctx, case):
    from biotite.sequence.phylo import Tree

    shape, idx = case["shape"], case["idx"]
    n = len(idx)
    spec = M.instantiate(shape, idx, [1.0] * 64)
    valid = sorted(idx) == list(range(n))
    oor = any(i >= n for i in idx)
    try:
        tree = Tree(build_impl(spec)[0])
        err = None
    except Exception as e:  # noqa: BLE001
        tree, err = None, e
    ctx.outcome((valid, oor, type(err).__name__))
    if valid:
        ctx.count("accepted")
        if err is not None:
            ctx.violation("Tree.__init__|raises_%s|bijective_labeling" % type(err).__name__,
                          "a valid leaf labelling was refused", case, "tree", repr(err))
        else:
            check_leaf_set(ctx, "Tree.__init__", tree, n, case, "bijective_labeling")
        return
    ctx.count("refused")
    if err is not None:
        if oor and type(err).__name__ != "TreeError":
            ctx.violation("Tree.__init__|wrong_error_%s|leaf_index_out_of_range" % type(err).__name__,
                          "documented TreeError expected", case, "TreeError", repr(err))
        return
    leaves = tree.leaves
    coherent = all(lf is not None and lf.index == i for i, lf in enumerate(leaves))
    if not oor:
        # a hand-built tree with a duplicated leaf index: the statement speaks about the trees the
        # clustering functions return and about valid trees; refusing this misuse is not demanded
        ctx.count("unspecified")
        ctx.count("unspecified_duplicate_leaf_index_accepted")
        return
    ctx.violation("Tree.__init__|accepts_%s|%s" % ("incoherent_leaves" if not coherent else "labeling",
                                                    "leaf_index_out_of_range" if oor else "duplicate_leaf_index"),
                  "a tree whose leaf indices are not exactly 0..n-1 was accepted; Tree.leaves = %r"
                  % [None if lf is None else lf.index for lf in leaves], case, "an exception", "Tree of length %d" % len(tree))


MISUSE = ["same_object_twice", "child_has_parent", "child_is_root", "child_in_tree", "length_mismatch_short",
          "length_mismatch_long", "non_node_child", "non_number_distance"]


def check_misuse(ctx, case):
    from biotite.sequence.phylo import Tree, TreeError, TreeNode

    sc = case["scenario"]
    ctx.count("refused")

    def expect(fn, classes, site, cls):
        try:
            r = fn()
        except classes:
            return True
        except Exception as e:  # noqa: BLE001
            ctx.violation("%s|wrong_error_%s|%s" % (site, type(e).__name__, cls), "wrong exception class", case,
                          [c.__name__ for c in classes], repr(e))
            return True
        ctx.violation("%s|no_error|%s" % (site, cls), "documented refusal did not happen", case,
                      [c.__name__ for c in classes], repr(r))
        return False

    if sc in MISUSE:
        k, pos = case["k"], case["pos"]
        kids = [TreeNode(index=i) for i in range(k)]
        dists = [1.0] * k
        keep = []
        classes = (TreeError,)
        if sc == "same_object_twice":
            kids[pos] = kids[(pos + 1) % k]
        elif sc == "child_has_parent":
            keep.append(TreeNode([kids[pos]], [2.0]))
        elif sc == "child_is_root":
            kids[pos].as_root()
        elif sc == "child_in_tree":
            kids[pos] = TreeNode([TreeNode(index=0), TreeNode(index=1)], [1.0, 1.0])
            keep.append(Tree(kids[pos]))
        elif sc == "length_mismatch_short":
            dists = dists[:-1]
            classes = (ValueError,)
        elif sc == "length_mismatch_long":
            dists = dists + [1.0]
            classes = (ValueError,)
        elif sc == "non_node_child":
            kids[pos] = pos
            classes = (TypeError,)
        elif sc == "non_number_distance":
            dists[pos] = "1.0"
            classes = (TypeError,)
        state0 = [(x.parent, x.distance, x.is_root()) if isinstance(x, TreeNode) else None for x in kids]
        expect(lambda: TreeNode(kids, dists), classes, "TreeNode.__init__", sc)
        state1 = [(x.parent, x.distance, x.is_root()) if isinstance(x, TreeNode) else None for x in kids]
        if state0 != state1 and sc in ("child_has_parent", "child_is_root", "child_in_tree"):
            # a refused construction that already re-parented the children before the offending one:
            # atomic failure is not part of the statement -> recorded, not a violation
            ctx.count("unspecified_refusal_not_atomic")
        elif state0 != state1:
            changed = [i for i in range(k) if state0[i] != state1[i]]
            ctx.violation("TreeNode.__init__|earlier_children_keep_failed_parent|unavailable_child_after_first"
                          if sc in ("child_has_parent", "child_is_root", "child_in_tree")
                          else "TreeNode.__init__|state_changed_after_refusal|%s" % sc,
                          "a refused TreeNode construction left a parent set on the children before the offending one",
                          case, "children unchanged", {"changed_positions": changed})
        else:
            ctx.outcome((sc, "atomic"))
        ctx.outcome((sc, k, pos, state0 != state1))
        return
    if sc == "no_arguments":
        expect(lambda: TreeNode(), (TypeError,), "TreeNode.__init__", sc)
    elif sc == "index_and_children":
        a = TreeNode(index=0)
        expect(lambda: TreeNode([a], [1.0], index=1), (TypeError,), "TreeNode.__init__", sc)
        if a.parent is not None:
            ctx.violation("TreeNode.__init__|state_changed_after_refusal|%s" % sc, "child got a parent", case)
    elif sc == "index_and_distances":
        expect(lambda: TreeNode(index=0, distances=[1.0]), (TypeError,), "TreeNode.__init__", sc)
    elif sc == "children_without_distances":
        a = TreeNode(index=0)
        expect(lambda: TreeNode([a]), (TypeError,), "TreeNode.__init__", sc)
    elif sc == "empty_children":
        expect(lambda: TreeNode([], []), (TreeError,), "TreeNode.__init__", sc)
    elif sc == "negative_index":
        expect(lambda: TreeNode(index=-1), (ValueError,), "TreeNode.__init__", sc)
    elif sc == "tree_of_none":
        expect(lambda: Tree(None), (TypeError,), "Tree.__init__", sc)
    elif sc == "tree_of_child":
        a, b = TreeNode(index=0), TreeNode(index=1)
        p = TreeNode([a, b], [1.0, 1.0])
        expect(lambda: Tree(a), (TreeError,), "Tree.__init__", sc)
        if a.is_root() or a.parent is not p:
            ctx.violation("Tree.__init__|state_changed_after_refusal|%s" % sc, "child node changed", case)
        t = Tree(p)
        check_leaf_set(ctx, "Tree.__init__", t, 2, case, "after_refused_misuse")
    elif sc == "root_as_child":
        a, b = TreeNode(index=0), TreeNode(index=1)
        p = TreeNode([a, b], [1.0, 1.0])
        t = Tree(p)
        expect(lambda: TreeNode([p], [1.0]), (TreeError,), "TreeNode.__init__", sc)
        if p.parent is not None or extract(t.root) != [[0, 1.0], [1, 1.0]]:
            ctx.violation("TreeNode.__init__|state_changed_after_refusal|%s" % sc, "tree changed", case)
    else:
        raise ValueError(sc)
    ctx.outcome(sc)


def eq_universe():
    specs = []
    for n in (1, 2, 3):
        for sh in M.shapes(n, 1):
            ne = M.shape_stats(sh)[3]
            for perm in itertools.permutations(range(n)):
                for d in ([1.0] * ne, [float(k + 1) for k in range(ne)]):
                    s = M.instantiate(sh, perm, d)
                    if s not in specs:
                        specs.append(s)
    return specs


def check_eqpair(ctx, case):
    from biotite.sequence.phylo import Tree

    a, b = case["a"], case["b"]
    same = M.canon(a) == M.canon(b)
    ta, tb = Tree(build_impl(a)[0]), Tree(build_impl(b)[0])
    try:
        r = ta == tb
        r2 = ta != tb
    except Exception as e:  # noqa: BLE001
        ctx.count("unspecified")
        ctx.count("eq_raises_" + type(e).__name__)
        ctx.outcome(("raises", type(e).__name__))
        if same:
            ctx.violation("Tree.__eq__|raises_%s|equal_trees" % type(e).__name__, "== raised for equal trees", case,
                          True, repr(e))
        return
    ctx.count("accepted")
    ctx.outcome((same, r))
    if r != same or r2 == same:
        ctx.violation("Tree.__eq__|wrong_result|%s" % ("equal_trees" if same else "different_trees"),
                      "== disagrees with equality of the order-free canonical forms", case, same, [r, r2])
    elif same and hash(ta) != hash(tb):
        ctx.violation("Tree.__hash__|differs|equal_trees", "equal trees hash differently", case)



# ---------------------------------------------------------------------------
# dimension families added by the audit: API flavours, many items, refusals, nesting depth
# ---------------------------------------------------------------------------
ACCEPT_FLAVOURS = ["children_tuple", "children_objarray", "dist_tuple", "dist_f64array", "dist_npf64_list",
                   "labels_tuple", "labels_nparray"]
EITHER_FLAVOURS = ["dist_f32array", "dist_i64array", "index_npint64", "index_npuint8", "index_npint32", "index_0d",
                   "index_bool", "getdist_npint64", "getdist_npuint8", "getdist_0d", "topological_npbool",
                   "topological_int", "round_npint64", "incl_npbool", "incl_int0", "reader_labels_tuple",
                   "newick_str_subclass"]


class _Str(str):
    pass


def build_impl_flavoured(spec, flav):
    from biotite.sequence.phylo import TreeNode

    def idx(i):
        return {"index_npint64": np.int64, "index_npuint8": np.uint8, "index_npint32": np.int32,
                "index_0d": np.array, "index_bool": (lambda v: bool(v) if v in (0, 1) else v)}.get(flav, int)(i)

    def rec(s):
        if isinstance(s, int):
            return TreeNode(index=idx(s))
        kids = [rec(cs) for cs, _ in s]
        dl = [float(d) for _, d in s]
        if flav == "children_tuple":
            kids = tuple(kids)
        elif flav == "children_objarray":
            a = np.empty(len(kids), dtype=object)
            a[:] = kids
            kids = a
        if flav == "dist_tuple":
            dl = tuple(dl)
        elif flav == "dist_f64array":
            dl = np.array(dl, dtype=np.float64)
        elif flav == "dist_npf64_list":
            dl = [np.float64(d) for d in dl]
        elif flav == "dist_f32array":
            dl = np.array(dl, dtype=np.float32)
        elif flav == "dist_i64array":
            dl = np.array([int(round(d * 4)) for d in dl], dtype=np.int64)
        return TreeNode(kids, dl)

    return rec(spec)


def check_treeflav(ctx, case):
    """Differential: the same tree / query / string through another argument flavour equals the result with
    plain Python types (ACCEPT flavours: documented 'array-like' / 'iterable'); EITHER flavours may also raise."""
    from biotite.sequence.phylo import Tree

    spec, flav = case["spec"], case["flav"]
    n = len(M.spec_leaves(spec))
    plain_spec = spec
    if flav == "dist_i64array":
        plain_spec = json.loads(json.dumps(spec), parse_float=lambda x: float(int(round(float(x) * 4))))
    plain = Tree(build_impl(plain_spec)[0])
    labels = LABELS_PLAIN[0][:n]
    must = flav in ACCEPT_FLAVOURS

    def run():
        if flav.startswith(("children_", "dist_", "index_")):
            t = Tree(build_impl_flavoured(spec, flav))
            return ("tree", extract(t.root), [lf.index for lf in t.leaves], t.to_newick()), \
                   ("tree", extract(plain.root), [lf.index for lf in plain.leaves], plain.to_newick())
        if flav.startswith("getdist_"):
            conv = {"getdist_npint64": np.int64, "getdist_npuint8": np.uint8, "getdist_0d": np.array}[flav]
            return [plain.get_distance(conv(i), conv(j)) for i in range(n) for j in range(n)], \
                   [plain.get_distance(i, j) for i in range(n) for j in range(n)]
        if flav.startswith("topological_"):
            v = np.bool_(True) if flav == "topological_npbool" else 1
            return [plain.get_distance(i, j, v) for i in range(n) for j in range(n)], \
                   [plain.get_distance(i, j, True) for i in range(n) for j in range(n)]
        if flav == "labels_tuple":
            return plain.to_newick(labels=tuple(labels)), plain.to_newick(labels=labels)
        if flav == "labels_nparray":
            return plain.to_newick(labels=np.array(labels)), plain.to_newick(labels=labels)
        if flav == "round_npint64":
            return plain.to_newick(round_distance=np.int64(2)), plain.to_newick(round_distance=2)
        if flav == "incl_npbool":
            return plain.to_newick(include_distance=np.bool_(False)), plain.to_newick(include_distance=False)
        if flav == "incl_int0":
            return plain.to_newick(include_distance=0), plain.to_newick(include_distance=False)
        if flav == "reader_labels_tuple":
            s = plain.to_newick(labels=labels)
            return extract(Tree.from_newick(s, labels=tuple(labels)).root), extract(Tree.from_newick(s, labels=labels).root)
        if flav == "newick_str_subclass":
            s = plain.to_newick()
            return extract(Tree.from_newick(_Str(s)).root), extract(Tree.from_newick(s).root)
        raise ValueError(flav)

    try:
        got, want = run()
    except Exception as e:  # noqa: BLE001
        if must:
            ctx.violation("flavour|raises_%s|%s" % (type(e).__name__, flav),
                          "a documented array-like / iterable argument flavour was refused", case, "as with lists", repr(e))
        else:
            ctx.count("unspecified")
            ctx.count("flavour_refused_" + flav)
        return
    ctx.count("accepted")
    ctx.outcome((flav, repr(got)[:200]))
    if got != want:
        ctx.violation("flavour|differs_from_plain_types|%s" % flav,
                      "the result differs from the one obtained with plain Python types", case, want, got)


def run_treeflav(shard, ctx):
    b = DIST_BASES[ctx.seed % len(DIST_BASES)]
    for n in (1, 2, 3):
        for sh in M.shapes(n, 1):
            ne = M.shape_stats(sh)[3]
            spec = M.instantiate(sh, list(range(n)), [(k + 1) * b for k in range(ne)])
            for flav in ACCEPT_FLAVOURS + EITHER_FLAVOURS:
                case = {"kind": "treeflav", "spec": spec, "flav": flav}
                if not ctx.journal(case):
                    continue
                ctx.ev(1, 1)
                check_treeflav(ctx, case)
    ctx.sample(case)


# ---- many items -------------------------------------------------------------
def _coprime_step(n):
    for m in (7, 11, 13, 17, 3, 5, 1):
        if math.gcd(m, n) == 1:
            return m
    return 1


def big_spec(shape, n, base):
    """Listed large trees; leaf at position i gets index (i*m+1) % n (m coprime to n); edge k gets length
    ((k % 17) + 1) * base."""
    m = _coprime_step(n)
    k = [0]

    def d():
        k[0] += 1
        return ((k[0] - 1) % 17 + 1) * base

    def leaf(i):
        return (i * m + 1) % n

    if shape == "star":
        return [[leaf(i), d()] for i in range(n)]
    if shape == "caterpillar":
        spec = leaf(0)
        for i in range(1, n):
            spec = [[spec, d()], [leaf(i), d()]]
        return spec
    if shape == "balanced":
        def rec(lo, hi):
            if hi - lo == 1:
                return leaf(lo)
            mid = (lo + hi) // 2
            return [[rec(lo, mid), d()], [rec(mid, hi), d()]]
        return rec(0, n)
    if shape == "broom":          # root with unary-over-leaf, cherry and three-way children in turn
        kids, i, turn = [], 0, 0
        while i < n:
            w = min((1, 2, 3)[turn % 3], n - i)
            turn += 1
            if w == 1:
                kids.append([[[leaf(i), d()]], d()])
            else:
                kids.append([[[leaf(i + j), d()] for j in range(w)], d()])
            i += w
        return kids
    raise ValueError(shape)


def _big_pairs(n):
    if n <= 130:
        return _listed_pairs(n)
    step = max(1, n // 40)
    return ([(0, n - 1), (n - 1, 0), (0, 1), (n // 2, n // 2 + 1), (1, n - 2), (n // 3, 2 * n // 3)]
            + [(i, (i + 1) % n) for i in range(0, n, step)])


def big_matrix(n):
    """symmetric, zero diagonal, (almost) all entries distinct, 1 <= d < 158"""
    D = [[0.0] * n for _ in range(n)]
    for a in range(n):
        for b in range(a + 1, n):
            D[a][b] = D[b][a] = 1 + ((a * 7919 + b * 104729 + a * b * 31) % 10007) / 64
    return D


def chain_matrix(n):
    """d(a,b) = 2*max(a,b) + small distinct offsets: average linkage adds the taxa one by one (caterpillar), so the
    growing cluster's size passes every count up to n-1 while other clusters are still present"""
    D = [[0.0] * n for _ in range(n)]
    for a in range(n):
        for b in range(a + 1, n):
            D[a][b] = D[b][a] = 2.0 * b + ((a * 7 + b * 3) % 5) / 16
    return D


def same_spec(a, b):
    """equality of two tree specifications without recursion"""
    st = [(a, b)]
    while st:
        x, y = st.pop()
        if isinstance(x, int) or isinstance(y, int):
            if not (isinstance(x, int) and isinstance(y, int) and x == y):
                return False
            continue
        if len(x) != len(y):
            return False
        for (cx, dx), (cy, dy) in zip(x, y):
            if dx != dy:
                return False
            st.append((cx, cy))
    return True


def size_class(n):
    return "n_%d_digits" % len(str(n - 1)) if n <= 1001 else "n_gt_1001"


def check_big(ctx, case):
    import sys

    from biotite.sequence.phylo import Tree, as_binary, neighbor_joining, upgma

    what, n = case["what"], case["n"]
    cls = size_class(n)
    if sys.getrecursionlimit() < 6 * n + 2000:
        sys.setrecursionlimit(6 * n + 2000)       # for the (recursive, pure Python) reference model
    base = DIST_BASES[case.get("seed", 0) % len(DIST_BASES)]

    def V(site, fail, msg, exp=None, got=None):
        ctx.violation("%s|%s|%s" % (site, fail, cls), msg, case, exp, got)

    if what == "tree":
        spec = big_spec(case["shape"], n, base)
        try:
            root, inodes = build_impl(spec)
            tree = Tree(root)
        except Exception as e:  # noqa: BLE001
            V("construct", "raises_" + type(e).__name__, "a legal large tree could not be built", "tree", repr(e))
            return
        ctx.count("accepted")
        if not check_leaf_set(ctx, "Tree", tree, n, case, cls):
            return
        mroot, mnodes = M.build(spec)
        leafnode = {m.idx: m for m in mnodes if m.idx is not None}
        pairs = _big_pairs(n)
        ld = {}
        for i, j in pairs:
            w = M.path_sum(leafnode[i], leafnode[j])
            g = tree.get_distance(i, j)
            ld[(i, j)] = g
            wt = M.path_sum(leafnode[i], leafnode[j], True)
            if abs(g - w) > tol(w) or tree.get_distance(i, j, True) != wt:
                V("Tree.get_distance", "value", "get_distance differs from the explicit path sum", [w, wt],
                  [g, tree.get_distance(i, j, True)])
                return
        impl_spec = extract(root)
        small = n <= 300
        exp_map = M.clade_map(impl_spec)
        label_opts = [("none", None)]
        if small:
            label_opts += [("plain", ["t%d" % i for i in range(n)]), ("numeric_reversed", [str(n - 1 - i) for i in range(n)])]
        for lname, labels in label_opts:
            for incl in ((True, False) if small else (True,)):
                kw = {} if labels is None else {"labels": labels}
                if not incl:
                    kw["include_distance"] = False
                ocls = "labels_%s|%s" % (lname, "exact" if incl else "no_distance")
                try:
                    s = tree.to_newick(**kw)
                    bad = _cmp_parsed(M.newick_parse(s), spec, labels, incl, None, impl_spec)
                except Exception as e:  # noqa: BLE001
                    bad = ("raises_" + type(e).__name__, "string", repr(e)[:300])
                    s = None
                ctx.count("newick_written")
                if bad:
                    V("to_newick", bad[0] + "|" + ocls, "the written string does not describe the tree", bad[1], bad[2])
                    continue
                try:
                    t2 = Tree.from_newick(s, labels=labels) if labels is not None else Tree.from_newick(s)
                    bad = _cmp_clades(exp_map, extract(t2.root), "exact" if incl else "zero", None)
                    if not bad and incl and _equal(ctx, t2, tree) is False:
                        bad = ("not_equal_to_original", True, False)
                    if not bad and incl:
                        for (i, j), g in ld.items():
                            if t2.get_distance(i, j) != g:
                                bad = ("leaf_distance", g, t2.get_distance(i, j))
                                break
                except Exception as e:  # noqa: BLE001
                    bad = ("raises_" + type(e).__name__, "tree", repr(e)[:300])
                ctx.count("newick_read")
                if bad:
                    V("from_newick", bad[0] + "|" + ocls, "tree read back differs", bad[1], bad[2])
        try:
            c = tree.copy()
            bad = None
            if not same_spec(extract(c.root), impl_spec):
                bad = ("structure", None, None)
            elif _equal(ctx, c, tree) is False:
                bad = ("not_equal", True, False)
        except Exception as e:  # noqa: BLE001
            bad = ("raises_" + type(e).__name__, "tree", repr(e)[:300])
        if bad:
            V("Tree.copy", bad[0], "the copy differs from the tree", bad[1], bad[2])
        try:
            b = as_binary(tree)
            bspec = extract(b.root)
            bad = None
            if any(a != 2 for a in arities(bspec)):
                bad = ("not_binary", 2, sorted(set(arities(bspec))))
            elif not check_leaf_set(ctx, "as_binary", b, n, case, cls):
                bad = None
            else:
                for (i, j), g in ld.items():
                    if abs(b.get_distance(i, j) - g) > tol(g):
                        bad = ("leaf_distance", g, b.get_distance(i, j))
                        break
                if not bad and small and not {k[0] for k in exp_map} <= {k[0] for k in M.clade_map(bspec)}:
                    bad = ("clade_lost", None, None)
        except Exception as e:  # noqa: BLE001
            bad = ("raises_" + type(e).__name__, "tree", repr(e)[:300])
        if bad:
            V("as_binary(tree)", bad[0], "binary form differs from the tree", bad[1], bad[2])
        ctx.outcome((case["shape"], n))
        return

    if what == "cluster":
        D = chain_matrix(n) if case.get("matrix") == "chain" else big_matrix(n)
        cls += "|" + case.get("matrix", "scattered")
        arr = np.array(D)
        try:
            t = upgma(arr)
        except Exception as e:  # noqa: BLE001
            V("upgma", "raises_" + type(e).__name__, "upgma refused a legal matrix", "tree", repr(e))
            t = None
        if t is not None:
            ctx.count("accepted")
            judge_upgma(ctx, t, D, case, cls)
            if n <= 33 and not M.upgma_has_ties(D, 1e-6):
                # orientation: the same taxa in another order give the same tree (no ties -> unique result)
                m = _coprime_step(n)
                perm = [(i * m + 1) % n for i in range(n)]          # new position i holds old taxon perm[i]
                t2 = upgma(arr[np.ix_(perm, perm)])
                for i in range(n):
                    for j in range(n):
                        a, b2 = t.get_distance(perm[i], perm[j]), t2.get_distance(i, j)
                        if abs(a - b2) > tol(a):
                            V("upgma", "depends_on_taxon_order", "permuting the taxa changed the cophenetic distances",
                              a, b2)
                            return
            elif n <= 33:
                ctx.count("unspecified")
        try:
            t = neighbor_joining(arr)
        except Exception as e:  # noqa: BLE001
            V("neighbor_joining", "raises_" + type(e).__name__, "neighbor_joining refused a legal matrix", "tree", repr(e))
            return
        ctx.count("accepted")
        if check_leaf_set(ctx, "neighbor_joining", t, n, case, cls):
            ar = arities(extract(t.root))
            if sorted(ar) != [2] * (len(ar) - 1) + [3]:
                V("neighbor_joining", "shape", "tree is not binary with a three-way root", "3,2,2,...", sorted(set(ar)))
        return

    if what == "additive":
        spec = big_spec(case["shape"], n, 1.0)
        mroot, mnodes = M.build(spec)
        leafnode = {m.idx: m for m in mnodes if m.idx is not None}
        D = [[0.0] * n for _ in range(n)]
        for i in range(n):
            for j in range(i + 1, n):
                D[i][j] = D[j][i] = M.path_sum(leafnode[i], leafnode[j])
        try:
            t = neighbor_joining(np.array(D))
        except Exception as e:  # noqa: BLE001
            V("neighbor_joining", "raises_" + type(e).__name__, "neighbor_joining refused an additive matrix", "tree", repr(e))
            return
        ctx.count("accepted")
        if not check_leaf_set(ctx, "neighbor_joining", t, n, case, cls):
            return
        for i in range(n):
            for j in range(i + 1, n):
                g = t.get_distance(i, j)
                if abs(g - D[i][j]) > 1e-4 * max(1.0, D[i][j]):
                    V("neighbor_joining", "path_length", "a leaf-to-leaf path of the NJ tree differs from the additive matrix",
                      {"pair": [i, j], "d": D[i][j]}, g)
                    return
        troot, tnodes = M.build(extract(t.root))
        tl = {m.idx: m for m in tnodes if m.idx is not None}
        for i, j in _big_pairs(n):
            w = M.path_sum(tl[i], tl[j])
            if abs(t.get_distance(i, j) - w) > tol(w):
                V("neighbor_joining", "get_distance", "get_distance differs from the explicit path sum", w, t.get_distance(i, j))
                return
        return
    raise ValueError(case)


def _equal(ctx, a, b):
    """a == b and equal hashes; None (unspecified) when == itself raises: it is not part of the statement and
    runs into the interpreter's recursion limit for two different objects nested deeper than about 500 levels"""
    try:
        return bool(a == b and hash(a) == hash(b))
    except RecursionError:
        ctx.count("unspecified")
        ctx.count("eq_raises_RecursionError")
        return None


def big_cases(tier):
    q = tier == "quick"
    out = []
    sizes = [9, 10, 11, 12, 99, 100, 101, 130, 260] + ([] if q else [999, 1000, 1001])
    for n in sizes:
        for shape in ("star", "caterpillar", "balanced", "broom"):
            out.append({"kind": "big", "what": "tree", "shape": shape, "n": n})
    for n in [9, 10, 11, 12, 33, 100, 101, 260] + ([] if q else [130, 257]):
        for mk in ("scattered", "chain"):
            out.append({"kind": "big", "what": "cluster", "n": n, "matrix": mk})
    for n in [9, 10, 11, 12, 33, 100, 101] + ([] if q else [130, 260]):
        for shape in ("caterpillar", "balanced", "broom") if n <= 101 else ("balanced", "broom"):
            out.append({"kind": "big", "what": "additive", "shape": shape, "n": n})
    return out


def run_big(shard, ctx):
    cases = big_cases(ctx.tier)
    for k, case in enumerate(cases):
        if k % shard["parts"] != shard["part"]:
            continue
        case = {**case, "seed": ctx.seed}
        if not ctx.journal(case):
            continue
        ctx.ev(1, 1)
        check_big(ctx, case)
        if len(ctx.samples) < 1:
            ctx.sample(case)


# ---- refusals of the clustering functions --------------------------------------
VALID4 = [1.0, 2.0, 4.0, 2.0, 4.0, 3.0]


def refuse_cases():
    out = []
    for full in itertools.product((-1, 0, 1, 2), repeat=6):        # n=3, entries (0,1)(0,2)(1,0)(1,2)(2,0)(2,1)
        a01, a02, a10, a12, a20, a21 = full
        if a01 == a10 and a02 == a20 and a12 == a21 and min(full) >= 0:
            continue                                                # valid: covered by the matrix space
        Mx = [[0, a01, a02], [a10, 0, a12], [a20, a21, 0]]
        out.append({"kind": "refuse", "M": Mx, "expect": "ValueError",
                    "cls": "n3_" + ("negative" if min(full) < 0 else "asymmetric")})
    base = tri_to_matrix(4, VALID4)
    for i in range(4):
        for j in range(4):
            if i == j:
                continue
            Mx = [list(r) for r in base]
            Mx[i][j] += 1
            out.append({"kind": "refuse", "M": Mx, "expect": "ValueError", "cls": "n4_asymmetric"})
            if i < j:
                Mx = [list(r) for r in base]
                Mx[i][j] = Mx[j][i] = -1
                out.append({"kind": "refuse", "M": Mx, "expect": "ValueError", "cls": "n4_negative"})
                for bad, nm in ((float("nan"), "nan"), (float("inf"), "inf")):
                    Mx = [list(r) for r in base]
                    Mx[i][j] = Mx[j][i] = repr(bad)
                    out.append({"kind": "refuse", "M": Mx, "expect": "either", "cls": "n4_" + nm})
    out.append({"kind": "refuse", "M": [[0, 1, 2], [1, 0, 3]], "expect": "ValueError", "cls": "shape_2x3"})
    out.append({"kind": "refuse", "M": [[0, 1], [1, 0], [2, 3]], "expect": "ValueError", "cls": "shape_3x2"})
    out.append({"kind": "refuse", "M": [0, 1, 2, 3], "expect": "either", "cls": "shape_1d"})
    out.append({"kind": "refuse", "M": [[[0, 1], [1, 0]], [[0, 1], [1, 0]]], "expect": "either", "cls": "shape_3d"})
    return out


def check_refuse(ctx, case):
    """documented refusal -> ValueError, argument unchanged, and the next valid call behaves like a fresh one"""
    from biotite.sequence.phylo import neighbor_joining, upgma

    def conv(x):
        if isinstance(x, list):
            return [conv(v) for v in x]
        return float(x) if isinstance(x, str) else x

    valid = np.array(tri_to_matrix(4, VALID4))
    for name, fn in (("upgma", upgma), ("neighbor_joining", neighbor_joining)):
        ref = fn(valid).to_newick()
        arr = np.array(conv(case["M"]), dtype=np.float64)
        before = arr.copy()
        try:
            r = fn(arr)
            err = None
        except Exception as e:  # noqa: BLE001
            r, err = None, e
        ctx.outcome((name, case["cls"], type(err).__name__))
        if case["expect"] == "either":
            ctx.count("unspecified")
        else:
            ctx.count("refused")
            if err is None:
                ctx.violation("%s|no_error|%s" % (name, case["cls"]), "a documented refusal did not happen", case,
                              "ValueError", r.to_newick() if r is not None else None)
            elif type(err).__name__ != "ValueError":
                ctx.violation("%s|wrong_error_%s|%s" % (name, type(err).__name__, case["cls"]),
                              "documented ValueError expected", case, "ValueError", repr(err))
        if not np.array_equal(arr, before, equal_nan=True):
            ctx.violation("%s|input_modified_by_refused_call|%s" % (name, case["cls"]), "the refused call changed its argument",
                          case, before.tolist(), arr.tolist())
        again = fn(valid).to_newick()
        if again != ref:
            ctx.violation("%s|stale_state_after_refusal|%s" % (name, case["cls"]),
                          "the next valid call differs from the same call before the refusal", case, ref, again)


def run_refuse(shard, ctx):
    for case in refuse_cases():
        if not ctx.journal(case):
            continue
        ctx.ev(1, 1)
        check_refuse(ctx, case)
    ctx.sample(case)


# ---- nesting depth ------------------------------------------------------------------
DEEP_OPS = ["Tree", "get_leaf_count", "to_newick", "copy", "hash", "eq", "as_binary", "from_newick", "get_distance"]


def _deep_op(arg):
    """Executed in a forked child: build a caterpillar of the given depth bottom-up, run one operation, return a
    small summary that is compared with the closed form."""
    import sys

    from biotite.sequence.phylo import Tree, TreeNode, as_binary

    op, depth = arg
    sys.setrecursionlimit(max(sys.getrecursionlimit(), 1000))

    def cat():
        node = TreeNode(index=0)
        for i in range(1, depth):
            node = TreeNode([node, TreeNode(index=i)], [1.0, 1.0])
        return node

    if op == "from_newick":
        s = "(" * (depth - 1) + "0:1.0" + "".join(",%d:1.0):1.0" % i for i in range(1, depth)) + ";"
        t = Tree.from_newick(s)
        return [len(t), t.get_distance(0, depth - 1)]
    root = cat()
    if op == "Tree":
        return [len(Tree(root))]
    if op == "get_leaf_count":
        return [root.get_leaf_count()]
    if op == "to_newick":
        s = root.to_newick()
        return [s.count("("), s.count(","), s[: 6], s[-9:]]
    if op == "copy":
        c = root.copy()
        return [c.get_leaf_count()]
    if op == "hash":
        return [isinstance(hash(root), int)]
    if op == "eq":
        return [root == cat()]
    if op == "as_binary":
        return [len(as_binary(Tree(root)))]
    if op == "get_distance":
        return [Tree(root).get_distance(0, depth - 1)]
    raise ValueError(op)


def _deep_expected(op, depth):
    return {"Tree": [depth], "get_leaf_count": [depth], "copy": [depth], "hash": [True], "eq": [True],
            "as_binary": [depth], "get_distance": [float(depth)], "from_newick": [depth, float(depth)],
            "to_newick": [depth - 1, depth - 1, "((((((", ":1.0):0.0"]}[op]


def check_deep(ctx, case):
    import biotite.sequence.phylo  # noqa: F401  (imported before forking)

    op, depth = case["op"], case["depth"]
    cls = "nesting_le_3000" if depth <= 3000 else "nesting_deeper_than_10000"
    r = ctx.isolated(_deep_op, (op, depth), timeout=1200 if op == "from_newick" and depth > 3000 else 240)
    ctx.outcome((op, depth, r[0], r[1] if r[0] in ("exc", "signal") else None))
    if r[0] == "ok":
        ctx.count("accepted")
        want = _deep_expected(op, depth)
        if list(r[1]) != want:
            ctx.violation("%s|wrong_result|%s" % (op, cls), "operation on a deeply nested tree returned a wrong result",
                          case, want, r[1])
    elif r[0] == "exc" and (depth > 3000 or op == "eq"):
        # clean refusal of an extreme nesting depth; == (not part of the statement) runs into the interpreter's
        # recursion limit from a nesting depth of about 500 on when the two trees are different objects
        ctx.count("unspecified")
        ctx.count("deep_%s_raises_%s" % (op, r[1]))
    elif r[0] == "exc":
        ctx.violation("%s|raises_%s|%s" % (op, r[1], cls), "a tree nested deeper than the interpreter's recursion limit "
                      "(1000) but far from any resource limit was refused", case, "result", list(r))
    else:
        ctx.violation("%s|process_terminated|%s" % (op, cls),
                      "the interpreter was killed / did not return (%s) on a deeply nested tree" % (r,), case,
                      "result or exception", list(r))


def deep_cases(tier):
    """nesting depths straddling the interpreter's recursion limit (1000) must work; 30 000 and 100 000 (beyond
    what an 8 MiB C stack carries for the recursive compiled methods) may be refused but must not end the process.
    The Newick reader is quadratic in the nesting depth (2 CPU-minutes at 30 000): thorough only."""
    q = tier == "quick"
    out = []
    for depth in ([1100] if q else [999, 1000, 1001, 1100, 3000]):
        for op in DEEP_OPS:
            out.append({"kind": "deep", "op": op, "depth": depth})
    for depth in (30000, 100000):
        for op in DEEP_OPS:
            if op == "from_newick" and (q or depth > 30000):
                continue
            if op == "eq" and depth == 30000 and q:
                continue                                # 20 s until the RecursionError arrives
            out.append({"kind": "deep", "op": op, "depth": depth})
    return out


def run_deep(shard, ctx):
    for k, case in enumerate(deep_cases(ctx.tier)):
        if k % shard["parts"] != shard["part"]:
            continue
        if not ctx.journal(case):
            continue
        ctx.ev(1, 1)
        check_deep(ctx, case)
    ctx.sample(case)



# ---------------------------------------------------------------------------
# derived inputs (second audit, E): every object the library hands out goes into every other operation
# ---------------------------------------------------------------------------
def _sub_specs(spec):
    """(path, sub-specification) of every inner node below the root, preorder"""
    out = []

    def rec(s, path):
        if isinstance(s, int):
            return
        for k, (c, _) in enumerate(s):
            if not isinstance(c, int):
                out.append((path + (k,), c))
            rec(c, path + (k,))

    rec(spec, ())
    return out


def _node_at(root, path):
    for k in path:
        root = root.children[k]
    return root


def _zeroed(spec):
    return spec if isinstance(spec, int) else [[_zeroed(c), 0.0] for c, _ in spec]


def verify_derived(ctx, case, how, obj, spec):
    """obj: Tree or TreeNode obtained from the library (how = derivation); spec: what it has to be.  Applies every
    operation of the property to it and compares with the model built from spec."""
    from biotite.sequence.phylo import Tree, TreeError, TreeNode, as_binary

    is_tree = isinstance(obj, Tree)
    node = obj.root if is_tree else obj
    cls = "%s|%s" % (how, tree_class(spec))

    def V(op, fail, msg, exp=None, got=None):
        ctx.violation("derived|%s_%s|%s" % (op, fail, cls), msg + " (input obtained by %s)" % how, case, exp, got)

    def guard(op, fn):
        try:
            return True, fn()
        except Exception as e:  # noqa: BLE001
            V(op, "raises_" + type(e).__name__, "%s raised on a derived object" % op, "result", repr(e))
            return False, None

    ctx.count("derived_objects")
    ok, got = guard("extract", lambda: extract(node))
    if not ok:
        return
    if not same_spec(got, spec):
        V("derivation", "wrong_structure", "the derived object is not the expected tree", spec, got)
        return
    mroot, mnodes = M.build(spec)
    leaves_idx = M.leaf_indices(mroot)
    want_d = M.all_leaf_distances(spec)
    inodes = all_nodes(node)
    leaf_of = {x.index: x for x in inodes if x.is_leaf()}
    # queries
    for (i, j), w in want_d.items():
        ok, g = guard("distance_to", lambda: leaf_of[i].distance_to(leaf_of[j]))
        if not ok:
            return
        if abs(g - w) > tol(w):
            V("distance_to", "value", "distance differs from the explicit path sum", w, g)
            return
        ok, a = guard("lowest_common_ancestor", lambda: leaf_of[i].lowest_common_ancestor(leaf_of[j]))
        if ok and (a is None or not set(M.leaf_indices(M.lca(_leaf(mnodes, i), _leaf(mnodes, j)))) == {int(v) for v in a.get_indices()}):
            V("lowest_common_ancestor", "wrong_node", "LCA spans other leaves than in the model", None, None)
            return
    # writer (through the model reader) and reader
    for incl in (True, False):
        ok, sN = guard("to_newick", lambda: obj.to_newick(include_distance=incl))
        if not ok:
            continue
        if not is_tree:
            if incl and node.parent is not None:
                # a node that hangs in a tree writes its own distance to the parent as top-level length (documented
                # example: "(0:5.0,1:7.0):3.0"); checked here, then replaced by the root's 0.0 for the comparison
                tail = ":%s" % node.distance
                if not sN.endswith(tail):
                    V("to_newick", "top_length", "an attached node does not end with its own distance", tail, sN[-30:])
                    continue
                sN = sN[: -len(tail)] + ":0.0"
            sN += ";"
        try:
            bad = _cmp_parsed(M.newick_parse(sN), spec, None, incl, None, spec)
        except M.NewickError as e:
            bad = ("not_newick", "Newick", str(e))
        if bad:
            V("to_newick", bad[0], "written string does not describe the object: " + sN[:150], bad[1], bad[2])
            continue
        if sorted(leaves_idx) == list(range(len(leaves_idx))):
            ok, t2 = guard("from_newick", lambda: Tree.from_newick(sN))
            if ok:
                bad = _cmp_clades(M.clade_map(spec if incl else _zeroed(spec)), extract(t2.root), "exact", None)
                if bad:
                    V("from_newick", bad[0], "round trip of a derived object differs", bad[1], bad[2])
    # copy
    ok, c = guard("copy", lambda: obj.copy())
    if ok:
        cn = c.root if is_tree else c
        if not same_spec(extract(cn), spec) or {id(x) for x in all_nodes(cn)} & {id(x) for x in inodes}:
            V("copy", "differs_or_shares", "copy of a derived object differs or shares nodes", spec, extract(cn))
        else:
            try:
                # (the copy of an attached node drops the distance to the parent, which == compares: skipped there)
                if node.parent is None and not (c == obj and hash(c) == hash(obj)):
                    V("copy", "not_equal", "copy of a derived object does not compare equal", True, False)
            except Exception:  # noqa: BLE001
                ctx.count("unspecified")
    # binary form
    try:
        ok, b = True, as_binary(obj)
    except Exception as e:  # noqa: BLE001
        ok, b = False, None
        free_unary = (not is_tree and node.parent is None and not node.is_root() and not isinstance(spec, int)
                      and len(spec) == 1)
        ctx.violation("as_binary(TreeNode)|raises_%s|parentless_unary_node_not_marked_root" % type(e).__name__ if free_unary
                      else "derived|as_binary_raises_%s|%s" % (type(e).__name__, cls),
                      "as_binary raised on a derived object (input obtained by %s)" % how, case, "binary node", repr(e))
    if ok:
        bn = b.root if isinstance(b, Tree) else b
        if isinstance(b, Tree) != is_tree or not isinstance(bn, TreeNode):
            V("as_binary", "wrong_type", "result type does not follow the argument type", type(obj).__name__, type(b).__name__)
        else:
            bspec = extract(bn)
            bd = M.all_leaf_distances(bspec)
            if any(a != 2 for a in arities(bspec)):
                V("as_binary", "not_binary", "result is not binary", 2, arities(bspec))
            elif set(bd) != set(want_d) or any(abs(bd[k] - w) > tol(w) for k, w in want_d.items()):
                V("as_binary", "leaf_distance", "binary form changed leaf-to-leaf distances", want_d, bd)
            elif not {k[0] for k in M.clade_map(spec)} <= {k[0] for k in M.clade_map(bspec)}:
                V("as_binary", "clade_lost", "binary form lost a clade", None, None)
            elif not same_spec(extract(node), spec):
                V("as_binary", "argument_modified", "as_binary changed its argument", spec, extract(node))
    if is_tree:
        if not check_leaf_set(ctx, "derived", obj, len(leaves_idx), case, cls):
            return
        for (i, j), w in want_d.items():
            ok, g = guard("get_distance", lambda: obj.get_distance(i, j))
            if ok and abs(g - w) > tol(w):
                V("get_distance", "value", "get_distance differs from the explicit path sum", w, g)
                break
        ok, g = guard("as_graph", lambda: obj.as_graph())
        if ok and g.number_of_edges() != len(mnodes) - 1:
            V("as_graph", "edge_count", "graph has a wrong number of edges", len(mnodes) - 1, g.number_of_edges())
    else:
        # a parentless node can become a tree (last: Tree() marks it as root)
        valid = sorted(leaves_idx) == list(range(len(leaves_idx)))
        fresh = node.copy() if node.parent is not None else node
        try:
            t = Tree(fresh)
            if not valid:
                ctx.count("unspecified")            # duplicates are impossible here; a gap must raise
                V("Tree", "accepts_index_gap", "leaf indices with a gap were accepted", "TreeError", leaves_idx)
            else:
                check_leaf_set(ctx, "derived_Tree", t, len(leaves_idx), case, cls)
        except TreeError:
            if valid:
                V("Tree", "raises_TreeError", "a valid derived node was refused as root", "tree", None)
        except Exception as e:  # noqa: BLE001
            V("Tree", "raises_" + type(e).__name__, "Tree() on a derived node raised", "tree / TreeError", repr(e))


def check_derived(ctx, case):
    from biotite.sequence.phylo import Tree, TreeNode, as_binary, neighbor_joining, upgma

    spec = case["spec"]
    if "matrix" in case:
        arr = np.array(tri_to_matrix(case["n"], case["matrix"]))
        tree = (upgma if case["algo"] == "upgma" else neighbor_joining)(arr)
    else:
        tree = Tree(build_impl(spec)[0])
    impl_spec = extract(tree.root)
    root = tree.root
    s_exact, s_nodist = tree.to_newick(), tree.to_newick(include_distance=False)
    derived = [
        ("tree_itself" if "matrix" not in case else case["algo"] + "_result", lambda: tree, impl_spec),
        ("Tree.copy", lambda: tree.copy(), impl_spec),
        ("Tree.from_newick", lambda: Tree.from_newick(s_exact), impl_spec),
        ("Tree.from_newick_without_lengths", lambda: Tree.from_newick(s_nodist), _zeroed(impl_spec)),
        ("Tree.from_newick_decorated", lambda: Tree.from_newick(M.decorate(s_exact, "multiline")), impl_spec),
        ("TreeNode.from_newick", lambda: TreeNode.from_newick(s_exact[:-1])[0], impl_spec),
        ("root.copy", lambda: root.copy(), impl_spec),
        ("Tree.root", lambda: root, impl_spec),
    ]
    for path, sub in _sub_specs(impl_spec):
        derived.append(("inner_node.copy", (lambda p=path: _node_at(root, p).copy()), sub))
        derived.append(("inner_node", (lambda p=path: _node_at(root, p)), sub))
        derived.append(("TreeNode.from_newick_of_inner_node",
                        (lambda p=path: TreeNode.from_newick(_node_at(root, p).to_newick())[0]), sub))
    for how, make, want in derived:
        try:
            obj = make()
        except Exception as e:  # noqa: BLE001
            ctx.violation("derived|derivation_raises_%s|%s" % (type(e).__name__, how), "could not derive the object", case,
                          "object", repr(e))
            continue
        verify_derived(ctx, case, how, obj, want)
    # the binary forms as inputs: structure is their own (checked above to be a correct binary form)
    for how, make in (("as_binary(Tree)", lambda: as_binary(tree)), ("as_binary(TreeNode)", lambda: as_binary(root)),
                      ("as_binary(Tree.copy)", lambda: as_binary(tree.copy()))):
        try:
            obj = make()
            own = extract(obj.root if isinstance(obj, Tree) else obj)
        except Exception as e:  # noqa: BLE001
            ctx.violation("derived|derivation_raises_%s|%s" % (type(e).__name__, how), "could not derive the object", case,
                          "object", repr(e))
            continue
        verify_derived(ctx, case, how, obj, own)
    ctx.outcome(M.canon(impl_spec))


def derived_cases(tier, seed):
    b = DIST_BASES[seed % len(DIST_BASES)]
    out = []
    for n in (1, 2, 3, 4) if tier == "quick" else (1, 2, 3, 4, 5):
        for sh in M.shapes(n, 1 if (tier == "quick" or n == 5) else 2):
            ne = M.shape_stats(sh)[3]
            perm = list(range(n)) if n < 3 else list(range(1, n)) + [0]
            out.append({"kind": "derived", "spec": M.instantiate(sh, perm, [(k + 1) * b for k in range(ne)])})
    pal = VALUE_PALETTES[seed % len(VALUE_PALETTES)]
    for tri in itertools.product(pal[1:3], repeat=6):
        for algo in ("upgma", "neighbor_joining"):
            out.append({"kind": "derived", "spec": None, "algo": algo, "n": 4, "matrix": list(tri)})
    return out


def run_derived(shard, ctx):
    for k, case in enumerate(derived_cases(ctx.tier, ctx.seed)):
        if k % shard["parts"] != shard["part"]:
            continue
        if not ctx.journal(case):
            continue
        ctx.ev(1, 1)
        check_derived(ctx, case)
        if len(ctx.samples) < 1 and case.get("spec") is not None and not isinstance(case["spec"], int):
            ctx.sample(case)



# ---------------------------------------------------------------------------
# option precedence (third audit, H): a value that can come from two places
# ---------------------------------------------------------------------------
INNER_NAMES = ["inner", "7", "0", "0.95", "1e3", "LEAF"]      # LEAF -> replaced by the label of leaf 0


def check_precedence(ctx, case):
    """(a) documented: labels of intermediate nodes are discarded - also when they look like an index, a length or
    equal a leaf label; (b) include_distance=False together with round_distance: no lengths; (c) a labels list
    whose used entries lie beyond the leaf count -> documented TreeError (indices out of range)."""
    from biotite.sequence.phylo import Tree, TreeError

    spec = case["spec"]
    tree = Tree(build_impl(spec)[0])
    n = len(tree)
    impl_spec = extract(tree.root)
    plain = LABELS_PLAIN[0][:n]

    def V(what, fail, msg, exp=None, got=None):
        ctx.violation("precedence|%s|%s" % (fail, what), msg, case, exp, got)

    for labels in (None, plain):
        for incl in (True, False):
            kw = {} if labels is None else {"labels": labels}
            s0 = tree.to_newick(include_distance=incl, **kw)
            want = M.clade_map(impl_spec if incl else _zeroed(impl_spec))
            if ")" in s0:
                for name in INNER_NAMES:
                    nm = (plain[0] if labels is not None else "0") if name == "LEAF" else name
                    s1 = s0.replace(")", ")" + nm)
                    ctx.count("newick_read")
                    try:
                        t1 = Tree.from_newick(s1, labels) if labels is not None else Tree.from_newick(s1)
                        bad = _cmp_clades(want, extract(t1.root), "exact", None)
                    except Exception as e:  # noqa: BLE001
                        bad = ("raises_" + type(e).__name__, "tree", repr(e))
                    if bad:
                        V("inner_label_" + ("numeric" if nm[0].isdigit() else "text") + ("" if labels is None else "_with_labels"),
                          bad[0], "a label on an intermediate node was not discarded: %r" % s1[:150], bad[1], bad[2])
            # (b) both options given and contradicting each other
            if not incl:
                for rd in ROUNDS:
                    s2 = tree.to_newick(include_distance=False, round_distance=rd, **kw)
                    ctx.count("newick_written")
                    if s2 != s0:
                        V("include_distance_false_and_round_distance", "lengths_written",
                          "round_distance made the writer include lengths although include_distance=False", s0, s2)
    # (c) labels whose used entries refer to leaves the tree does not have
    s3 = tree.to_newick(labels=plain)
    shifted = ["unused"] + plain
    try:
        t3 = Tree.from_newick(s3, shifted)
        V("labels_beyond_leaf_count", "no_error", "leaf indices beyond the leaf count were accepted", "TreeError",
          [lf.index if lf is not None else None for lf in t3.leaves])
    except TreeError:
        ctx.count("refused")
    except Exception as e:  # noqa: BLE001
        V("labels_beyond_leaf_count", "wrong_error_" + type(e).__name__, "documented TreeError expected", "TreeError", repr(e))
    if shifted != ["unused"] + plain:
        V("labels_beyond_leaf_count", "labels_modified", "labels list changed", None, shifted)
    ctx.outcome(M.canon(impl_spec))


def precedence_cases():
    out = []
    for n in (1, 2, 3, 4):
        for sh in M.shapes(n, 1 if n <= 3 else 0):
            ne = M.shape_stats(sh)[3]
            out.append({"kind": "precedence", "spec": M.instantiate(sh, list(range(n)), [(k + 1) * 0.25 for k in range(ne)])})
    return out


def run_precedence(shard, ctx):
    for case in precedence_cases():
        if not ctx.journal(case):
            continue
        ctx.ev(1, 1)
        check_precedence(ctx, case)
    ctx.sample(case)


# ---------------------------------------------------------------------------
# shards
# ---------------------------------------------------------------------------
VARIANTS = ["float64", "float32", "int64", "int32", "fortran", "strided"]


def shards(tier, seed):
    q = tier == "quick"
    out = []
    # matrix
    out.append({"kind": "matrix", "n": 0, "vals": "all", "part": 0, "parts": 1})
    out.append({"kind": "matrix", "n": 1, "vals": "all", "part": 0, "parts": 1})
    out.append({"kind": "matrix", "n": 2, "vals": "all", "part": 0, "parts": 1})
    out.append({"kind": "matrix", "n": 3, "vals": "all", "part": 0, "parts": 1})
    for p in range(4):
        out.append({"kind": "matrix", "n": 4, "vals": "all", "part": p, "parts": 4})
    if q:
        out.append({"kind": "matrix", "n": 5, "vals": "two", "part": 0, "parts": 1})
        out.append({"kind": "matrix", "n": 5, "vals": "zero_one", "part": 0, "parts": 1})
    else:
        for vals in ("nonzero", "zero_two"):
            for p in range(16):
                out.append({"kind": "matrix", "n": 5, "vals": vals, "part": p, "parts": 16})
    if not q:
        for p in range(8):
            out.append({"kind": "matrix", "n": 6, "vals": "two", "part": p, "parts": 8})
    # additive
    for pal in ("pos", "zero"):
        out.append({"kind": "additive", "n": 4, "pal": pal, "t0": 0, "t1": 3, "distinct": 3})
        for t0 in range(0, 15, 3):
            out.append({"kind": "additive", "n": 5, "pal": pal, "t0": t0, "t1": t0 + 3, "distinct": 3})
    if q:
        for t0 in range(0, 105, 7):
            out.append({"kind": "additive", "n": 6, "pal": "pos", "t0": t0, "t1": t0 + 7, "distinct": 2, "extremes": True})
    else:
        for t0 in range(0, 105):
            out.append({"kind": "additive", "n": 6, "pal": "pos", "t0": t0, "t1": t0 + 1, "distinct": 3})
        for t0 in range(0, 105, 7):
            out.append({"kind": "additive", "n": 6, "pal": "zero", "t0": t0, "t1": t0 + 7, "distinct": 2})
    # dimension families (audit): magnitude, array flavours
    out.append({"kind": "matrix", "n": 4, "vals": "zero_two", "part": 0, "parts": 1, "scales": SCALES, "fam": "scaled"})
    for pal in ("pos", "zero"):
        out.append({"kind": "additive", "n": 4, "pal": pal, "t0": 0, "t1": 3, "distinct": 3, "scales": SCALES,
                    "fam": "scaled"})
    for n_ in (2, 3):
        out.append({"kind": "matrix", "n": n_, "vals": "all", "part": 0, "parts": 1, "flavours": True, "fam": "flavours"})
    out.append({"kind": "matrix", "n": 4, "vals": "two", "part": 0, "parts": 1, "flavours": True, "fam": "flavours"})
    out.append({"kind": "treeflav", "fam": "flavours"})
    for p in range(4 if q else 8):
        out.append({"kind": "big", "part": p, "parts": 4 if q else 8, "fam": "big"})
    out.append({"kind": "refuse", "fam": "refuse"})
    out.append({"kind": "precedence", "fam": "precedence"})
    for p in range(2 if q else 8):
        out.append({"kind": "derived", "part": p, "parts": 2 if q else 8, "fam": "derived"})
    for p in range(3):
        out.append({"kind": "deep", "part": p, "parts": 3, "fam": "deep"})
    # trees
    U = 1 if q else 2
    for n, parts in ((1, 1), (2, 1), (3, 1), (4, 8 if q else 24), (5, 16 if q else 96)):
        for p in range(parts):
            out.append({"kind": "tree", "n": n, "unary": U, "part": p, "parts": parts})
    if not q:
        for p in range(32):
            out.append({"kind": "tree", "n": 6, "unary": 1, "part": p, "parts": 32})
    # small spaces
    out.append({"kind": "labeling", "n": 1})
    out.append({"kind": "labeling", "n": 2})
    out.append({"kind": "labeling", "n": 3})
    for p in range(2):
        out.append({"kind": "labeling", "n": 4, "part": p, "parts": 2})
    out.append({"kind": "misuse"})
    for p in range(4):
        out.append({"kind": "eqpairs", "part": p, "parts": 4})
    # heavy first, rotated by the seed
    heavy = [s for s in out if (s["kind"] == "tree" and s["n"] >= 4) or s["kind"] == "additive"
             or (s["kind"] == "matrix" and s["n"] >= 5)]
    light = [s for s in out if s not in heavy]
    # interleave the kinds (evidence samples come from the first shards that finish), rotate by the seed
    per_kind = {}
    for sh in heavy:
        per_kind.setdefault(sh["kind"], []).append(sh)
    mixed = []
    for grp in itertools.zip_longest(*[per_kind[k] for k in ("tree", "additive", "matrix") if k in per_kind]):
        mixed += [sh for sh in grp if sh is not None]
    r = seed % max(1, len(mixed))
    small = [sh for sh in light if sh["kind"] == "tree"]
    slow = [sh for sh in light if sh["kind"] == "deep"]      # few cases, but single ones take minutes (thorough)
    return slow + small + mixed[r:] + mixed[:r] + [sh for sh in light if sh["kind"] not in ("tree", "deep")]


def run_shard(shard, ctx):
    k = shard["kind"]
    if k == "matrix":
        run_matrix(shard, ctx)
    elif k == "additive":
        run_additive(shard, ctx)
    elif k == "tree":
        run_trees(shard, ctx)
    elif k == "labeling":
        run_labeling(shard, ctx)
    elif k == "misuse":
        run_misuse(shard, ctx)
    elif k == "eqpairs":
        run_eqpairs(shard, ctx)
    elif k == "treeflav":
        run_treeflav(shard, ctx)
    elif k == "big":
        run_big(shard, ctx)
    elif k == "refuse":
        run_refuse(shard, ctx)
    elif k == "deep":
        run_deep(shard, ctx)
    elif k == "derived":
        run_derived(shard, ctx)
    elif k == "precedence":
        run_precedence(shard, ctx)
    else:
        raise ValueError(shard)


def run_matrix(shard, ctx):
    n, part, parts = shard["n"], shard["part"], shard["parts"]
    pal = VALUE_PALETTES[ctx.seed % len(VALUE_PALETTES)]
    if shard["vals"] == "nonzero":
        vals = pal[1:]
    elif shard["vals"] == "two":
        vals = pal[1:3]
    elif shard["vals"] == "zero_one":
        vals = pal[0:2]
    elif shard["vals"] == "zero_two":
        vals = pal[0:3]
    else:
        vals = pal
    m = n * (n - 1) // 2
    if n < 2:
        case = {"kind": "matrix", "n": n, "tri": [], "variant": "float64"}
        ctx.ev(1)
        r = ctx.isolated(_isolated_small, case, timeout=60)
        if r[0] != "ok":
            ctx.violation("upgma|process_%s|n_below_2" % r[0], "matrix with n < 2 ended the process / raised in harness",
                          case, "exception or tree", list(r))
        else:
            for v in r[1]:
                ctx.violation(v["sig"], v["what"], v["case"], v["expected"], v["observed"])
            ctx.count("unspecified", 2)
        return
    idx = 0
    for tri in itertools.product(vals, repeat=m):
        idx += 1
        if idx % parts != part:
            continue
        if shard.get("flavours"):
            variants = [v for v in VARIANTS + NEW_VARIANTS if v != "float64"] if n >= 4 else NEW_VARIANTS
        else:
            variants = VARIANTS if n <= 3 else ["float64"]
        for variant, sc in itertools.product(variants, shard.get("scales") or [None]):
            case = {"kind": "matrix", "n": n, "tri": list(tri), "variant": variant}
            if sc is not None:
                case["scale"] = sc
            if variant in INTEGRAL_VARIANTS and not all(float(v).is_integer() for v in tri):
                continue
            if not ctx.journal(case):
                continue
            nontriv = n >= 3 and (len(set(tri)) < len(tri) or 0 in tri) and (variant == "float64" or shard.get("flavours"))
            ctx.ev(1, 1 if nontriv else 0)
            check_matrix(ctx, case)
            if part == 0 and len(ctx.samples) < 1 and len(set(tri)) == min(len(vals), len(tri)):
                ctx.sample(case)


def _isolated_small(case):
    from mc.ctx import Ctx

    c = Ctx(ID, "quick", 0)
    check_matrix(c, case)
    return c.violations


def run_additive(shard, ctx):
    n, t0, t1 = shard["n"], shard["t0"], shard["t1"]
    pals = BRANCH_PALETTES if shard["pal"] == "pos" else ZERO_BRANCH_PALETTES
    pal = pals[ctx.seed % len(pals)]
    if shard.get("extremes"):
        pal = (pal[0], pal[-1])
    topos = M.unrooted_topologies(n)
    for ti in range(t0, min(t1, len(topos))):
        edges = topos[ti]
        pre = '{"kind": "additive", "n": %d, "edges": %s, "lengths": ' % (n, json.dumps([list(e) for e in edges]))
        for lengths in itertools.product(pal, repeat=len(edges)):
            if len(set(lengths)) > shard["distinct"]:
                continue
            for sc in shard.get("scales") or [None]:
                if not ctx.journal(pre + json.dumps(list(lengths)) + ("}" if sc is None else ', "scale": %r}' % sc)):
                    continue
                case = {"kind": "additive", "n": n, "edges": [list(e) for e in edges], "lengths": list(lengths)}
                if sc is not None:
                    case["scale"] = sc
                ctx.ev(1, 1)
                check_additive(ctx, case)
            if t0 == 0 and len(ctx.samples) < 1 and len(set(lengths)) == min(shard["distinct"], len(pal)):
                ctx.sample(case)


def tree_cases(n, U, tier, seed):
    """Every (shape, permutation, palette) of the tier, as (shape index, spec-producing tuple)."""
    q = tier == "quick"
    shp = M.shapes(n, U)
    for si, sh in enumerate(shp):
        nl, un, ar, ne = M.shape_stats(sh)
        ident = list(range(n))
        few = ("distinct", "milli")
        if n <= 3 or (n == 4 and not q and un <= 1):
            combos = [(list(p), pal) for p in itertools.permutations(range(n)) for pal in DIST_PALETTES]
        elif n == 4:
            combos = [(ident, pal) for pal in DIST_PALETTES]
            combos += [(list(p), pal) for p in itertools.permutations(range(n)) if list(p) != ident
                       for pal in (few if q else ("ones",) + few)]
        elif n == 5:
            listed = PERMS5[seed % len(PERMS5)]
            combos = [(ident, pal) for pal in DIST_PALETTES]
            if q:
                combos += [(p, pal) for p in listed[1:] for pal in few]
            elif un == 0:
                combos += [(list(p), pal) for p in itertools.permutations(range(n)) if list(p) != ident
                           for pal in ("ones",) + few]
            else:
                combos += [(p, pal) for p in listed[1:] for pal in ("ones",) + few]
        else:
            combos = [(p, pal) for p in (ident, ident[::-1]) for pal in ("ones",) + few]
        for perm, pal in combos:
            yield si, sh, perm, pal, (nl, un, ar, ne)


def run_trees(shard, ctx):
    n, U, part, parts = shard["n"], shard["unary"], shard["part"], shard["parts"]
    for si, sh, perm, pal, (nl, un, ar, ne) in tree_cases(n, U, ctx.tier, ctx.seed):
        if si % parts != part:
            continue
        spec = M.instantiate(sh, perm, palette_dists(pal, ne, ctx.seed))
        case = {"kind": "tree", "spec": spec, "pal": pal, "seed": ctx.seed}
        if not ctx.journal(case):
            continue
        nontriv = nl >= 2 and (un > 0 or ar >= 3 or perm != sorted(perm) or pal != "ones")
        ctx.ev(1, 1 if nontriv else 0)
        check_tree(ctx, case)
        if len(ctx.samples) < 1 and un and ar >= 3 and pal == "distinct":
            ctx.sample(case)


def run_labeling(shard, ctx):
    n = shard["n"]
    part, parts = shard.get("part", 0), shard.get("parts", 1)
    shp = M.shapes(n, 1 if n <= 3 else 0)
    k = 0
    for sh in shp:
        for idx in itertools.product(range(n + 1), repeat=n):
            k += 1
            if k % parts != part:
                continue
            case = {"kind": "labeling", "shape": json.loads(json.dumps(sh)), "idx": list(idx)}
            if not ctx.journal(case):
                continue
            ctx.ev(1, 0 if sorted(idx) == list(range(n)) else 1)
            check_labeling(ctx, case)
            if len(ctx.samples) < 1 and len(set(idx)) < n:
                ctx.sample(case)


def misuse_cases():
    out = []
    for sc in MISUSE:
        for k in (1, 2, 3, 4):
            if sc == "same_object_twice" and k < 2:
                continue
            for pos in range(k):
                if sc.startswith("length_mismatch") and pos:
                    continue
                out.append({"kind": "misuse", "scenario": sc, "k": k, "pos": pos})
    for sc in ("no_arguments", "index_and_children", "index_and_distances", "children_without_distances", "empty_children", "negative_index",
               "tree_of_none", "tree_of_child", "root_as_child"):
        out.append({"kind": "misuse", "scenario": sc})
    return out


def run_misuse(shard, ctx):
    for case in misuse_cases():
        if not ctx.journal(case):
            continue
        ctx.ev(1, 1)
        check_misuse(ctx, case)
    ctx.sample(case)


def run_eqpairs(shard, ctx):
    part, parts = shard["part"], shard["parts"]
    U = eq_universe()
    k = 0
    for a in U:
        for b in U:
            k += 1
            if k % parts != part:
                continue
            case = {"kind": "eqpair", "a": a, "b": b}
            ctx.ev(1, 1 if a != b else 0)
            check_eqpair(ctx, case)
    ctx.sample(case)


# ---------------------------------------------------------------------------
def replay(case, ctx):
    k = case["kind"]
    if k == "matrix":
        if case["n"] < 2:
            r = ctx.isolated(_isolated_small, case, timeout=60)
            if r[0] != "ok":
                ctx.violation("upgma|process_%s|n_below_2" % r[0], "process ended", case, None, list(r))
            else:
                for v in r[1]:
                    ctx.violation(v["sig"], v["what"], v["case"], v["expected"], v["observed"])
        else:
            check_matrix(ctx, case)
    elif k == "additive":
        check_additive(ctx, case)
    elif k == "tree":
        check_tree(ctx, case)
    elif k == "labeling":
        check_labeling(ctx, case)
    elif k == "misuse":
        check_misuse(ctx, case)
    elif k == "eqpair":
        check_eqpair(ctx, case)
    elif k == "treeflav":
        check_treeflav(ctx, case)
    elif k == "big":
        check_big(ctx, case)
    elif k == "refuse":
        check_refuse(ctx, case)
    elif k == "deep":
        check_deep(ctx, case)
    elif k == "derived":
        check_derived(ctx, case)
    elif k == "precedence":
        check_precedence(ctx, case)
    else:
        raise ValueError(case)


def crash_class(case):
    if isinstance(case, dict):
        k = case.get("kind", "unclassified")
        if k == "matrix":
            return "matrix|" + matrix_class(case["n"], case["tri"])
        if k == "tree":
            return "tree|" + tree_class(case["spec"])
        return k
    return "unclassified"
