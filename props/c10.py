"""C10 - k-mer indices find exactly the matching k-mers; selectors obey their definitions.

E2: complete enumeration of small alphabets x k x spacing models x reference sets x masks x
queries x table variants (direct / bucketed, every constructor, pickle) on the real
KmerTable / BucketKmerTable / KmerAlphabet / selectors, compared with nested-loop reference
models written from the documentation.  Malformed inputs run in forked children (E4).
"""

import itertools
import json
from collections import Counter
from fractions import Fraction

import numpy as np

ID = "C10"
LEVEL = "model_checking"
RULE = (
    "pair: every (reference, reference mask, query, query mask) over the stated alphabet/length/mask-bit bounds x "
    "every spacing model (every k-subset of [0, k+2), plus None) x table variant (KmerTable, BucketKmerTable with "
    "each listed bucket count); per case match(), match_table() and match_kmer_selection() are compared as "
    "multisets of triples with the nested-loop model; the table content (get_kmers, count, [], in, iteration) is "
    "compared once per (reference, mask, variant). multi/triple: every multiset of 2 references (and every ordered "
    "triple of a listed pool) x reference-id schemes x single-bit masks, each built through from_sequences, "
    "from_kmers, from_kmer_selection, from_positions, from_tables (both orders), pickle, deepcopy. sim: every "
    "threshold of the score range of the listed matrices. selectors: every sequence up to the length bound x window "
    "/ (k, s, offset subsets) / compression x listed permutations. A case is counted once; it is non-trivial when "
    "the model's result set (triples / selected positions / similar k-mers) is non-empty and, for tables, at least "
    "one k-mer of the reference is stored."
)
ASSUMPTIONS = [
    "a k-mer with a masked informative position must be excluded, a k-mer whose span is mask-free must be "
    "included; a spaced k-mer whose only masked positions are non-informative gap positions is unspecified (EITHER)",
    "sequences shorter than the k-mer span (reference or query), fewer k-mers than the minimizer window and s=1 "
    "are unspecified: a clean exception or the empty/model result (EITHER)",
    "with a similarity rule, triples of identical k-mers whose self score is below the threshold are unspecified "
    "(allowed, not required); triples of similar k-mers are required",
    "order of rows in match results / positions arrays is not part of the statement: compared as multisets "
    "(duplicates are violations)",
    "== is demanded only between a table and its pickle/deepcopy/same-order rebuild (True) and a table with a "
    "different entry multiset (False)",
    "MincodeSelector: 'below the threshold' is exact rational comparison; a permuted value within float64 rounding "
    "of the threshold would be EITHER (none occurs in the enumerated space)",
    "malformed inputs (k-mer codes outside [0, n^k), n_buckets <= 0, positions/ids outside uint32, wrong lengths "
    "and dtypes): a clean exception is demanded where the documentation names one or no model value exists",
]
EXHAUSTIVE = True
SHARD_TIMEOUT = {"quick": 600, "thorough": 2400}

LCG_A = 0xD1342543DE82EF95  # Steele & Vigna 2021, the multiplier named in the RandomPermutation notes

# ---------------------------------------------------------------------------
# palettes (VERIF_SEED selects the symbols / sequence class, never the codes)
# ---------------------------------------------------------------------------
PALETTES = {
    2: [("letter", "ab"), ("letter", "01"), ("general", [10, 20])],
    3: [("letter", "abc"), ("letter", "012"), ("general", [10, 20, 30])],
    4: [("nuc", None), ("letter", "wxyz"), ("general", ["p", "qq", 3, (4,)])],
    5: [("letter", "abcde"), ("letter", "vwxyz"), ("general", [0, 1, 2, 3, 4])],
}


def make_alphabet(n, pal):
    """-> (alphabet, factory(codes) -> Sequence)"""
    import biotite.sequence as seq

    kind, sym = PALETTES[n][pal % len(PALETTES[n])]
    if kind == "nuc":
        alph = seq.NucleotideSequence.alphabet_unamb

        def mk(codes):
            s = seq.NucleotideSequence()
            s.code = np.array(codes, dtype=np.uint8)
            return s

        return alph, mk
    alph = seq.LetterAlphabet(sym) if kind == "letter" else seq.Alphabet(sym)

    def mk(codes):
        s = seq.GeneralSequence(alph)
        s.code = np.array(codes, dtype=np.uint8)
        return s

    return alph, mk


# ---------------------------------------------------------------------------
# reference model (plain Python)
# ---------------------------------------------------------------------------
def offsets(k, sp):
    return list(range(k)) if sp is None else sorted(sp)


def model_kmers(codes, n, offs):
    """k-mer code at every start position (documented radix formula)."""
    span = offs[-1] + 1
    out = []
    for i in range(len(codes) - span + 1):
        c = 0
        for o in offs:
            c = c * n + codes[i + o]
        out.append(c)
    return out


def model_status(L, mask, offs):
    """per start position: 'R' (must be kept), 'O' (only gap positions masked: unspecified), 'X' (must be dropped)"""
    span = offs[-1] + 1
    out = []
    ms = set(mask or ())
    for i in range(L - span + 1):
        if any((i + o) in ms for o in offs):
            out.append("X")
        elif any(i <= m < i + span for m in ms):
            out.append("O")
        else:
            out.append("R")
    return out


def all_seqs(n, lo, hi):
    out = []
    for L in range(lo, hi + 1):
        out.extend(itertools.product(range(n), repeat=L))
    return out


def all_masks(L, bits):
    out = [()]
    for b in range(1, bits + 1):
        out.extend(itertools.combinations(range(L), b))
    return out


def spacing_models(k, extra):
    """None + every k-subset of [0, k+extra)"""
    out = [None]
    for c in itertools.combinations(range(k + extra), k):
        out.append(list(c))
    return out


def sp_arg(sp, form):
    """concrete `spacing` argument for a model"""
    if sp is None:
        return None
    o = sorted(sp)
    if form == "str":
        return "".join("1" if i in o else "0" for i in range(o[-1] + 1))
    if form == "list":
        return list(o)
    if form == "rlist":
        return list(reversed(o))
    if form == "array":
        return np.array(o, dtype=np.int32)
    if form == "tuple":
        return tuple(o)
    raise ValueError(form)


def mask_array(L, mask):
    a = np.zeros(L, dtype=bool)
    for m in mask:
        a[m] = True
    return a


def cmp_multiset(obs, req, opt=()):
    """obs, req, opt: lists of hashable rows. None if req <= obs <= req+opt (as multisets), else (mode, missing, extra)."""
    if not opt:
        if len(obs) == len(req) and (not obs or sorted(obs) == sorted(req)):
            return None
    co, cr = Counter(obs), Counter(req)
    missing = cr - co
    extra = co - (cr + Counter(opt))
    if not missing and not extra:
        return None
    if missing and extra:
        mode = "wrong_rows"
    elif missing:
        mode = "missing_rows"
    else:
        allowed = set(cr) | set(opt)
        mode = "duplicate_rows" if all(e in allowed for e in extra) else "extra_rows"
    return mode, sorted(missing.elements())[:12], sorted(extra.elements())[:12]


def rows(a, ncol):
    """ndarray result -> list of tuples; shape problems -> None"""
    sh = a.shape
    if len(sh) != 2 or sh[1] != ncol:
        if a.size == 0:
            return []
        return None
    if sh[0] == 0:
        return []
    return list(map(tuple, a.tolist()))


# ---------------------------------------------------------------------------
# environment: one (alphabet, k, spacing model)
# ---------------------------------------------------------------------------
class Env:
    def __init__(self, n, pal, k, sp, form="str", table_n=None):
        import biotite.sequence.align as align

        self.n, self.pal, self.k, self.sp, self.form = n, pal, k, sp, form
        self.alph, self.mk = make_alphabet(n, pal)
        self.tn = table_n or n  # radix of the table alphabet (>= n when the table alphabet extends)
        self.talph, self.mk_t = (self.alph, self.mk) if self.tn == n else make_alphabet(self.tn, pal)
        self.offs = offsets(k, sp)
        self.span = self.offs[-1] + 1
        self.N = self.tn**k
        self.sparg = sp_arg(sp, form)
        self.kalph = align.KmerAlphabet(self.talph, k, sp_arg(sp, form))
        self._seq, self._km, self._st = {}, {}, {}
        self.allcodes = np.arange(self.N, dtype=np.int64)

    def seq(self, codes):
        s = self._seq.get(codes)
        if s is None:
            s = self._seq[codes] = self.mk(codes)
        return s

    def kmers(self, codes):
        r = self._km.get(codes)
        if r is None:
            r = self._km[codes] = model_kmers(codes, self.tn, self.offs)
        return r

    def status(self, L, mask):
        key = (L, mask)
        r = self._st.get(key)
        if r is None:
            r = self._st[key] = model_status(L, mask, self.offs)
        return r

    def entries(self, codes, mask):
        """-> (required [(pos, kmer)], optional [(pos, kmer)])"""
        km = self.kmers(codes)
        if not mask:
            return list(enumerate(km)), []
        st = self.status(len(codes), mask)
        req = [(i, c) for i, c in enumerate(km) if st[i] == "R"]
        opt = [(i, c) for i, c in enumerate(km) if st[i] == "O"]
        return req, opt


def table_kinds(N, tier, full=False):
    """bucket counts: 1, 2, 3, a prime below N, a prime above N (capped to N by the class)"""
    primes = [2, 3, 5, 7, 11, 13, 17, 19, 23, 29, 31, 37, 41, 43, 47, 53, 59, 61, 67, 71]
    below = [p for p in primes if 3 < p < N]
    above = [p for p in primes if p > N]
    ks = ["K", "B1", "B2", "B3"]
    if below:
        ks.append("B%d" % below[-1])
    ks.append("B%d" % above[0])
    if full:
        ks.append("Bdef")
    return ks


def kind_nb(tk):
    if tk == "K":
        return None
    return None if tk == "Bdef" else int(tk[1:])


def table_class(tk):
    import biotite.sequence.align as align

    return align.KmerTable if tk == "K" else align.BucketKmerTable


def cls_name(tk):
    return "KmerTable" if tk == "K" else "BucketKmerTable"


def nb_kw(tk):
    if tk == "K" or tk == "Bdef":
        return {}
    return {"n_buckets": int(tk[1:])}


def build_from_sequences(env, tk, seqs, masks=None, ids=None, alphabet=None):
    kw = dict(nb_kw(tk))
    if env.sparg is not None:
        kw["spacing"] = env.sparg
    if masks is not None and any(masks):
        kw["ignore_masks"] = [mask_array(len(s), m) if m else None for s, m in zip(seqs, masks)]
    if ids is not None:
        kw["ref_ids"] = ids
    if alphabet is not None:
        kw["alphabet"] = alphabet
    elif env.tn != env.n:
        kw["alphabet"] = env.talph
    return table_class(tk).from_sequences(env.k, [env.seq(s) for s in seqs], **kw)


def check_content(ctx, env, tk, table, req, opt, site, icls, case):
    """Compare every lookup view of `table` with the entry multiset.
    req / opt: lists of (kmer, ref_id, pos).  Returns the observed {kmer: [(ref, pos)]} or None after a violation."""
    N = env.N
    name = cls_name(tk)

    def bad(view, mode, exp, got):
        ctx.violation("%s.%s|%s:%s|%s" % (name, site, view, mode, icls),
                      "%s of a table built by %s disagrees with the reference entries" % (view, site), case,
                      expected=exp, observed=got)
        return None

    if len(table) != N:
        return bad("len", "wrong_value", N, len(table))
    obs = {}
    flat = []
    for c in range(N):
        r = rows(table[c], 2)
        if r is None:
            return bad("getitem", "wrong_shape", "(m,2)", str(np.asarray(table[c]).shape))
        if r:
            obs[c] = r
            flat.extend((c, a, b) for a, b in r)
    d = cmp_multiset(flat, req, opt)
    if d is not None:
        return bad("getitem", d[0], {"missing": d[1]}, {"unexpected": d[2], "all": flat[:24]})
    present = sorted(obs)
    gk = np.asarray(table.get_kmers())
    if gk.tolist() != present:
        return bad("get_kmers", "wrong_value", present, gk.tolist())
    cnt = np.asarray(table.count(env.allcodes)).tolist()
    want = [len(obs.get(c, ())) for c in range(N)]
    if cnt != want:
        return bad("count", "wrong_value", want, cnt)
    if present:
        sub = np.array(present[::-1] + present[:1], dtype=np.int64)
        c2 = np.asarray(table.count(sub)).tolist()
        w2 = [len(obs[c]) for c in sub.tolist()]
        if c2 != w2:
            return bad("count_subset", "wrong_value", w2, c2)
    if tk == "K":
        c0 = np.asarray(table.count()).tolist()
        if c0 != want:
            return bad("count_all", "wrong_value", want, c0)
        it = [int(x) for x in table]
        if it != present:
            return bad("iter", "wrong_value", present, it)
        rv = [int(x) for x in reversed(table)]
        if rv != present[::-1]:
            return bad("reversed", "wrong_value", present[::-1], rv)
        inn = [c for c in range(N) if c in table]
        if inn != present:
            return bad("contains", "wrong_value", present, inn)
    else:
        want_nb = kind_nb(tk)
        if want_nb is not None and table.n_buckets != min(want_nb, N):
            return bad("n_buckets", "wrong_value", min(want_nb, N), int(table.n_buckets))
    if table.k != env.k or table.kmer_alphabet != env.kalph or table.alphabet != env.talph:
        return bad("attributes", "wrong_value", [env.k, repr(env.kalph)], [table.k, repr(table.kmer_alphabet)])
    return obs


def expected_triples(qents, obs):
    out = []
    for p, c in qents:
        e = obs.get(c)
        if e:
            out.extend((p, a, b) for a, b in e)
    return out


# ---------------------------------------------------------------------------
# T1  pair:  one reference x one query, all three match operations
# ---------------------------------------------------------------------------
QID = 7  # reference id of the query table in match_table


def icls_of(sp, rmask, qmask):
    parts = ["continuous" if sp is None else "spacing_arg"]
    if rmask:
        parts.append("refmask")
    if qmask:
        parts.append("qmask")
    return "+".join(parts)


def pair_cfg(tier):
    """list of groups: n, k, ref length range, query length range, mask policy, spacing extra, kinds"""
    if tier == "quick":
        return [
            {"g": "a", "n": 2, "k": 2, "lr": [0, 4], "lq": [0, 4], "mb": [2, 2, 4], "spx": 2, "parts": 1},
            {"g": "b", "n": 2, "k": 3, "lr": [0, 5], "lq": [0, 5], "mb": [2, 2, 2], "spx": 2, "parts": 3},
            {"g": "c", "n": 3, "k": 2, "lr": [0, 3], "lq": [0, 3], "mb": [1, 1, 2], "spx": 2, "parts": 1},
            {"g": "d", "n": 4, "k": 2, "lr": [0, 3], "lq": [0, 3], "mb": [1, 1, 1], "spx": 1, "parts": 1},
            {"g": "e", "n": 4, "k": 3, "lr": [3, 4], "lq": [3, 4], "mb": [0, 0, 0], "spx": 1, "parts": 2,
             "models": [None, [0, 1, 3], [0, 2, 3]], "kinds": ["K", "B7", "B67"]},
        ]
    return [
        {"g": "a", "n": 2, "k": 2, "lr": [0, 5], "lq": [0, 5], "mb": [2, 2, 4], "spx": 2, "parts": 4},
        {"g": "b", "n": 2, "k": 3, "lr": [0, 6], "lq": [0, 5], "mb": [2, 2, 3], "spx": 2, "parts": 12},
        {"g": "b4", "n": 2, "k": 4, "lr": [3, 6], "lq": [3, 6], "mb": [1, 1, 2], "spx": 1, "parts": 4},
        {"g": "c", "n": 3, "k": 2, "lr": [0, 4], "lq": [0, 4], "mb": [1, 1, 2], "spx": 2, "parts": 6},
        {"g": "c3", "n": 3, "k": 3, "lr": [2, 4], "lq": [2, 4], "mb": [1, 1, 1], "spx": 1, "parts": 4},
        {"g": "d", "n": 4, "k": 2, "lr": [0, 4], "lq": [0, 3], "mb": [1, 1, 2], "spx": 2, "parts": 6},
        {"g": "e", "n": 4, "k": 3, "lr": [3, 4], "lq": [3, 4], "mb": [1, 0, 1], "spx": 1, "parts": 6,
         "kinds": ["K", "B1", "B7", "B67"]},
        {"g": "f", "n": 5, "k": 2, "lr": [1, 3], "lq": [1, 3], "mb": [1, 1, 1], "spx": 1, "parts": 2},
    ]


def pair_models(g):
    return g.get("models") or spacing_models(g["k"], g["spx"])


def pair_kinds(g, tier):
    return g.get("kinds") or table_kinds(g["n"] ** g["k"], tier)


def pair_cases(n, lo, hi, bits):
    out = []
    for s in all_seqs(n, lo, hi):
        for m in all_masks(len(s), bits):
            out.append((s, m))
    return out


def pair_shards(tier):
    out = []
    for g in pair_cfg(tier):
        for sp in pair_models(g):
            for tk in pair_kinds(g, tier):
                for p in range(g["parts"]):
                    out.append({"kind": "pair", "g": g["g"], "sp": sp, "tk": tk, "part": p})
    return out


def _group(tier, name):
    for g in pair_cfg(tier):
        if g["g"] == name:
            return g
    raise KeyError(name)


class QCase:
    __slots__ = ("codes", "mask", "seq", "marr", "req", "opt", "table", "selpos", "selkm", "short")


def prep_query(env, tk, codes, mask, with_table=True):
    q = QCase()
    q.codes, q.mask = codes, mask
    q.seq = env.seq(codes)
    q.marr = mask_array(len(codes), mask) if mask else None
    q.short = len(codes) < env.span
    q.req, q.opt = env.entries(codes, mask)
    q.selpos = np.array([p for p, _ in q.req], dtype=np.uint32)
    q.selkm = np.array([c for _, c in q.req], dtype=np.int64)
    q.table = None
    if with_table and not q.short:
        # the query side table for match_table is built from explicit k-mers of the model: its content is
        # exactly the required entries (independent of from_sequences' mask handling)
        kw = nb_kw(tk)
        q.table = table_class(tk).from_kmer_selection(env.kalph, [q.selpos], [q.selkm], ref_ids=[QID], **kw)
    return q


def match_ops(ctx, env, tk, table, obs, q, icls, mkcase, counts=True):
    """match / match_table / match_kmer_selection of one query case against a table whose validated content is obs."""
    name = cls_name(tk)
    icls0 = icls.replace("+qmask", "")
    req = expected_triples(q.req, obs)
    opt = expected_triples(q.opt, obs) if q.opt else ()
    nviol = ctx.viol_total
    # --- match
    try:
        m = table.match(q.seq, ignore_mask=q.marr) if q.marr is not None else table.match(q.seq)
        exc = None
    except Exception as e:  # noqa: BLE001
        m, exc = None, e
    if q.short:
        ctx.count("either_short_query")
        if exc is None and len(m):
            ctx.violation("%s.match|rows_for_short_query|%s" % (name, icls), "query shorter than the k-mer span "
                          "returned matches", mkcase(), expected="exception or empty", observed=np.asarray(m).tolist())
    elif exc is not None:
        ctx.violation("%s.match|raised_%s|%s" % (name, type(exc).__name__, icls),
                      "match() raised on a legal query: %s" % str(exc)[:200], mkcase(), expected=req[:24],
                      observed=type(exc).__name__)
    else:
        r = rows(m, 3)
        d = cmp_multiset(r, req, opt) if r is not None else ("wrong_shape", [], [])
        if d is not None:
            ctx.violation("%s.match|%s|%s" % (name, d[0], icls), "match() does not return exactly the triples of "
                          "identical k-mers", mkcase(), expected={"required": req[:24], "missing": d[1]},
                          observed={"rows": (r or [])[:24], "unexpected": d[2]})
        elif r and [x[0] for x in r] != sorted(x[0] for x in r):
            ctx.violation("%s.match|not_ordered_by_query_position|%s" % (name, icls), "documented order of match "
                          "rows (first column ascending) violated", mkcase(), expected="sorted first column", observed=r[:24])
    # --- match_kmer_selection with the retained k-mers of the model
    try:
        m = table.match_kmer_selection(q.selpos, q.selkm)
        r = rows(m, 3)
        d = cmp_multiset(r, req) if r is not None else ("wrong_shape", [], [])
        if d is not None:
            ctx.violation("%s.match_kmer_selection|%s|%s" % (name, d[0], icls0),
                          "match_kmer_selection() does not return exactly the triples of identical k-mers", mkcase(),
                          expected={"required": req[:24], "missing": d[1]}, observed={"rows": (r or [])[:24], "unexpected": d[2]})
    except Exception as e:  # noqa: BLE001
        ctx.violation("%s.match_kmer_selection|raised_%s|%s" % (name, type(e).__name__, icls0),
                      "match_kmer_selection() raised on legal input: %s" % str(e)[:200], mkcase(), expected=req[:24],
                      observed=type(e).__name__)
    # --- match_table
    if q.table is not None:
        req4 = [(QID, p, a, b) for p, a, b in req]
        try:
            m = table.match_table(q.table)
            r = rows(m, 4)
            d = cmp_multiset(r, req4) if r is not None else ("wrong_shape", [], [])
            if d is not None:
                ctx.violation("%s.match_table|%s|%s" % (name, d[0], icls0),
                              "match_table() does not return exactly the pairs of entries with identical k-mers",
                              mkcase(), expected={"required": req4[:24], "missing": d[1]},
                              observed={"rows": (r or [])[:24], "unexpected": d[2]})
        except Exception as e:  # noqa: BLE001
            ctx.violation("%s.match_table|raised_%s|%s" % (name, type(e).__name__, icls0),
                          "match_table() raised on legal input: %s" % str(e)[:200], mkcase(), expected=req4[:24],
                          observed=type(e).__name__)
    if counts:
        ctx.ev(1, 1 if (req and obs) else 0)
        ctx.count("match_ops", 3 if q.table is not None else 2)
        if len(ctx.outcomes) < 50000:
            ctx.outcome(tuple(req))
    return ctx.viol_total == nviol


def build_ref(ctx, env, tk, codes, mask, icls, mkcase):
    """from_sequences of one reference + content check. Returns obs dict, or None (violation / refused short)."""
    name = cls_name(tk)
    short = len(codes) < env.span
    try:
        t = build_from_sequences(env, tk, [codes], [mask])
    except Exception as e:  # noqa: BLE001
        if short:
            ctx.count("either_short_reference_refused")
            return None, None
        ctx.violation("%s.from_sequences|raised_%s|%s" % (name, type(e).__name__, icls),
                      "from_sequences raised on legal input: %s" % str(e)[:200], mkcase(), expected="table",
                      observed=type(e).__name__)
        return None, None
    req, opt = env.entries(codes, mask)
    obs = check_content(ctx, env, tk, t, [(c, 0, p) for p, c in req], [(c, 0, p) for p, c in opt],
                        "from_sequences", icls, mkcase())
    ctx.count("tables_built")
    if obs is None:
        ctx.count("skipped_after_content_violation")
        return t, None
    return t, obs


def run_pair(shard, ctx):
    g = _group(ctx.tier, shard["g"])
    sp, tk = shard["sp"], shard["tk"]
    env = Env(g["n"], ctx.seed, g["k"], sp)
    mbr, mbq, mbt = g["mb"]
    qcases = [prep_query(env, tk, s, m) for s, m in pair_cases(g["n"], g["lq"][0], g["lq"][1], mbq)]
    refs = pair_cases(g["n"], g["lr"][0], g["lr"][1], mbr)
    base = {"kind": "pair", "g": shard["g"], "n": g["n"], "k": g["k"], "sp": sp, "tk": tk}
    for ri, (rc, rm) in enumerate(refs):
        if ri % g["parts"] != shard["part"]:
            continue
        rcase = dict(base, ref=list(rc), rmask=list(rm))
        pre = json.dumps(rcase)[:-1]
        if not ctx.journal(pre + "}"):
            continue
        t, obs = build_ref(ctx, env, tk, rc, rm, icls_of(sp, rm, ()), lambda: rcase)
        if obs is None:
            continue
        nr = len(rm)
        for q in qcases:
            if nr + len(q.mask) > mbt:
                continue
            js = pre + ',"q":%s,"qmask":%s}' % (list(q.codes), list(q.mask))
            if not ctx.journal(js):
                continue
            ok = match_ops(ctx, env, tk, t, obs, q, icls_of(sp, (), q.mask), lambda: json.loads(js))
            if ok and len(ctx.samples) < 2 and obs and q.req and rm and q.mask and sp:
                ctx.sample(json.loads(js))


def replay_pair(case, ctx):
    env = Env(case["n"], ctx.seed, case["k"], case["sp"])
    tk = case["tk"]
    rc, rm = tuple(case["ref"]), tuple(case["rmask"])
    t, obs = build_ref(ctx, env, tk, rc, rm, icls_of(case["sp"], rm, ()), lambda: case)
    if obs is None or "q" not in case:
        return
    q = prep_query(env, tk, tuple(case["q"]), tuple(case["qmask"]))
    match_ops(ctx, env, tk, t, obs, q, icls_of(case["sp"], (), q.mask), lambda: case)


# ---------------------------------------------------------------------------
# module contract
# ---------------------------------------------------------------------------
def shards(tier, seed):
    out = []
    for fn in SHARD_SOURCES:
        out.extend(fn(tier))
    if out and seed:
        r = seed % len(out)
        out = out[r:] + out[:r]
    # heaviest kinds first
    order = {"pair": 0, "multi": 1, "sync": 2}
    out.sort(key=lambda s: order.get(s["kind"], 5))
    return out


def run_shard(shard, ctx):
    RUNNERS[shard["kind"]](shard, ctx)


def replay(case, ctx):
    if isinstance(case, str):
        case = json.loads(case)
    REPLAYERS[case["kind"]](case, ctx)


def crash_class(case):
    if isinstance(case, str):
        try:
            case = json.loads(case)
        except ValueError:
            return "unclassified"
    if not isinstance(case, dict):
        return "unclassified"
    k = case.get("kind", "?")
    if k in ("pair", "multi", "triple", "sim"):
        return "%s|%s|%s" % (k, case.get("tk", "?"), "q" if "q" in case else "build")
    return k


SHARD_SOURCES = [pair_shards]
RUNNERS = {"pair": run_pair}
REPLAYERS = {"pair": replay_pair}


def bounds(tier):
    return {"pair": pair_cfg(tier)}


# ---------------------------------------------------------------------------
# T2/T3  multi: several references, every constructor, pickle, ==
# ---------------------------------------------------------------------------
ID_SCHEMES = ("default", "perm", "dup", "large")
POOL3 = [(0, 0, 0, 0, 0), (0, 1, 0, 1, 0), (0, 0, 1, 1, 0), (1, 1, 1, 1, 1), (0, 1), (0,)]


def ids_of(scheme, m):
    if scheme == "default":
        return None
    if scheme == "perm":
        return list(range(m - 1, -1, -1))
    if scheme == "dup":
        return [5] * m
    if scheme == "large":
        return [2**31, 2**32 - 1, 2**31 + 5][:m]
    raise ValueError(scheme)


def debruijn(n, k):
    """linearised de Bruijn sequence: contains every continuous k-mer once"""
    a = [0] * (n * k)
    out = []

    def db(t, p):
        if t > k:
            if k % p == 0:
                out.extend(a[1:p + 1])
        else:
            a[t] = a[t - p]
            db(t + 1, p)
            for j in range(a[t - p] + 1, n):
                a[t] = j
                db(t + 1, t)

    db(1, 1)
    return tuple(out + out[:k - 1])


def multi_cfg(tier):
    if tier == "quick":
        return [
            {"g": "m2", "n": 2, "k": 2, "len": [0, 4], "models": [None, [0, 2]], "idkinds": ["K", "B2", "B3", "B5", "Bdef"],
             "maskkinds": ["K", "B3"], "parts": 2},
            {"g": "m3", "n": 2, "k": 3, "len": [0, 4], "models": [None, [0, 1, 3]], "idkinds": ["K", "B2", "B7", "B11", "Bdef"],
             "maskkinds": [], "parts": 2},
        ]
    return [
        {"g": "m2", "n": 2, "k": 2, "len": [0, 5], "models": spacing_models(2, 2),
         "idkinds": ["K", "B1", "B2", "B3", "B5", "Bdef"], "maskkinds": ["K", "B2", "B3", "B5"], "parts": 6},
        {"g": "m3", "n": 2, "k": 3, "len": [0, 5], "models": [None, [0, 1, 3], [0, 2, 3], [0, 2, 4], [1, 2, 3]],
         "idkinds": ["K", "B2", "B3", "B7", "B11", "Bdef"], "maskkinds": ["K", "B3"], "parts": 8},
        {"g": "m4", "n": 3, "k": 2, "len": [0, 3], "models": [None, [0, 2]], "idkinds": ["K", "B2", "B7", "B11", "Bdef"],
         "maskkinds": ["K", "B7"], "parts": 3},
    ]


def triple_cfg(tier):
    models = [None, [0, 2]] if tier == "quick" else [None, [0, 2], [0, 3], [1, 2]]
    return {"n": 2, "k": 2, "models": models, "kinds": ["K", "B1", "B2", "B3", "B5", "Bdef"],
            "alpha": ["same", "explicit", "ext", "mixed"]}


def multi_shards(tier):
    out = []
    for g in multi_cfg(tier):
        for sp in g["models"]:
            for tk in sorted(set(g["idkinds"]) | set(g["maskkinds"])):
                for p in range(g["parts"]):
                    out.append({"kind": "multi", "g": g["g"], "sp": sp, "tk": tk, "part": p})
    t = triple_cfg(tier)
    for sp in t["models"]:
        for tk in t["kinds"]:
            out.append({"kind": "triple", "sp": sp, "tk": tk})
    return out


def _mgroup(tier, name):
    for g in multi_cfg(tier):
        if g["g"] == name:
            return g
    raise KeyError(name)


class MultiCtx:
    """per shard: queries shared by all table cases"""

    def __init__(self, env, tk, n, k, nb=None):
        self.env, self.tk, self.n, self.k = env, tk, n, k
        self._sub = {}
        if tk == "Bdef" and nb is None:
            return  # bucket count is chosen by the class: query side tables are made per observed count
        if nb is not None:
            tk = "B%d" % nb
        qs = [s for s in all_seqs(n, k, k + 1)]
        cover = debruijn(n, k)
        self.cover = [cover, tuple(reversed(cover))]
        self.queries = [prep_query(env, tk, s, ()) for s in qs + self.cover]
        self.altq = [prep_query(env, tk, s, (), with_table=False) for s in self.cover]
        kw = nb_kw(tk)
        self.alltable = table_class(tk).from_kmer_selection(
            env.kalph, [np.arange(env.N, dtype=np.uint32) + 100], [env.allcodes], ref_ids=[QID], **kw)
        self.allpos = np.arange(env.N, dtype=np.uint32) + 100

    def for_table(self, table):
        """context whose query-side tables have the bucket count of `table` (only differs for the default count)"""
        if self.tk != "Bdef":
            return self
        nb = int(table.n_buckets)
        if nb not in self._sub:
            m = MultiCtx(self.env, "Bdef", self.n, self.k, nb=nb)
            m.tk = "Bdef"
            self._sub[nb] = m
        return self._sub[nb]


def alt_ops(ctx, mc, table, obs, site, icls, case):
    """reduced matching on an alternatively constructed table"""
    env, tk = mc.env, mc.tk
    name = cls_name(tk)
    for q in mc.altq:
        req = expected_triples(q.req, obs)
        try:
            r = rows(np.asarray(table.match(q.seq)), 3)
        except Exception as e:  # noqa: BLE001
            r = "raised " + type(e).__name__
        d = cmp_multiset(r, req) if isinstance(r, list) else ("raised", [], [])
        if d is not None:
            ctx.violation("%s.match|%s|table_by_%s+%s" % (name, d[0], site, icls), "match() on a table made by %s" % site,
                          dict(case, q=list(q.codes)), expected=req[:24], observed=r if isinstance(r, str) else r[:24])
            return False
    req = [(100 + c, a, b) for c in sorted(obs) for a, b in obs[c]]
    try:
        r = rows(np.asarray(table.match_kmer_selection(mc.allpos, env.allcodes)), 3)
    except Exception as e:  # noqa: BLE001
        r = "raised " + type(e).__name__
    d = cmp_multiset(r, req) if isinstance(r, list) else ("raised", [], [])
    if d is not None:
        ctx.violation("%s.match_kmer_selection|%s|table_by_%s+%s" % (name, d[0], site, icls),
                      "match_kmer_selection(all codes) on a table made by %s" % site, case, expected=req[:24],
                      observed=r if isinstance(r, str) else r[:24])
        return False
    req4 = [(QID, p, a, b) for p, a, b in req]
    try:
        r = rows(np.asarray(table.match_table(mc.alltable)), 4)
    except Exception as e:  # noqa: BLE001
        r = "raised " + type(e).__name__
    d = cmp_multiset(r, req4) if isinstance(r, list) else ("raised", [], [])
    if d is not None:
        ctx.violation("%s.match_table|%s|table_by_%s+%s" % (name, d[0], site, icls),
                      "match_table(all-codes table) on a table made by %s" % site, case, expected=req4[:24],
                      observed=r if isinstance(r, str) else r[:24])
        return False
    # and the other direction: the all-codes table matched against this one
    req4 = [(a, b, QID, p) for p, a, b in req]
    try:
        r = rows(np.asarray(mc.alltable.match_table(table)), 4)
    except Exception as e:  # noqa: BLE001
        r = "raised " + type(e).__name__
    d = cmp_multiset(r, req4) if isinstance(r, list) else ("raised", [], [])
    if d is not None:
        ctx.violation("%s.match_table|%s|argument_by_%s+%s" % (name, d[0], site, icls),
                      "all-codes table .match_table(table made by %s)" % site, case, expected=req4[:24],
                      observed=r if isinstance(r, str) else r[:24])
        return False
    ctx.count("alt_match_ops", len(mc.altq) + 3)
    return True


def check_table_case(ctx, mc, case):
    """case: {seqs, masks, ids, alpha}.  Returns nothing; reports through ctx."""
    import copy
    import pickle

    env, tk = mc.env, mc.tk
    name = cls_name(tk)
    T = table_class(tk)
    seqs = [tuple(s) for s in case["seqs"]]
    masks = [tuple(m) for m in case["masks"]]
    m = len(seqs)
    ids = ids_of(case["ids"], m)
    rid = ids if ids is not None else list(range(m))
    alpha = case.get("alpha", "same")
    anymask = any(masks)
    icls = "+".join(["continuous" if env.sp is None else "spacing_arg"]
                    + (["refmask"] if anymask else
                       ["ids_" + case["ids"]] + (["alphabet_" + alpha] if alpha != "same" else [])))
    short = any(len(s) < env.span for s in seqs)
    req, opt, keep = [], [], []
    for j, (s, mk) in enumerate(zip(seqs, masks)):
        r, o = env.entries(s, mk)
        req.extend((c, rid[j], p) for p, c in r)
        opt.extend((c, rid[j], p) for p, c in o)
        keep.append(r)
    ctx.ev(1, 1 if (req and m > 1) else 0)
    # ---- A: from_sequences
    sobjs = [env.seq(s) for s in seqs]
    if alpha == "mixed":
        sobjs[0] = env.mk_t(seqs[0])
    kw = dict(nb_kw(tk))
    if env.sparg is not None:
        kw["spacing"] = env.sparg
    if anymask:
        kw["ignore_masks"] = [mask_array(len(s), mk) if mk else None for s, mk in zip(seqs, masks)]
    if ids is not None:
        kw["ref_ids"] = ids if case["ids"] != "perm" else np.array(ids)
    if alpha in ("explicit", "ext"):
        kw["alphabet"] = env.talph
    try:
        A = T.from_sequences(env.k, sobjs, **kw)
    except Exception as e:  # noqa: BLE001
        if short:
            ctx.count("either_short_reference_refused")
        else:
            ctx.violation("%s.from_sequences|raised_%s|%s" % (name, type(e).__name__, icls),
                          "from_sequences raised on legal input: %s" % str(e)[:200], case, "table", type(e).__name__)
        return
    ctx.count("tables_built")
    obs = check_content(ctx, env, tk, A, req, opt, "from_sequences", icls, case)
    if obs is None:
        ctx.count("skipped_after_content_violation")
        return
    ctx.outcome(tuple(sorted(req)))
    mc0 = mc
    mc = mc.for_table(A)
    for q in mc.queries:
        if not match_ops(ctx, env, tk, A, obs, q, icls, lambda: dict(case, q=list(q.codes), qmask=[]), counts=False):
            return
    ctx.count("match_ops", 3 * len(mc.queries))
    exact = not opt
    nbA = getattr(A, "n_buckets", None)
    alts = []
    # ---- B: from_kmers (k-mer arrays of the model, keep-masks)
    try:
        karr = [np.array(env.kmers(s), dtype=np.int64) for s in seqs]
        kw = dict(nb_kw(tk))
        if anymask:
            km = []
            for s, r in zip(seqs, keep):
                a = np.zeros(len(env.kmers(s)), dtype=bool)
                for p, _ in r:
                    a[p] = True
                km.append(a)
            kw["masks"] = km
        if ids is not None:
            kw["ref_ids"] = ids
        alts.append(("from_kmers", T.from_kmers(env.kalph, karr, **kw), True))
        # ---- C: from_kmer_selection
        pos = [np.array([p for p, _ in r], dtype=np.uint32) for r in keep]
        kms = [np.array([c for _, c in r], dtype=np.int64) for r in keep]
        kw = dict(nb_kw(tk))
        if ids is not None:
            kw["ref_ids"] = ids
        alts.append(("from_kmer_selection", T.from_kmer_selection(env.kalph, pos, kms, **kw), True))
        # ---- D: from_positions (direct table only)
        if tk == "K":
            d = {}
            for c, a, b in req:
                d.setdefault(c, []).append((a, b))
            dd = {c: np.array(v, dtype=np.uint32 if len(d) % 2 else np.int64) for c, v in d.items()}
            for c in range(env.N):
                if c not in dd:
                    dd[c] = np.zeros((0, 2), dtype=np.uint32)  # documented: empty arrays are skipped
                    break
            alts.append(("from_positions", T.from_positions(env.kalph, dd), True))
        # ---- E: from_tables, both orders
        if not short and alpha == "same":
            subs = []
            for j, (s, mk) in enumerate(zip(seqs, masks)):
                kw = dict(nb_kw(tk))
                if env.sparg is not None:
                    kw["spacing"] = env.sparg
                if mk:
                    kw["ignore_masks"] = [mask_array(len(s), mk)]
                subs.append(T.from_sequences(env.k, [env.seq(s)], ref_ids=[rid[j]], **kw))
            if tk == "Bdef" and len({t.n_buckets for t in subs}) > 1:
                try:
                    T.from_tables(subs)
                    ctx.violation("BucketKmerTable.from_tables|no_error|different_n_buckets", "tables with different "
                                  "bucket counts were merged", case, "ValueError", "returned")
                except Exception:  # noqa: BLE001
                    ctx.count("refused_documented")
            else:
                alts.append(("from_tables", T.from_tables(subs), False))
                if m > 1:
                    alts.append(("from_tables", T.from_tables(subs[::-1]), False))
                alts.append(("from_tables", T.from_tables([A, T.from_kmers(env.kalph, [np.zeros(0, dtype=np.int64)],
                                                                            **({"n_buckets": nbA} if nbA else {}))]), False))
        # ---- F/G: pickle, deepcopy
        alts.append(("pickle", pickle.loads(pickle.dumps(A)), True))
        alts.append(("pickle", pickle.loads(pickle.dumps(A, protocol=2)), True))
        alts.append(("deepcopy", copy.deepcopy(A), True))
    except Exception as e:  # noqa: BLE001
        site = ["from_kmers", "from_kmer_selection", "from_positions", "from_tables", "pickle", "deepcopy"]
        done = [a[0] for a in alts]
        nxt = next((x for x in site if x not in done and not (x == "from_positions" and tk != "K")), "pickle")
        ctx.violation("%s.%s|raised_%s|%s" % (name, nxt, type(e).__name__, icls),
                      "alternative construction raised on legal input: %s" % str(e)[:200], case, "table", type(e).__name__)
        return
    for site, t, same_order in alts:
        ctx.count("tables_built")
        explicit = site in ("from_kmers", "from_kmer_selection", "from_positions")
        want_nb = None
        o2 = check_content(ctx, env, "Bdef" if tk != "K" else "K", t, req, () if explicit else opt, site, icls, case)
        if o2 is None:
            return
        if tk != "K" and site in ("pickle", "deepcopy") and t.n_buckets != nbA:
            ctx.violation("%s.%s|n_buckets:wrong_value|%s" % (name, site, icls), "bucket count changed", case, int(nbA),
                          int(t.n_buckets))
            return
        if tk not in ("K", "Bdef") and t.n_buckets != min(kind_nb(tk), env.N):
            ctx.violation("%s.%s|n_buckets:wrong_value|%s" % (name, site, icls), "bucket count not the requested one",
                          case, min(kind_nb(tk), env.N), int(t.n_buckets))
            return
        if not alt_ops(ctx, mc0.for_table(t), t, o2, site, icls, case):
            return
        if same_order and exact and (tk == "K" or t.n_buckets == nbA):
            if not (A == t) or not (t == A) or (A != t):
                ctx.violation("%s.__eq__|false_for_equal|%s_vs_from_sequences" % (name, site),
                              "a table and its %s twin (same entries, same order) compare unequal" % site, case, True, False)
                return
    # ---- inequality with a table that differs in one entry
    if req and exact:
        kw = dict(nb_kw(tk)) if tk != "Bdef" else {"n_buckets": nbA}
        flat = sorted(req, key=lambda e: (e[1], e[2]))
        for variant in ("drop", "shift", "otherid"):
            ent = list(flat)
            if variant == "drop":
                ent = ent[:-1]
            elif variant == "shift":
                c, a, b = ent[-1]
                ent[-1] = (c, a, b + 1)
            else:
                c, a, b = ent[0]
                ent[0] = (c, a + 1, b)
            byid = {}
            for c, a, b in ent:
                byid.setdefault(a, []).append((b, c))
            rid2 = sorted(byid)
            if not rid2:
                rid2, byid = [0], {0: []}
            other = T.from_kmer_selection(env.kalph, [np.array([b for b, _ in byid[a]], dtype=np.uint32) for a in rid2],
                                          [np.array([c for _, c in byid[a]], dtype=np.int64) for a in rid2],
                                          ref_ids=rid2, **kw)
            if A == other or not (A != other):
                ctx.violation("%s.__eq__|true_for_different|one_entry_%s" % (name, variant),
                              "tables with different entries compare equal", case, False, True)
                return
    if len(ctx.samples) < 2 and m > 1 and req and anymask:
        ctx.sample(case)


def run_multi(shard, ctx):
    g = _mgroup(ctx.tier, shard["g"])
    sp, tk = shard["sp"], shard["tk"]
    env = Env(g["n"], ctx.seed, g["k"], sp)
    mc = MultiCtx(env, tk, g["n"], g["k"])
    S = all_seqs(g["n"], g["len"][0], g["len"][1])
    base = {"kind": "multi", "g": shard["g"], "n": g["n"], "k": g["k"], "sp": sp, "tk": tk}
    idx = 0
    for i in range(len(S)):
        for j in range(i, len(S)):
            idx += 1
            if idx % g["parts"] != shard["part"]:
                continue
            seqs = [list(S[i]), list(S[j])]
            variants = []
            if tk in g["idkinds"]:
                variants += [([[], []], sch) for sch in ID_SCHEMES]
            if tk in g["maskkinds"]:
                variants += [([[b], []], "default") for b in range(len(S[i]))]
                variants += [([[], [b]], "default") for b in range(len(S[j]))]
            for masks, sch in variants:
                case = dict(base, seqs=seqs, masks=masks, ids=sch)
                if not ctx.journal(case):
                    continue
                check_table_case(ctx, mc, case)
    if shard["part"] == 0 and tk in g["idkinds"]:
        # single references and the empty-mask single-table merge
        for s in S:
            for sch in ("default", "large"):
                case = dict(base, seqs=[list(s)], masks=[[]], ids=sch)
                if ctx.journal(case):
                    check_table_case(ctx, mc, case)


def run_triple(shard, ctx):
    cfg = triple_cfg(ctx.tier)
    sp, tk = shard["sp"], shard["tk"]
    envs = {"same": Env(cfg["n"], ctx.seed, cfg["k"], sp)}
    envs["explicit"] = envs["same"]
    envs["ext"] = Env(cfg["n"], ctx.seed, cfg["k"], sp, table_n=3)
    envs["mixed"] = envs["ext"]
    mcs = {a: MultiCtx(e, tk, cfg["n"], cfg["k"]) for a, e in envs.items() if a in ("same", "ext")}
    mcs["explicit"], mcs["mixed"] = mcs["same"], mcs["ext"]
    base = {"kind": "triple", "n": cfg["n"], "k": cfg["k"], "sp": sp, "tk": tk}
    for tri in itertools.product(range(len(POOL3)), repeat=3):
        seqs = [list(POOL3[i]) for i in tri]
        for alpha in cfg["alpha"]:
            for sch in ID_SCHEMES if alpha == "same" else ("default",):
                case = dict(base, seqs=seqs, masks=[[], [], []], ids=sch, alpha=alpha)
                if ctx.journal(case):
                    check_table_case(ctx, mcs[alpha], case)
        # one mask bit in the middle sequence
        if len(seqs[1]) > 2:
            case = dict(base, seqs=seqs, masks=[[], [2], []], ids="perm", alpha="same")
            if ctx.journal(case):
                check_table_case(ctx, mcs["same"], case)


def replay_multi(case, ctx):
    alpha = case.get("alpha", "same")
    env = Env(case["n"], ctx.seed, case["k"], case["sp"], table_n=3 if alpha in ("ext", "mixed") else None)
    mc = MultiCtx(env, case["tk"], case["n"], case["k"])
    c = {k: v for k, v in case.items() if k not in ("q", "qmask")}
    check_table_case(ctx, mc, c)


SHARD_SOURCES.append(multi_shards)
RUNNERS.update({"multi": run_multi, "triple": run_triple})
REPLAYERS.update({"multi": replay_multi, "triple": replay_multi})
